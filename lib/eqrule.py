"""Value equality of Logogram / Linkage / Calling_convention / Transfer / Basic_specifier / Basic_qualifier.

E2: operator== is evaluated symbolically on (this, P0); the result must be a conjunction of identity
comparisons, each pairing the same projection f(this) with f(P0), covering every component of the
class, and bottoming out in the identity of an interned String (or of the Logogram object for the
pointer-holding specifier classes).
"""
from symex import Sym, Unsupported
from facts import AnalysisBroken
import contracts

# class -> components that determine a value: for the classes that hold data members the members themselves are
# read from the class (the names below only document today's spelling); for the abstract ones the accessors
COMPONENTS = {
    'ipr::Logogram': ['operand'],
    'ipr::Linkage': ['lang'],
    'ipr::Calling_convention': ['conv'],
    'ipr::Transfer': ['first', 'second'],
    'ipr::Basic_specifier': ['spec'],
    'ipr::Basic_qualifier': ['qual'],
}


def conj_atoms(t):
    if isinstance(t, tuple) and t and t[0] == 'op' and t[1] == '&&':
        return conj_atoms(t[2]) + conj_atoms(t[3])
    return [t]


def subst(t, a, b):
    if t == a:
        return b
    if isinstance(t, tuple):
        return tuple(subst(x, a, b) for x in t)
    return t


def mentions(t, word):
    if isinstance(t, tuple):
        return any(mentions(x, word) for x in t)
    return isinstance(t, str) and (t == word or t.endswith('::' + word + '() const') or ('::' + word + '(') in t)


def check_equalities(ck, F, rule_prefix):
    R = ck.rule(rule_prefix + '.value-equality', 'operator== of the value classes compares every component, pairs '
                'the same projection on both sides and bottoms out in node identity (E2)', floor=4)
    S = Sym(F, opaque=contracts.default_opaque(F))
    for cls, comps in COMPONENTS.items():
        F.need_rec(cls)
        own = [fl['name'] for fl in F.rec[cls]['fields']]
        if own:
            comps = own          # a value class with data members: every member is a component (whatever it is called)
            # ... and every component is itself something spelled (a String, a Logogram, a Linkage, a Calling_convention): two
            # values with the same spelling must be equal, so nothing else (a cached number, a flag) may take part in equality
            SPELLED = set(COMPONENTS) | {'ipr::String'}
            alien = []
            for fl in F.rec[cls]['fields']:
                base = fl['t'].replace('const ', '').strip().rstrip('&* ').strip()
                if not (base in SPELLED or (base in F.rec and any(a in SPELLED for a in F.ancestors(base)))):
                    alien.append(f'{fl["name"]} : {fl["t"]}')
            comps = [n_ for n_ in own if n_ not in {a.split(' : ')[0] for a in alien}]      # what equality must look at
            if alien:
                from facts import walk
                eqm = [m for m in F.rec[cls]['methods'] if m['name'] == 'operator==']
                handwritten = [F.fn.get(m['id']) for m in eqm if not m.get('defaulted') and not m.get('implicit')]
                names_ = {a.split(' : ')[0] for a in alien}
                if handwritten and all(h is not None and not any(n.get('k') == 'member' and n.get('name') in names_ for n in walk(h.get('body')))
                                       for h in handwritten):
                    alien = []          # equality is written by hand and does not look at them
            if alien:
                ck.fail(R, cls + '/components', f'{cls} holds {alien} next to its spelling: a member-wise equality then distinguishes two values that are '
                        'spelled the same (one read back from a decomposition, one built from the logogram)', loc=F.rec[cls]['loc'])
            else:
                ck.ok(R, cls + '/components')
        eqs = [f for f in F.fns_in(cls) if f['name'] == 'operator==' and len(f['params']) == 1]
        if not eqs:
            # defaulted comparison with no synthesised body in any unit: judged from the declaration
            r = F.rec[cls]
            ms = [m for m in r['methods'] if m['name'] == 'operator==']
            ok = bool(ms) and ms[0]['defaulted'] and sorted(fl['name'] for fl in r['fields']) == sorted(comps)
            ck.check(R, cls, ok, f'{cls}::operator== is neither analysable nor a defaulted member-wise comparison of {comps}',
                     loc=r['loc'])
            continue
        f = eqs[0]
        this = ('sym', 'this')
        try:
            outs = S.run(f['id'], this=this, args=[('param', 0)])
        except Unsupported as e:
            raise AnalysisBroken(f'{f["id"]}: outside the evaluator language: {e}')
        # gather the truth structure: every returning path
        problems = []
        seen = set()
        for st, kind, v in outs:
            if kind != 'return':
                problems.append('may throw')
                continue
            terms = conj_atoms(v) + [c for c, val in st.conds]
            for t in terms:
                if isinstance(t, tuple) and t[0] == 'k':
                    continue
                if not (isinstance(t, tuple) and t[0] == 'op' and t[1] == '=='):
                    problems.append('a conjunct is not an identity comparison: ' + contracts.render(t, st, {})[:80])
                    continue
                a, b = t[2], t[3]
                if subst(b, ('param', 0), this) != a and subst(a, ('param', 0), this) != b:
                    problems.append('different projections are compared: ' + contracts.render(t, st, {})[:100])
                # identity is equality only for what is one object per spelling (an interned String): two Linkage / convention /
                # transfer *values* with the same spelling can be different objects (the library's constant, the table's element)
                if isinstance(a, tuple) and a[:1] == ('addr',) and isinstance(a[1], tuple) and a[1][:1] in (('call',), ('vcall',)):
                    g = F.fn.get(a[1][1]) or next((m for r_ in F.rec.values() for m in r_.get('methods', []) if m['id'] == a[1][1]), None)
                    ret = ((g or {}).get('ret') or '').replace('const ', '').replace('&', '').strip()
                    if ret in COMPONENTS:
                        problems.append(f'the addresses of two {contracts.short(ret)} values are compared ({contracts.render(t, st, {})[:90]}): values '
                                        'spelled alike need not be one object')
                for c in comps:
                    if mentions(a, c) and mentions(b, c):
                        seen.add(c)
        missing = [c for c in comps if c not in seen]
        if missing:
            problems.append(f'component(s) {missing} take no part in the comparison')
        ck.check(R, cls, not problems, f'{cls}::operator==: ' + '; '.join(sorted(set(problems))), loc=f['loc'], fn=f['id'],
                 detail={'components': comps})


def _bool_paths(S, fid, this):
    """operator as a list of (conditions, returned term) over the symbolic operands"""
    outs = S.run(fid, this=this, args=[('param', 0)])
    res = []
    for st, kind, v in outs:
        if kind != 'return':
            return None
        res.append((list(st.conds), v))
    return res


def _atoms(t, acc):
    if isinstance(t, tuple) and t:
        if t[0] == 'op' and t[1] in ('==', '!=') and len(t) == 4:
            x, y = sorted((t[2], t[3]), key=repr)
            acc.add(('eq', x, y))
            return
        if t[0] == 'op' and t[1] in ('&&', '||') and len(t) == 4:
            _atoms(t[2], acc); _atoms(t[3], acc)
            return
        if t[0] == 'un' and t[1] == '!':
            _atoms(t[2], acc)
            return
        if t[0] == 'k':
            return
        acc.add(('raw', t))


def _value(t, env):
    if isinstance(t, tuple) and t:
        if t[0] == 'k':
            return bool(t[1])
        if t[0] == 'op' and t[1] in ('==', '!=') and len(t) == 4:
            x, y = sorted((t[2], t[3]), key=repr)
            v = env[('eq', x, y)]
            return v if t[1] == '==' else (not v)
        if t[0] == 'op' and t[1] == '&&':
            return _value(t[2], env) and _value(t[3], env)
        if t[0] == 'op' and t[1] == '||':
            return _value(t[2], env) or _value(t[3], env)
        if t[0] == 'un' and t[1] == '!':
            return not _value(t[2], env)
    return env[('raw', t)]


def check_inequalities(ck, F, rule_prefix):
    """operator!= of a value class is the negation of its operator==: defaulted (the compiler rewrites a != b as !(a == b)), or,
    when written by hand, complementary to operator== for every valuation of the identity comparisons both are built from."""
    import itertools
    R = ck.rule(rule_prefix + '.inequality', 'operator!= of the value classes holds exactly when operator== does not: it is defaulted, '
                'or its evaluation is the complement of that of operator== for every valuation of the identity comparisons they are '
                'built from (truth table)', floor=4)
    S = Sym(F, opaque=contracts.default_opaque(F))
    this = ('sym', 'this')
    for cls in COMPONENTS:
        r = F.need_rec(cls)
        nes = [m for m in r['methods'] if m['name'] == 'operator!=' and len(m.get('params', [])) == 1]
        if not nes or all(m.get('defaulted') or m.get('implicit') for m in nes):
            ck.ok(R, cls, detail='defaulted or absent: a != b is rewritten as !(a == b)')
            continue
        eq = [f for f in F.fns_in(cls) if f['name'] == 'operator==' and len(f['params']) == 1]
        ne = [f for f in F.fns_in(cls) if f['name'] == 'operator!=' and len(f['params']) == 1]
        if not eq or not ne:
            ck.note(f'{cls}: a hand-written operator!= is declared but never instantiated')
            ck.ok(R, cls)
            continue
        try:
            pe, pn = _bool_paths(S, eq[0]['id'], this), _bool_paths(S, ne[0]['id'], this)
        except Unsupported as e:
            raise AnalysisBroken(f'{cls}::operator!=: outside the evaluator language: {e}')
        if pe is None or pn is None:
            ck.fail(R, cls, f'{cls}: operator== / operator!= may throw', loc=ne[0]['loc'], fn=ne[0]['id'])
            continue
        atoms = set()
        for conds, v in pe + pn:
            for c, _val in conds:
                _atoms(c, atoms)
            _atoms(v, atoms)
        atoms = sorted(atoms, key=repr)
        if len(atoms) > 10:
            raise AnalysisBroken(f'{cls}::operator!=: {len(atoms)} atomic comparisons')
        wit = None
        for bits in itertools.product((False, True), repeat=len(atoms)):
            env = dict(zip(atoms, bits))

            def run(paths):
                vals = {_value(v, env) for conds, v in paths if all(_value(c, env) == val for c, val in conds)}
                return vals
            ve, vn = run(pe), run(pn)
            if len(ve) != 1 or len(vn) != 1:
                continue            # a valuation no single path is taken for: not a feasible combination
            if next(iter(ve)) == next(iter(vn)):
                wit = env
                break
        ck.check(R, cls, wit is None,
                 f'{cls}: operator!= is not the negation of operator==: when ' +
                 (', '.join(f'{contracts.render(a[1], None, {})[:50]} {"==" if v else "!="} {contracts.render(a[2], None, {})[:50]}' for a, v in wit.items() if a[0] == 'eq') if wit else '') +
                 f' both answer {next(iter(run(pe))) if wit else ""}', loc=ne[0]['loc'], fn=ne[0]['id'])
