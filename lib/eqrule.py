"""Value equality of Logogram / Linkage / Calling_convention / Transfer / Basic_specifier / Basic_qualifier.

E2: operator== is evaluated symbolically on (this, P0); the result must be a conjunction of identity
comparisons, each pairing the same projection f(this) with f(P0), covering every component of the
class, and bottoming out in the identity of an interned String (or of the Logogram object for the
pointer-holding specifier classes).
"""
from symex import Sym, Unsupported
from facts import AnalysisBroken
import contracts

# class -> components that determine a value: for the classes that hold data members the members themselves are
# read from the class (the names below only document today's spelling); for the abstract ones the accessors
COMPONENTS = {
    'ipr::Logogram': ['operand'],
    'ipr::Linkage': ['lang'],
    'ipr::Calling_convention': ['conv'],
    'ipr::Transfer': ['first', 'second'],
    'ipr::Basic_specifier': ['spec'],
    'ipr::Basic_qualifier': ['qual'],
}


def conj_atoms(t):
    if isinstance(t, tuple) and t and t[0] == 'op' and t[1] == '&&':
        return conj_atoms(t[2]) + conj_atoms(t[3])
    return [t]


def subst(t, a, b):
    if t == a:
        return b
    if isinstance(t, tuple):
        return tuple(subst(x, a, b) for x in t)
    return t


def mentions(t, word):
    if isinstance(t, tuple):
        return any(mentions(x, word) for x in t)
    return isinstance(t, str) and (t == word or t.endswith('::' + word + '() const') or ('::' + word + '(') in t)


def check_equalities(ck, F, rule_prefix):
    R = ck.rule(rule_prefix + '.value-equality', 'operator== of the value classes compares every component, pairs '
                'the same projection on both sides and bottoms out in node identity (E2)', floor=4)
    S = Sym(F, opaque=contracts.default_opaque(F))
    for cls, comps in COMPONENTS.items():
        F.need_rec(cls)
        own = [fl['name'] for fl in F.rec[cls]['fields']]
        if own:
            comps = own          # a value class with data members: every member is a component (whatever it is called)
        eqs = [f for f in F.fns_in(cls) if f['name'] == 'operator==' and len(f['params']) == 1]
        if not eqs:
            # defaulted comparison with no synthesised body in any unit: judged from the declaration
            r = F.rec[cls]
            ms = [m for m in r['methods'] if m['name'] == 'operator==']
            ok = bool(ms) and ms[0]['defaulted'] and sorted(fl['name'] for fl in r['fields']) == sorted(comps)
            ck.check(R, cls, ok, f'{cls}::operator== is neither analysable nor a defaulted member-wise comparison of {comps}',
                     loc=r['loc'])
            continue
        f = eqs[0]
        this = ('sym', 'this')
        try:
            outs = S.run(f['id'], this=this, args=[('param', 0)])
        except Unsupported as e:
            raise AnalysisBroken(f'{f["id"]}: outside the evaluator language: {e}')
        # gather the truth structure: every returning path
        problems = []
        seen = set()
        for st, kind, v in outs:
            if kind != 'return':
                problems.append('may throw')
                continue
            terms = conj_atoms(v) + [c for c, val in st.conds]
            for t in terms:
                if isinstance(t, tuple) and t[0] == 'k':
                    continue
                if not (isinstance(t, tuple) and t[0] == 'op' and t[1] == '=='):
                    problems.append('a conjunct is not an identity comparison: ' + contracts.render(t, st, {})[:80])
                    continue
                a, b = t[2], t[3]
                if subst(b, ('param', 0), this) != a and subst(a, ('param', 0), this) != b:
                    problems.append('different projections are compared: ' + contracts.render(t, st, {})[:100])
                for c in comps:
                    if mentions(a, c) and mentions(b, c):
                        seen.add(c)
        missing = [c for c in comps if c not in seen]
        if missing:
            problems.append(f'component(s) {missing} take no part in the comparison')
        ck.check(R, cls, not problems, f'{cls}::operator==: ' + '; '.join(sorted(set(problems))), loc=f['loc'], fn=f['id'],
                 detail={'components': comps})
