"""Path conditions as Boolean formulas over opaque atoms: parse the rendered guard of a contract path and
decide, by truth table, whether two sets of guarded outcomes select the same outcome for every valuation of
the atoms (so that restructured tests -- reordered, nested differently, merged -- are not reported, while a
guard that selects a different outcome for some valuation is)."""
import itertools


def _split_top(s, sep):
    parts, depth, cur, i, q = [], 0, '', 0, None
    while i < len(s):
        ch = s[i]
        if q:
            cur += ch
            if ch == q and s[i - 1] != '\\':
                q = None
            i += 1
            continue
        if ch in '"\'':
            q = ch
        elif ch in '([{':
            depth += 1
        elif ch in ')]}':
            depth = max(0, depth - 1)
        if depth == 0 and s.startswith(sep, i):
            parts.append(cur)
            cur = ''
            i += len(sep)
            continue
        cur += ch
        i += 1
    parts.append(cur)
    return parts


def _outer_parens(s):
    if not (s.startswith('(') and s.endswith(')')):
        return False
    depth, q = 0, None
    for i, ch in enumerate(s):
        if q:
            if ch == q:
                q = None
            continue
        if ch in '"\'':
            q = ch
        elif ch == '(':
            depth += 1
        elif ch == ')':
            depth -= 1
            if depth == 0 and i != len(s) - 1:
                return False
    return depth == 0


def parse(s):
    s = s.strip()
    if not s:
        return ('true',)
    # `x.empty()` and `x.size() == 0` are one condition
    if s.endswith('empty()') and not s.startswith(('!', '(')) and _split_top(s, ' && ') == [s] and _split_top(s, ' || ') == [s]:
        return _eq_atom('0', s[:-len('empty()')] + 'size()')
    parts = _split_top(s, ' && ')
    if len(parts) > 1:
        return ('and', tuple(parse(p) for p in parts))
    parts = _split_top(s, ' || ')
    if len(parts) > 1:
        return ('or', tuple(parse(p) for p in parts))
    if s.startswith('!'):
        return ('not', parse(s[1:]))
    if _outer_parens(s):
        inner = s[1:-1]
        if len(_split_top(inner, ' && ')) > 1 or len(_split_top(inner, ' || ')) > 1 or inner.startswith('!') or _outer_parens(inner):
            return parse(inner)
        # (a == b) / (a != b): one atom, with the disequality folded into a negation
        ne = _split_top(inner, ' != ')
        if len(ne) == 2:
            return ('not', _eq_atom(ne[0], ne[1]))
        eq = _split_top(inner, ' == ')
        if len(eq) == 2:
            return _eq_atom(eq[0], eq[1])
        return ('atom', s)
    return ('atom', s)


def _eq_atom(a, b):
    """a == b as an atom whose spelling does not depend on the order of the operands; a pointer compared with
    nullptr is the negation of the pointer used as a condition."""
    a, b = a.strip(), b.strip()
    if b == 'nullptr':
        return ('not', parse(a))
    if a == 'nullptr':
        return ('not', parse(b))
    x, y = sorted((a, b))
    return ('atom', '(' + x + ' == ' + y + ')')


def atoms(f, acc=None):
    acc = acc if acc is not None else set()
    if f[0] == 'atom':
        acc.add(f[1])
    elif f[0] == 'not':
        atoms(f[1], acc)
    elif f[0] in ('and', 'or'):
        for x in f[1]:
            atoms(x, acc)
    return acc


def holds(f, val):
    if f[0] == 'true':
        return True
    if f[0] == 'atom':
        return val[f[1]]
    if f[0] == 'not':
        return not holds(f[1], val)
    if f[0] == 'and':
        return all(holds(x, val) for x in f[1])
    return any(holds(x, val) for x in f[1])


def equivalent(a, b, max_atoms=12, same=None, infeasible=None):
    """a, b: lists of (guard string, outcome signature).  Returns (True, None) when for every valuation of the
    atoms both select the same outcome; (False, witness) otherwise; (None, reason) when undecidable here.
    `same(confirmed outcome, current outcome, valuation)` may declare two different outcomes equal under a valuation
    (an algebraic lemma about the factory, stated and justified by the caller)."""
    fa = [(parse(w), o) for w, o in a]
    fb = [(parse(w), o) for w, o in b]
    at = set()
    for f, _o in fa + fb:
        atoms(f, at)
    at = sorted(at)
    if len(at) > max_atoms:
        return None, f'{len(at)} atomic conditions'
    for bits in itertools.product((False, True), repeat=len(at)):
        val = dict(zip(at, bits))
        if infeasible is not None and infeasible(val):
            continue            # the caller knows a relation between the atoms that excludes this valuation
        sa = [o for f, o in fa if holds(f, val)]
        sb = [o for f, o in fb if holds(f, val)]
        if not sa and not sb:
            continue
        # paths are mutually exclusive within one version; a valuation selecting several is infeasible there
        if len(sa) > 1 or len(sb) > 1:
            continue
        if sa != sb and sa and sb and same is not None and same(sa[0], sb[0], val):
            continue
        if sa != sb:
            return False, {'valuation': {k: v for k, v in val.items()}, 'confirmed': sa[0] if sa else None, 'now': sb[0] if sb else None}
    return True, None
