"""Reserved words: the rows of the table, and the rule `a spelling that is a reserved word never reaches the insertion of a
dynamic node` decided row by row (shared by C03, C04, C13)."""
from facts import AnalysisBroken, walk
from symex import Sym, Unsupported
import contracts


def reserved_rows(F):
    kw = [g2 for g2 in F.globals if g2['name'] == 'known_words']
    if not kw:
        raise AnalysisBroken('known_words not found')
    rows = []
    for e in (kw[0].get('init') or {}).get('elts', []):
        lits = [n for n in walk(e) if n.get('k') == 'lit' and n.get('lt') == 'str']
        rows.append(bytes(lits[0]['bytes']) if len(lits) == 1 else None)
    return kw[0], rows


def _find(t, pred):
    if isinstance(t, tuple):
        if pred(t):
            return t
        for x in t:
            r = _find(x, pred)
            if r is not None:
                return r
    return None


def word_eval(t, is_word, w):
    """Value of a guard that depends on the word only, for the concrete word w (finite-case evaluation over the rows of the
    reserved-word table); None when the term is outside this little language."""
    if is_word(t):
        return w
    if not isinstance(t, tuple) or not t:
        return None
    if t[0] == 'k':
        return t[1]
    if t[0] == 'castto':
        return word_eval(t[2], is_word, w)
    if t[0] in ('call', 'vcall') and len(t) >= 4 and t[2] is not None and is_word(t[2]) and len(t[3]) == 1:
        # a character of the word at a constant position, a prefix / suffix test with a constant
        nm = contracts.fn_simple(t[1])
        a0 = word_eval(t[3][0], is_word, w)
        if nm in ('operator[]', 'at') and isinstance(a0, int) and not isinstance(a0, bool):
            return w[a0] if 0 <= a0 < len(w) else None
        arg = t[3][0]
        while isinstance(arg, tuple) and arg and arg[0] in ('castto',):
            arg = arg[2]
        lit = None
        for x_ in ([arg] + list(arg[3]) if isinstance(arg, tuple) and arg[:1] == ('call',) else [arg]):
            if isinstance(x_, tuple) and x_[:1] == ('k',) and isinstance(x_[1], tuple):
                lit = bytes(x_[1])
        if nm in ('starts_with', 'ends_with') and lit is not None:
            return w.startswith(lit) if nm == 'starts_with' else w.endswith(lit)
        return None
    if t[0] in ('call', 'vcall') and len(t) >= 4 and t[2] is not None and is_word(t[2]) and not t[3]:
        nm = contracts.fn_simple(t[1])
        if nm in ('front', 'back'):
            return (w[0] if nm == 'front' else w[-1]) if len(w) else None
        nm = contracts.fn_simple(t[1])
        if nm in ('length', 'size'):
            return len(w)
        if nm == 'empty':
            return len(w) == 0
        return None
    if t[0] == 'un' and t[1] in ('!', 'not'):
        v = word_eval(t[2], is_word, w)
        return None if v is None else (not v)
    if t[0] == 'op' and len(t) == 4:
        a, b = word_eval(t[2], is_word, w), word_eval(t[3], is_word, w)
        if a is None or b is None or isinstance(a, bytes) or isinstance(b, bytes):
            return None
        try:
            return {'<': a < b, '<=': a <= b, '>': a > b, '>=': a >= b, '==': a == b, '!=': a != b, '+': a + b, '-': a - b,
                    '*': a * b, '&&': bool(a) and bool(b), '||': bool(a) or bool(b)}.get(t[1])
        except TypeError:
            return None
    return None


def unguarded_rows(F, conds, is_word, what):
    """The reserved words for which every word-only condition of the path holds (so the path is taken for them), given that the
    path does not contain a failed search of the reserved-word table.  AnalysisBroken when a condition cannot be decided."""
    _g, rows = reserved_rows(F)
    wordonly = [(c, val) for c, val in conds if _find(c, is_word) is not None
                and _find(c, lambda t: isinstance(t, tuple) and t and t[0] in ('elem', 'noelem', 'found', 'obj', 'global')) is None
                and _find(c, lambda t: isinstance(t, tuple) and len(t) >= 4 and t[0] == 'call' and contracts.fn_simple(t[1]) == 'word_if_known') is None]
    passing = []
    for r in rows:
        if r is None:
            continue
        vals = [(word_eval(c, is_word, r), val, c) for c, val in wordonly]
        und = [c for x, val, c in vals if x is None]
        if und:
            raise AnalysisBroken(f'{what}: a path reaches the insertion of a dynamic node without searching the reserved-word table, under a guard '
                                 'on the spelling that cannot be decided for the rows of the table: ' + contracts.render(und[0], None, {})[:200])
        if all(bool(x) == val for x, val, c in vals):
            passing.append(r)
    return passing, wordonly


def spelling_routes(F, fid, opaque):
    """For a constructor that maps a spelling (first parameter: a String or a word) to a node: the returning paths that insert a
    dynamic node into a table, each with the reserved words that can reach it without the table of reserved words having been
    searched in vain.  [(path condition text, [words])]"""
    S = Sym(F, opaque=opaque, max_depth=48)
    try:
        outs = S.run(fid)
    except Unsupported as e:
        raise AnalysisBroken(f'{fid}: {e}')
    P0 = ('param', 0)

    def is_word(t):
        # the spelling: the word parameter itself, or the characters of the String parameter
        if t == P0:
            return True
        if isinstance(t, tuple) and len(t) >= 4 and t[0] in ('call', 'vcall') and contracts.fn_simple(t[1]) == 'characters' and not t[3]:
            x = t[2]
            if x == P0:
                return True
            # the String interned for the word parameter has exactly its characters (C03)
            return isinstance(x, tuple) and len(x) >= 4 and x[0] in ('call', 'vcall') and contracts.fn_simple(x[1]) in ('intern', 'get_string') \
                and len(x[3]) == 1 and x[3][0] == P0
        return False
    res = []
    for st, k, v in outs:
        if k != 'return':
            continue
        if not any(e[0] in ('tree_insert',) and e[4] is not None for e in st.effects) and not any(e[0] == 'emplace' for e in st.effects):
            continue        # nothing created on this path
        def search_outcome(c, val):
            """True / False when the condition says the reserved-word search of the spelling succeeded / failed (the pointer used as
            a condition, or compared with null either way round)"""
            def is_search(t):
                return isinstance(t, tuple) and len(t) >= 4 and t[0] == 'call' and contracts.fn_simple(t[1]) == 'word_if_known' and len(t[3]) == 1 and is_word(t[3][0])
            if is_search(c):
                return bool(val)
            if isinstance(c, tuple) and len(c) == 3 and c[0] == 'un' and c[1] == '!' and is_search(c[2]):
                return not val
            if isinstance(c, tuple) and len(c) == 4 and c[0] == 'op' and c[1] in ('==', '!='):
                a, b = c[2], c[3]
                null = lambda t: isinstance(t, tuple) and t[:2] == ('k', 0)
                if (is_search(a) and null(b)) or (is_search(b) and null(a)):
                    return (not val) if c[1] == '==' else bool(val)
            return None
        searched = [r for r in (search_outcome(c, val) for c, val in st.conds) if r is not None]
        if searched and not any(searched):
            res.append((contracts.render_conds(st.conds, st, {})[:160], [], True))
            continue
        passing, wordonly = unguarded_rows(F, st.conds, is_word, fid)
        res.append((contracts.render_conds(st.conds, st, {})[:160], passing, False))
    return res


def empty_word_outcome(F):
    """(ok, description): string_pool::intern answers the empty word with the process-wide empty String and creates nothing for it;
    every other path is taken for non-empty words only."""
    f = F.intern_fn()
    fid = f['id']
    S = Sym(F, opaque=lambda x: F.fn.get(x) is None or F.fn[x]['name'] in ('word_if_known', 'make_string'), max_depth=40)
    try:
        outs = S.run(fid)
    except Unsupported as e:
        raise AnalysisBroken(f'{fid}: {e}')
    W = ('param', 0)

    def says_empty(c, val):
        """True / False when the condition fixes whether the word is empty; None otherwise"""
        if isinstance(c, tuple) and len(c) >= 4 and c[0] in ('call', 'vcall') and contracts.fn_simple(c[1]) == 'empty' and c[2] == W:
            return bool(val)
        if isinstance(c, tuple) and len(c) == 4 and c[0] == 'op' and c[1] in ('==', '!='):
            for a, b in ((c[2], c[3]), (c[3], c[2])):
                if isinstance(a, tuple) and len(a) >= 4 and a[0] in ('call', 'vcall') and contracts.fn_simple(a[1]) in ('size', 'length') and a[2] == W \
                        and isinstance(b, tuple) and b[:2] == ('k', 0):
                    return bool(val) if c[1] == '==' else (not val)
        return None
    good_empty = False
    leaks = []
    for st, k, v in outs:
        if k != 'return':
            continue
        e = [x for x in (says_empty(c, val) for c, val in st.conds) if x is not None]
        creates = any(x[0] == 'emplace' for x in st.effects)
        is_const = v == ('global', 'ipr::String::empty_string()::empty') or 'empty_string' in contracts.render(v, st, {})
        if e and e[0] is True:
            good_empty = is_const and not creates
        elif not e:
            # a path that does not ask whether the word is empty: the empty word can take it
            if not is_const:
                leaks.append(contracts.render_conds(st.conds, st, {})[:100])
    if not good_empty:
        return False, 'no path answers the empty word with the process-wide empty String (String::empty_string()) without creating a node', f
    if leaks:
        return False, f'the empty word can take a path that yields another node ({leaks[:2]})', f
    return True, '', f


def static_words_outside_table(F):
    """[(where, loc)] for every object of the reserved-word class (the class of the elements of known_words) that lives outside
    that table: another namespace-scope or static variable, a data member, a local, a temporary.  Interning finds a reserved
    spelling by searching the table, so a word object anywhere else is a second node for its spelling."""
    from facts import walk
    kw = [g for g in F.globals if g['name'] == 'known_words']
    if len(kw) != 1:
        raise AnalysisBroken('known_words not found')
    import re
    m = re.match(r'(?:const )?(.*?)\s*\[\d*\]$', kw[0]['t'].strip())
    if not m:
        raise AnalysisBroken(f'known_words is not an array: {kw[0]["t"]}')
    wcls = m.group(1).replace('const ', '').strip()
    norm = lambda t: (t or '').replace('const ', '').replace('(anonymous namespace)', '(anon)').strip()
    W = norm(wcls)
    out = []
    for g in F.globals:
        if g is kw[0]:
            continue
        base = norm(g['t']).split('[')[0].rstrip('&* ').strip()
        if base == W and not norm(g['t']).rstrip().endswith(('&', '*')):
            out.append((f'variable {g["q"]}', g['loc']))
    for n, r in F.rec.items():
        for fl in r['fields']:
            if norm(fl['t']).split('[')[0].strip() == W:
                out.append((f'data member {n}::{fl["name"]}', f'{r["loc"].split(":")[0]}:{fl.get("ln", 0)}'))
    for f in F.fn.values():
        if not (f.get('loc') or '').startswith(('src/', 'include/ipr')) or norm(f.get('parent')) == W:
            continue
        for x in walk(f.get('body')):
            if x.get('k') == 'decl':
                for v in x.get('vars', []):
                    if norm(v.get('t')).split('[')[0].strip() == W:
                        out.append((f'local {v["name"]} of {f["id"][:80]}', f['loc']))
            elif x.get('k') == 'ctor' and norm(x.get('cls')) == W and not x.get('copy'):
                out.append((f'temporary in {f["id"][:80]} (line {x.get("ln")})', f['loc']))
    return W, kw[0], sorted(set(out))


WORD_PARAM_TYPES = ('std::basic_string_view<char8_t', 'ipr::util::word_view', 'const char8_t *')
VIEW_MUTATORS = ('remove_suffix', 'remove_prefix', 'operator=', 'swap')


def word_passed_whole(ck, F, prefix):
    """<prefix>.word-passed-whole: every library function that takes a word (a view of code units) and reaches string_pool::intern hands
    intern that very word -- not a prefix, a suffix, a trimmed or otherwise edited copy.  The node made for a word then spells exactly
    the bytes the client gave (an embedded or trailing NUL, a blank), and two different words never share a node."""
    R = ck.rule(f'{prefix}.word-passed-whole', 'every library function that takes a word and reaches the interning function hands it that very word on '
                'every path: nothing is trimmed, cut or replaced on the way (the characters of the node are exactly the bytes given, a trailing NUL or '
                'blank included)', floor=2)
    intern = F.intern_fn()
    iid = intern['id']
    S = Sym(F, opaque=lambda x: x == iid or F.fn.get(x) is None or F.fn[x]['name'] in ('word_if_known', 'make_string'), max_depth=40)

    def is_wordparam(p):
        t = (p.get('t') or '').replace('const ', '', 1) if (p.get('t') or '').startswith('const std') else (p.get('t') or '')
        return t.startswith(WORD_PARAM_TYPES) or (p.get('t') or '').startswith(WORD_PARAM_TYPES)
    n = 0
    for f in sorted(F.fn.values(), key=lambda f: f['id']):
        if f.get('body') is None or not f['loc'].startswith(('src/', 'include/')) or f['id'] == iid or f.get('lambda_call'):
            continue
        wp = [i for i, p in enumerate(f['params']) if is_wordparam(p)]
        if not wp or not (f.get('parent') or '').startswith('ipr::'):
            continue
        try:
            outs = S.run(f['id'])
        except Unsupported:
            # outside the evaluator (a trimming loop, say): judged on the syntax tree -- a copy of the word parameter that is edited
            # (remove_prefix / remove_suffix / assignment) and then handed to an interning route
            from facts import walk, strip_casts, local_init
            names = {p['name'] for i, p in enumerate(f['params']) if i in wp}
            copies = {}
            for m in walk(f['body']):
                if m.get('k') == 'decl':
                    for v in m.get('vars', []):
                        i0 = v.get('init')
                        while isinstance(i0, dict) and (i0.get('k') in ('cast', 'paren') or (i0.get('k') == 'ctor' and len(i0.get('args', [])) == 1)):
                            i0 = i0.get('e') if 'e' in i0 else i0['args'][0]
                        if isinstance(i0, dict) and i0.get('k') == 'ref' and i0.get('kind') == 'parm' and i0.get('name') in names:
                            copies[(v['id'], v['name'])] = v
            edited = set()
            for m in walk(f['body']):
                if m.get('k') == 'call' and (m.get('callee') or {}).get('name') in VIEW_MUTATORS and m.get('obj') is not None:
                    o = strip_casts(m['obj'])
                    if o.get('k') == 'ref' and ((o.get('id'), o.get('name')) in copies or (o.get('kind') == 'parm' and o.get('name') in names)):
                        edited.add(o.get('name'))
            bad2 = []
            for m in walk(f['body']):
                if m.get('k') == 'call' and (m.get('callee') or {}).get('name') in ('intern', 'get_string', 'get_identifier', 'get_logogram', 'get_operator') \
                        and (m.get('callee') or {}).get('repo'):
                    for a in m.get('args') or []:
                        a0 = a
                        while isinstance(a0, dict) and (a0.get('k') in ('cast', 'paren') or (a0.get('k') == 'ctor' and len(a0.get('args', [])) == 1)):
                            a0 = a0.get('e') if 'e' in a0 else a0['args'][0]
                        if isinstance(a0, dict) and a0.get('k') == 'ref' and a0.get('name') in edited:
                            bad2.append(f'hands `{a0.get("name")}`, an edited copy of the word (line {m.get("ln")}), to {(m["callee"] or {}).get("name")}')
            if edited or bad2:
                n += 1
                ck.check(R, contracts.short(contracts.fn_qname(f['id'])) + '(' + ', '.join(contracts.short(p['t']) for p in f['params']) + ')', not bad2,
                         f'{f["id"]}: ' + '; '.join(sorted(set(bad2))[:2]) + ' -- a node is looked up or made for other bytes than the client gave',
                         loc=f['loc'], fn=f['id'])
            continue
        bad, reached = [], False
        for st, k, v in outs:
            calls = [e for e in st.effects if e[0] == 'call' and e[1] == iid]
            for e in calls:
                reached = True
                a = e[3][0] if e[3] else None
                while isinstance(a, tuple) and a and a[0] == 'castto':
                    a = a[2]
                if not (isinstance(a, tuple) and a[:1] == ('param',) and a[1] in wp):
                    # a view rebuilt from the whole of the parameter is the parameter
                    whole = isinstance(a, tuple) and len(a) >= 4 and a[0] == 'call' and '::basic_string_view(' in a[1] and len(a[3]) == 2 and \
                        all(isinstance(x, tuple) and len(x) >= 4 and x[0] == 'call' and x[2] == ('param', wp[0]) for x in a[3]) and \
                        [contracts.fn_simple(x[1]) for x in a[3]] in (['data', 'size'], ['data', 'length'])
                    if not whole:
                        bad.append(f'interns `{contracts.render(a, st, {})[:70]}`')
                        continue
                    a = ('param', wp[0])
                edits = [e2 for e2 in st.effects[:st.effects.index(e)] if e2[0] == 'call' and e2[2] == a and contracts.fn_simple(e2[1]) in VIEW_MUTATORS]
                if edits:
                    bad.append(f'applies {contracts.fn_simple(edits[0][1])} to the word before interning it')
        if reached:
            n += 1
            ck.check(R, contracts.short(contracts.fn_qname(f['id'])) + '(' + ', '.join(contracts.short(p['t']) for p in f['params']) + ')', not bad,
                     f'{f["id"]}: ' + '; '.join(sorted(set(bad))[:2]) + ' -- the node no longer spells the bytes the client gave', loc=f['loc'], fn=f['id'])
    if n == 0:
        raise AnalysisBroken('no function with a word parameter reaches the interning function')
    return any(v.get('rule') == f'{prefix}.word-passed-whole' for v in getattr(ck, 'violations', []))
