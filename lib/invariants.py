"""Class invariants established by induction over a class's own functions, and used as lemmas by the evaluator.

size-counter lemma: a scope class whose size() reads a data member `m` instead of asking its store of declarations.  The member
is the size of the store in every reachable state when (base) every constructor leaves `m` equal to the size the store starts
with, (step) every member function changes `m` by exactly the number of elements it enters into the store, and (frame) nothing
outside the class enters or removes elements.  Where that holds, size() *is* the store's size and the evaluator answers it so
(rules that speak about positions and sizes then see the same terms as on a tree without the counter); where it does not,
C09.scope-size-derived reports the function that breaks it."""
import contracts
from facts import AnalysisBroken, walk

MUTATORS = ('push_back', 'emplace_back', 'emplace_front', 'push_front', 'emplace', 'emplace_after', 'insert', 'insert_after', 'clear',
            'pop_back', 'pop_front', 'erase', 'erase_after', 'resize', 'assign', 'swap')


def is_scope_class(name):
    return name.startswith('ipr::impl::homogeneous_scope<') or name == 'ipr::impl::Scope'


def _under(t, root):
    while isinstance(t, tuple) and t:
        if t == root:
            return True
        if t[0] in ('fld', 'deref', 'addr', 'index', 'castto', 'call', 'vcall', 'after'):
            t = t[2] if t[0] in ('castto', 'call', 'vcall', 'after') else t[1]
        else:
            return False
    return False


def size_functions(F):
    for f in sorted(F.fn.values(), key=lambda f: f['id']):
        par = f.get('parent') or ''
        if f['name'] == 'size' and not f.get('params') and f.get('body') and is_scope_class(par):
            yield f


def size_answers(F, S, f):
    """[(state, value, kind, member)] for each returning path of a scope's size(): kind is 'store' (computed from the store or a
    constant of a fixed-size store), 'member' (reads this->member) or 'other'."""
    from symex import Unsupported
    try:
        outs = S.run(f['id'], this=('sym', 'this'), args=[])
    except Unsupported as e:
        raise AnalysisBroken(f'{f["id"]}: {e}')
    this = ('sym', 'this')
    try:
        d, _sz = store_of(F, S, f['parent'])
    except AnalysisBroken:
        d = None

    def reads(t, acc):
        """how the term reaches the scope object: 'store' through the store member, 'other' any other way"""
        if not isinstance(t, tuple):
            return
        if d is not None and t == ('fld', this, d):
            acc.add('store')
            return
        if t == this:
            acc.add('other')
            return
        for x in t:
            reads(x, acc)
    res = []
    for st, k, v in outs:
        if k != 'return':
            continue
        t = v
        while isinstance(t, tuple) and t and t[0] in ('castto', 'after', 'narrow'):
            t = t[2]
        how = set()
        reads(t, how)
        if isinstance(t, tuple) and t[:2] == ('fld', this) and len(t) == 3 and t[2] != d:
            res.append((st, v, 'member', t[2]))
        elif isinstance(t, tuple) and (t[:1] == ('k',) or how == {'store'}):
            # a constant (a store of fixed size, its size() inlined) or a value computed from observations of the store alone
            res.append((st, v, 'store', None))
        elif isinstance(t, tuple) and t[:1] in (('call',), ('vcall',)) and contracts.fn_simple(t[1]).split('<')[0] in ('size', 'distance') and 'other' not in how:
            res.append((st, v, 'store', None))
        else:
            res.append((st, v, 'other', None))
    return res


def store_of(F, S, cls):
    """(member name, id of its size()) of the store of declarations of a scope class: what type() is read from."""
    this = ('sym', 'this')
    tf = next((g for g in F.fn.values() if (g.get('parent') or '') == cls and g['name'] == 'type' and not g.get('params') and g.get('body')), None)
    if tf is None:
        raise AnalysisBroken(f'{cls}: no type() to identify the store of declarations by')
    d = None
    for st, k, v in S.run(tf['id'], this=this, args=[]):
        t = v
        while isinstance(t, tuple) and t and t[0] in ('addr', 'deref', 'castto'):
            t = t[2] if t[0] == 'castto' else t[1]
        if k == 'return' and isinstance(t, tuple) and t[:2] == ('fld', this):
            d = t[2]
    if d is None:
        raise AnalysisBroken(f'{cls}::type() does not read a member of the scope')
    dt = next(fl['t'] for fl in F.rec[cls]['fields'] if fl['name'] == d).replace('const ', '').strip()
    store_size = dt + '::size() const'
    if store_size not in F.fn:
        raise AnalysisBroken(f'{cls}: the store `{d}` has no size() in the facts ({store_size})')
    return d, store_size


def counter_agrees(F, S, cls, m, size_fn):
    """([complaints], paths judged): is the member `m` that size() reads, by induction over the class's functions, the size of the store?"""
    from symex import Unsupported, linear_form as _lin
    this = ('sym', 'this')
    d, store_size = store_of(F, S, cls)
    loc_m, store = ('fld', this, m), ('fld', this, d)
    bad, judged = [], 0
    for g in sorted(F.fn.values(), key=lambda g: g['id']):
        if (g.get('parent') or '') != cls or g.get('body') is None or g.get('copy') or g['id'] == size_fn['id']:
            continue
        try:
            outs = S.run(g['id'], this=this, args=[('param', i) for i in range(len(g['params']))])
        except Unsupported as e:
            raise AnalysisBroken(f'{g["id"]}: {e}')
        is_ctor = g['name'] == cls.split('<')[0].split('::')[-1]
        for st, k, v in outs:
            if k != 'return':
                continue
            entered = sum(1 for e in st.effects if e[0] == 'emplace' and _under(e[2], store))
            after = st.symstore.get(loc_m)
            if is_ctor:
                judged += 1
                start = None
                for st2, k2, v2 in S.run(store_size, this=store, args=[], state=st.fork()):
                    if k2 == 'return':
                        start = v2
                while isinstance(start, tuple) and start and start[0] == 'castto':
                    start = start[2]
                n0 = start[1] if isinstance(start, tuple) and start[:1] == ('k',) and isinstance(start[1], int) else entered
                a = after
                while isinstance(a, tuple) and a and a[0] in ('castto', 'narrow'):
                    a = a[2]
                same_term = start is not None and a is not None and _lin(a) == _lin(start)      # initialised from the store's own size
                if not same_term and isinstance(a, tuple) and len(a) >= 4 and a[0] in ('call', 'vcall') \
                        and contracts.fn_simple(a[1]).split('<')[0] in ('size', 'distance'):
                    # ... asked of the store while it was being constructed (the object then written to the store member)
                    stored = st.symstore.get(store)
                    reach, todo = set(), [stored]
                    while todo:
                        x = todo.pop()
                        if isinstance(x, tuple):
                            if x[:1] == ('obj',) and len(x) == 2 and x[1] in st.heap and x[1] not in reach:
                                reach.add(x[1])
                                todo.extend(st.heap[x[1]].fields.values())
                            elif x[:1] != ('obj',):
                                todo.extend(y for y in x if isinstance(y, tuple))
                    objs = set()

                    def _objs(t):
                        if isinstance(t, tuple):
                            if t[:1] == ('obj',) and len(t) == 2:
                                objs.add(t[1])
                            else:
                                for y in t:
                                    _objs(y)
                    _objs(a)
                    same_term = (bool(objs) and objs <= reach) or (not objs and a[2] is not None and _under(a[2], store))
                if not (isinstance(a, tuple) and a[:1] == ('k',) and a[1] == n0) and not same_term:
                    bad.append(f'{contracts.short(g["id"])[:90]} leaves `{m}` = {contracts.render(after, st, {}) if after is not None else "unset"} '
                               f'while the store starts with {n0} element(s)')
            elif after is not None or entered:
                judged += 1
                want = _lin(('op', '+', loc_m, ('k', entered, 'int')))
                got = _lin(after) if after is not None else _lin(loc_m)
                if got != want:
                    bad.append(f'{contracts.short(g["id"])[:90]} enters {entered} element(s) and leaves `{m}` = '
                               f'{contracts.render(after, st, {}) if after is not None else "unchanged"}')
    # frame: nothing outside the class enters or removes elements, or writes the member
    for g in F.fn.values():
        if (g.get('parent') or '') == cls or g.get('body') is None or not g['loc'].startswith(('src/', 'include/')):
            continue
        for n in walk(g['body']):
            if n.get('k') == 'call' and (n.get('callee') or {}).get('name') in MUTATORS and n.get('obj'):
                if any(x.get('k') == 'member' and x.get('name') == d and x.get('cls') == cls for x in walk(n['obj'])):
                    bad.append(f'{contracts.short(g["id"])[:80]} (line {n.get("ln")}) changes the store from outside the class')
            if n.get('k') in ('binop', 'unop') and n.get('op') in ('=', '+=', '-=', '++', '--', 'post++', 'post--', 'pre++', 'pre--'):
                tgt = n.get('l') if n.get('k') == 'binop' else n.get('e')
                if isinstance(tgt, dict) and tgt.get('k') == 'member' and tgt.get('name') == m and tgt.get('cls') == cls:
                    bad.append(f'{contracts.short(g["id"])[:80]} (line {n.get("ln")}) writes `{m}` from outside the class')
    return bad, judged


def size_lemmas(F):
    """{id of a scope's size(): (store member, id of the store's size())} for every size() that reads a member proven, by the
    induction above, to be the size of the store.  Computed once per fact base, with an evaluator that uses no lemma."""
    cached = getattr(F, '_size_lemmas', None)
    if cached is not None:
        return cached
    F._size_lemmas = {}            # (the evaluator below must not look for lemmas itself)
    from symex import Sym
    lem = {}
    S = None
    for f in size_functions(F):
        if S is None:
            S = Sym(F, max_depth=40)
        try:
            ans = size_answers(F, S, f)
            if not ans or any(kind != 'member' for (_s, _v, kind, _m) in ans) or len({m for (_s, _v, _k, m) in ans}) != 1:
                continue
            cls = f['parent']
            bad, _n = counter_agrees(F, S, cls, ans[0][3], f)
            if not bad:
                lem[f['id']] = store_of(F, S, cls)
        except AnalysisBroken:
            continue                 # no lemma: the rule that owns the question reports
    F._size_lemmas = lem
    return lem
