"""WIRE -- factory contracts of the whole library, canonical form, shared by C02 / C05 / C09 / C12."""
import contracts
from contracts import FACTORY_CLASSES
from symex import Sym, Unsupported
from facts import AnalysisBroken

# builders outside the factory classes (members of nodes that create member nodes)
EXTRA_BUILDERS = [
    'ipr::impl::Region::make_subregion()',
    'ipr::impl::Enum::add_member(const ipr::Name &)',
    'ipr::impl::Class::declare_base(const ipr::Type &)',
    'ipr::impl::Parameter_list::add_member(const ipr::Name &, const ipr::Type &)',
    'ipr::impl::Block::new_handler(const ipr::Name &, const ipr::Type &)',
    'ipr::impl::Module::make_unit()',
    'ipr::impl::Mapping::param(const ipr::Name &, const ipr::Type &)',
    'ipr::impl::Scope::make_alias(const ipr::Name &, const ipr::Expr &)',
    'ipr::impl::Scope::make_var(const ipr::Name &, const ipr::Type &)',
    'ipr::impl::Scope::make_field(const ipr::Name &, const ipr::Type &)',
    'ipr::impl::Scope::make_bitfield(const ipr::Name &, const ipr::Type &)',
    'ipr::impl::Scope::make_typedecl(const ipr::Name &, const ipr::Type &)',
    'ipr::impl::Scope::make_fundecl(const ipr::Name &, const ipr::Function &)',
    'ipr::impl::Scope::make_primary_template(const ipr::Name &, const ipr::Forall &)',
    'ipr::impl::Scope::make_secondary_template(const ipr::Name &, const ipr::Forall &)',
]


def confirmed_ids():
    import json
    import os
    from facts import VERIF
    try:
        with open(os.path.join(VERIF, 'tables', 'factory_contract.json')) as fh:
            return set(json.load(fh)['contracts'])
    except (OSError, ValueError, KeyError):
        return set()


def all_factories(F):
    """Factories and builders the analyses run over.  A factory that is not in the confirmed table (new since the
    table was confirmed) and whose body is outside the evaluator's language (it fills a container in a loop, say) is
    left out and listed in F.unanalysed_factories: nothing is claimed about it, and nothing is alarmed.  A confirmed
    factory that stops being evaluable is not left out: the checks then end as analysis-broken."""
    cached = getattr(F, '_all_factories', None)
    if cached is not None:
        return list(cached)
    fs = contracts.factories(F)
    for fid in EXTRA_BUILDERS:
        f = F.fn.get(fid)
        if f is not None:
            fs.append(f)
    known = confirmed_ids()
    S = Sym(F, opaque=contracts.default_opaque(F), max_depth=64)
    keep, skipped = [], []
    for f in fs:
        if f['id'] not in known:
            try:
                S.run(f['id'])
            except Unsupported as e:
                skipped.append((f['id'], str(e)))
                continue
        keep.append(f)
    F.unanalysed_factories = skipped
    F._all_factories = keep
    return list(keep)


def compute(F):
    """factory id -> list of canonical contract paths (or {'unsupported': reason})."""
    S = Sym(F, opaque=contracts.default_opaque(F), max_depth=64)
    out = {}
    for f in all_factories(F):
        try:
            out[f['id']] = contracts.factory_contract(F, f, S, canonical=True)
        except Unsupported as e:
            out[f['id']] = [{'unsupported': str(e)}]
    return out
