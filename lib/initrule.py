"""Which scalar sub-objects does a constructor leave indeterminate?  (default-initialisation of a scalar, or of a class whose
default constructor is implicit / defaulted and which has scalar members without a default member initialiser, does nothing)"""
import re
from facts import walk, strip_casts

_SCALARS = {'bool', 'char', 'signed char', 'unsigned char', 'char8_t', 'char16_t', 'char32_t', 'wchar_t', 'short', 'unsigned short', 'int',
            'unsigned int', 'long', 'unsigned long', 'long long', 'unsigned long long', 'float', 'double', 'long double'}


def _norm(t):
    t = (t or '').strip()
    while t.startswith(('const ', 'volatile ')):
        t = t.split(' ', 1)[1].strip()
    return t.replace('(anonymous namespace)', '(anon)')


def default_leaves(F, t, depth=0):
    """sub-object paths ('' = the object itself) left indeterminate when an object of type t is default-initialised"""
    t = _norm(t)
    if depth > 6 or not t or t.endswith('&'):
        return []
    m = re.match(r'(.*)\[\d+\]$', t)
    if m:
        return [('[i]' + p) for p in default_leaves(F, m.group(1).strip(), depth + 1)]
    if t.endswith('*') or t in _SCALARS or t in F.enums:
        return ['']
    r = F.rec.get(t)
    if r is None:
        return []          # a standard-library class or an unknown type: assumed to initialise itself
    ctors = [m_ for m_ in r['methods'] if m_.get('ctor') and not m_.get('deleted')]
    dflt = [m_ for m_ in ctors if not m_['params']]
    user_dflt = [m_ for m_ in dflt if m_.get('user_provided')]
    if user_dflt:
        c = F.fn.get(user_dflt[0]['id'])
        return ctor_leaves(F, c, depth + 1) if c is not None and c.get('body') is not None else []
    if not dflt and any(m_.get('user_provided') for m_ in ctors):
        return []          # not default-constructible
    out = []
    for b in r.get('bases', []):
        out += [p for p in default_leaves(F, b['name'], depth + 1)]
    for fl in r['fields']:
        if 'init' in fl:
            continue
        out += [fl['name'] + ('.' + p if p and not p.startswith('[') else p) for p in default_leaves(F, fl['t'], depth + 1)]
    return out


def ctor_leaves(F, c, depth=0):
    """sub-object paths of the constructed object that the user-provided constructor `c` leaves indeterminate"""
    cls = c.get('parent')
    r = F.rec.get(cls)
    if r is None or depth > 6:
        return []
    inits = c.get('inits', [])
    if any(i.get('kind') not in ('base', 'member') for i in inits):
        return []          # delegating constructor: the target is judged
    written = {i.get('name') for i in inits if i.get('kind') == 'member' and i.get('written')}
    for nd in walk(c.get('body')):
        if nd.get('k') == 'binop' and nd.get('op') == '=':
            lhs = strip_casts(nd['l'])
            if lhs.get('k') == 'member':
                written.add(lhs.get('name'))
    out = []
    base_written = {_norm(i.get('name')) for i in inits if i.get('kind') == 'base' and i.get('written')}
    for b in r.get('bases', []):
        if _norm(b['name']) in base_written:
            continue
        out += default_leaves(F, b['name'], depth + 1)
    for fl in r['fields']:
        if fl['name'] in written or 'init' in fl:
            continue
        out += [fl['name'] + ('.' + p if p and not p.startswith('[') else p) for p in default_leaves(F, fl['t'], depth + 1)]
    return out
