"""E2 -- straight-line symbolic evaluator over the structured bodies produced by iprscan.

Evaluates a function (with inlining of repository callees, virtual calls resolved through
the final-overrider tables when the dynamic class is known) to *terms* over its symbolic
inputs.  Paths split on undecidable conditions; loops are outside the language (Unsupported)
unless the callee is declared opaque by the rule using the evaluator.

Terms are hashable tuples:
   ('param', i)            the i-th argument of the entry function (object designated / value held)
   ('sym', name)           other symbolic input
   ('k', value, kind)      constant (int/bool/null/str/enumerator)
   ('obj', oid)            an abstract object created during evaluation (constructed with known class)
   ('fld', base, name)     field of a symbolic (unknown-structure) object
   ('addr', t) ('deref', t)
   ('op', o, a, b) ('un', o, a) ('ite', c, a, b)
   ('call', fid, recv|None, args)    uninterpreted call
   ('global', qname)
   ('list', (t...))
"""
import copy

from facts import AnalysisBroken, strip_casts


class Unsupported(Exception):
    pass


class RecursionDetected(Exception):
    """The same function was re-entered with the same (value-normalised) arguments: unbounded recursion."""

    def __init__(self, cycle):
        Exception.__init__(self, ' -> '.join(cycle))
        self.cycle = cycle


NULL = ('k', 0, 'null')


class Obj:
    __slots__ = ('cls', 'fields', 'origin', 'tag')

    def __init__(self, cls, origin=None):
        self.cls = cls
        self.fields = {}
        self.origin = origin
        self.tag = None

    def clone(self):
        o = Obj(self.cls, self.origin)
        o.fields = dict(self.fields)
        o.tag = self.tag
        return o


def _lk(t):
    """Canonical form of a location: an array index is its number, whatever the type it was computed in
    (arm[Dir::Left], arm[0] and arm[Left + Right - side] designate one element)."""
    if not isinstance(t, tuple) or not t:
        return t
    if t[0] == 'index' and len(t) == 3 and isinstance(t[2], tuple) and len(t[2]) == 3 and t[2][0] == 'k' and isinstance(t[2][1], int):
        return ('index', _lk(t[1]), ('k', t[2][1], 'int'))
    return tuple(_lk(x) for x in t)


class LocStore(dict):
    """writes through symbolic lvalues, keyed by canonical location"""

    def __getitem__(self, k):
        return dict.__getitem__(self, _lk(k))

    def __setitem__(self, k, v):
        dict.__setitem__(self, _lk(k), v)

    def __contains__(self, k):
        return dict.__contains__(self, _lk(k))

    def get(self, k, default=None):
        return dict.get(self, _lk(k), default)


class State:
    def __init__(self):
        self.envs = [{}]
        self.heap = {}
        self.conds = []
        self.effects = []
        self.throw = None
        self.ret = None
        self.next_oid = [0]
        self.last_emplaced = {}
        self.contents = {}        # container term -> list of element objects known to be stored there
        self.symstore = LocStore()  # writes through symbolic lvalues: ('fld', base, name) -> value
        self.derefs = []          # (pointer term, line, number of path conditions when dereferenced)
        self.known = []           # (condition, value) facts that hold by construction: consulted by truth(), not path conditions

    def fork(self):
        s = State()
        s.envs = [dict(e) for e in self.envs]
        s.heap = {k: v.clone() for k, v in self.heap.items()}
        s.conds = list(self.conds)
        s.effects = list(self.effects)
        s.throw = self.throw
        s.ret = self.ret
        s.next_oid = self.next_oid          # shared counter keeps oids unique across forks
        s.last_emplaced = dict(self.last_emplaced)
        s.contents = {k: list(v) for k, v in self.contents.items()}
        s.symstore = LocStore()
        dict.update(s.symstore, self.symstore)
        s.derefs = list(self.derefs)
        s.known = list(self.known)
        return s

    def new_obj(self, cls, origin=None):
        oid = self.next_oid[0]
        self.next_oid[0] += 1
        self.heap[oid] = Obj(cls, origin)
        return ('obj', oid)

    @property
    def env(self):
        return self.envs[-1]


IDENTITY_FNS = ('std::forward', 'std::move', 'std::as_const', 'std::launder')


class Sym:
    def __init__(self, F, opaque=None, max_depth=48, max_paths=64):
        self.F = F
        self.opaque = opaque or (lambda fid: False)
        self.max_depth = max_depth
        self.max_paths = max_paths
        self.depth = 0
        self.trace = []
        self.recursion_guard = False
        # hook: further outcomes of a call the evaluator does not enter (a rule may say: this callee can also throw, leaving
        # such and such state behind); receives a private copy of the state, returns the states of the extra outcomes
        self.opaque_outcomes = None
        self.growth_may_fail = False    # emplace_* of a standard container can throw std::bad_alloc before it has any effect
        self.apply_functors = False     # std::for_each(first, last, f): evaluate one arbitrary application of f
        self.summarise_recursion = True
        self._loop_cache = {}
        self.active = []
        self.concrete_loops = False
        self.loop_cut = None        # bounded exploration: drop (do not refuse) iterations beyond this count
        self.use_lemmas = True      # class invariants proven by induction (lib/invariants.py) may be used as summaries

    # ------------------------------------------------------------------ entry
    def run(self, fid, this=None, args=None, state=None):
        """Evaluate function `fid`; returns list of (state, kind, value) with kind in return/throw."""
        f = self.F.fn.get(fid)
        if f is None:
            raise AnalysisBroken(f'function body not in facts: {fid}')
        st = state or State()
        if args is None:
            args = [('param', i) for i in range(len(f['params']))]
        if this is None and f.get('parent') and not f.get('static'):
            this = ('sym', 'this')
        caps = None
        if f.get('lambda_call') and this is not None and this[0] == 'obj' and this[1] in st.heap:
            caps = st.heap[this[1]].tag
        outs = self.call_body(f, this, args, st, captures=caps)
        res = []
        for s, v in outs:
            if s.throw is not None:
                res.append((s, 'throw', s.throw))
            else:
                res.append((s, 'return', v))
        return res

    # --------------------------------------------------------------- function bodies
    def value_key(self, t, st, d=0):
        if isinstance(t, tuple) and t and t[0] == 'obj' and t[1] in st.heap and d < 5:
            o = st.heap[t[1]]
            if o.origin and o.origin[0] in ('ctor', 'aggregate') and not o.tag:
                return ('val', o.cls, tuple((n, self.value_key(v, st, d + 1)) for n, v in sorted(o.fields.items())))
            return t
        if isinstance(t, tuple):
            return tuple(self.value_key(x, st, d) if isinstance(x, tuple) else x for x in t)
        return t

    def call_body(self, f, this, args, st, captures=None):
        if self.depth >= self.max_depth:
            raise Unsupported(f'inlining depth exceeded at {f["id"]}')
        if f['name'] == 'size' and this is not None and self.use_lemmas:
            # a scope's size() that reads a counter proven equal to the size of its store (lib/invariants.py) is answered by the store
            import invariants
            lem = invariants.size_lemmas(self.F).get(f['id'])
            if lem is not None:
                return self.call_body(self.F.fn[lem[1]], ('fld', this, lem[0]), [], st)
        key = None
        same_fn = [env for env in st.envs if env.get('__fn__') == f['id']]
        if same_fn and not f.get('params') and f['id'].endswith(' const') and this is not None and len(same_fn) < 4 \
                and all(env.get('this') != this for env in same_fn):
            # a parameterless const accessor met again on another object (an accessor that delegates to the same accessor of a
            # constant or of a sub-object) is not a recursion on the request being evaluated: it is evaluated
            same_fn = []
        if not self.recursion_guard and self.summarise_recursion and same_fn:
            # a function re-entered while it is being evaluated is summarised by a term naming the inner
            # request (its result is whatever that request yields)
            st.effects.append(('reentry', f['id'], this, tuple(args)))
            return [(st, ('call', f['id'], this, tuple(args)))]
        if self.recursion_guard:
            key = (f['id'], self.value_key(this, st), tuple(self.value_key(a, st) for a in args))
            if key in self.active:
                i = self.active.index(key)
                raise RecursionDetected([k[0] for k in self.active[i:]] + [f['id']])
            self.active.append(key)
        self.depth += 1
        try:
            env = {'__fn__': f['id']}
            for i, a in enumerate(args):
                env[('p', i)] = a
                if i < len(f.get('params', [])) and f['params'][i].get('name'):
                    env[('n', f['params'][i]['name'])] = a
            if this is not None:
                env['this'] = this
            if captures:
                for k, v in captures.items():
                    env[('cap', k)] = v
            st.envs.append(env)
            states = [st]
            params = f.get('params', [])
            for i in range(len(args), len(params)):
                d = params[i].get('defarg')
                if d is None:
                    continue
                new = []
                for s0 in states:
                    for s1, v in self.ev(d, s0):
                        s1.env[('p', i)] = v
                        new.append(s1)
                states = new
            if f.get('ctor'):
                states = self.run_ctor_inits(f, states)
            outs = []
            for s in states:
                if s.throw is not None:
                    s.envs.pop()
                    outs.append((s, None))
                    continue
                for s2, sig in self.exec(f.get('body'), s):
                    v = None
                    if s2.throw is None and sig and sig[0] == 'return':
                        v = sig[1]
                    # a scalar handed in by non-const reference and assigned by the callee: the new value goes back to the
                    # caller's variable (ev_call stores it)
                    changed = {}
                    for i in range(min(len(args), len(params))):
                        t = params[i].get('t', '')
                        if t.rstrip().endswith('&') and not t.rstrip().endswith('&&') and not t.startswith('const ') \
                                and s2.env.get(('p', i)) != args[i] and not (isinstance(args[i], tuple) and args[i] and args[i][0] == 'obj'):
                            changed[i] = s2.env.get(('p', i))
                    s2.envs.pop()
                    if changed:
                        s2.out_params = changed
                    outs.append((s2, v))
            if len(outs) > self.max_paths:
                raise Unsupported(f'too many paths in {f["id"]}')
            return outs
        finally:
            self.depth -= 1
            if key is not None:
                self.active.pop()

    def run_ctor_inits(self, f, states):
        for init in f.get('inits', []):
            new = []
            for st in states:
                if st.throw is not None:
                    new.append(st)
                    continue
                this = st.env['this']
                e = init['e']
                if init['kind'] == 'base':
                    # construct the base subobject in place (same abstract object)
                    for s2 in self.construct_into(this, e, st, cls=init['name']):
                        new.append(s2)
                elif init['kind'] == 'member':
                    c, fld = self.F.field(f['parent'], init['name'])
                    for s2, v in self.ev_init(e, st, fld['t'] if fld else None):
                        if s2.throw is None:
                            self.store_field(s2, this, init['name'], v)
                        new.append(s2)
                elif init['kind'] == 'delegating':
                    for s2 in self.construct_into(this, e, st, cls=f['parent']):
                        new.append(s2)
                else:
                    raise Unsupported('ctor initializer kind ' + str(init['kind']))
            states = new
        return states

    def construct_into(self, this, e, st, cls):
        """Run constructor expression `e` on the existing object `this` (base / delegating init)."""
        e = strip_casts(e)
        k = e.get('k')
        if k == 'ctor':
            callee = e['callee']
            out = []
            for s2, args in self.ev_list(e['args'], st):
                if s2.throw is not None:
                    out.append(s2)
                    continue
                out.extend(s for s, _v in self.call_ctor(callee, this, args, s2))
            return out
        if k == 'inherited_ctor':
            callee = e['callee']
            f = self.F.fn.get(callee['id'])
            nargs = len(f['params']) if f else 0
            args = [st.env.get(('p', i)) for i in range(nargs)]
            return [s for s, _v in self.call_ctor(callee, this, args, st)]
        if k == 'initlist':
            # aggregate base initialisation: nothing to run for empty bases
            if not e.get('elts'):
                return [st]
            r = self.F.rec.get(cls)
            out = []
            for s2, vals in self.ev_list(e['elts'], st):
                if s2.throw is None and r:
                    names = [fl['name'] for fl in r['fields']]
                    for n, v in zip(names, vals):
                        self.store_field(s2, this, n, v)
                out.append(s2)
            return out
        if k == 'valueinit':
            return [st]
        raise Unsupported(f'base initializer form {k}')

    def call_ctor(self, callee, this, args, st):
        fid = callee['id']
        f = self.F.fn.get(fid)
        if f is None:
            if callee.get('repo') is False:
                # standard-library (or trivial implicit) constructor: opaque value
                return [(st, this)]
            r = self.F.rec.get(callee.get('parent', ''))
            # implicit trivial default/copy constructor without synthesised body
            if len(args) == 0:
                return [(st, this)]
            if len(args) == 1:
                # copy / move from a symbolic source: alias the fields lazily
                src = args[0]
                if this[0] == 'obj':
                    if src[0] == 'obj' and src[1] in st.heap:
                        st.heap[this[1]].fields.update(st.heap[src[1]].fields)
                    else:
                        st.heap[this[1]].origin = ('copy', src)
                return [(st, this)]
            raise Unsupported(f'constructor body not in facts: {fid}')
        if f.get('copy') and f.get('implicit'):
            src = args[0]
            if this[0] == 'obj':
                if src[0] == 'obj' and src[1] in st.heap:
                    st.heap[this[1]].fields.update(st.heap[src[1]].fields)
                else:
                    st.heap[this[1]].origin = ('copy', src)
            return [(st, this)]
        outs = self.call_body(f, this, args, st)
        return [(s, this) for s, _v in outs]

    # --------------------------------------------------------------- heap
    def store_field(self, st, base, name, v):
        if base[0] == 'obj' and base[1] in st.heap:
            st.heap[base[1]].fields[name] = v
        else:
            st.effects.append(('write', ('fld', base, name), v))
            st.symstore[('fld', base, name)] = v

    def load_field(self, st, base, name):
        if ('fld', base, name) in st.symstore:
            return st.symstore[('fld', base, name)]
        if base[0] == 'obj' and base[1] in st.heap:
            o = st.heap[base[1]]
            if name in o.fields:
                return o.fields[name]
            if o.origin and o.origin[0] == 'copy':
                return ('fld', o.origin[1], name)
            return ('fld', base, name)
        if base[0] == 'list':
            return ('fld', base, name)
        return ('fld', base, name)

    # --------------------------------------------------------------- statements
    def exec(self, s, st):
        """Execute statement; returns list of (state, signal)."""
        if s is None or st.throw is not None:
            return [(st, None)]
        k = s.get('k')
        if k == 'compound':
            states = [(st, None)]
            declared = []
            for c in s['b']:
                if c.get('k') == 'decl':
                    declared.extend((v['id'], v.get('t', '')) for v in c.get('vars', []))
                new = []
                for s1, sig in states:
                    if sig is not None or s1.throw is not None:
                        new.append((s1, sig))
                    else:
                        new.extend(self.exec(c, s1))
                states = new
                if len(states) > self.max_paths:
                    raise Unsupported('too many paths')
            return self.leave_scope(declared, states) if declared else states
        if k == 'return':
            if 'e' not in s or s['e'] is None:
                return [(st, ('return', None))]
            return [(s1, ('return', v)) for s1, v in self.ev(s['e'], st)]
        if k == 'decl':
            states = [st]
            for var in s['vars']:
                new = []
                for s1 in states:
                    if s1.throw is not None:
                        new.append(s1)
                        continue
                    if 'init' in var and var['init'] is not None:
                        for s2, v in self.ev_init(var['init'], s1, var['t']):
                            if var.get('extends_temporary') and s2.throw is None:
                                # `const T& x = f();` with f returning by value: x names a temporary of this call,
                                # a copy of what f designated
                                cls = var['t'].replace('const ', '').rstrip('&').strip()
                                if cls in self.F.rec and isinstance(v, tuple):
                                    v = s2.new_obj(cls, origin=('copy', v))
                            s2.env[('v', var['id'])] = v
                            s2.env[('n', var['name'])] = v
                            if var.get('ref') and not var.get('extends_temporary'):
                                s2.env[('isref', var['id'])] = True
                            new.append(s2)
                    else:
                        s1.env[('v', var['id'])] = ('uninit', var['name'])
                        new.append(s1)
                states = new
            return [(s1, None) for s1 in states]
        if k == 'if':
            out = []
            pre = [st]
            if 'init' in s:
                pre = [s1 for s1, _ in self.exec(s['init'], st)]
            for s0 in pre:
                conds = []
                if 'var' in s:
                    var = s['var']
                    for s1, v in self.ev_init(var['init'], s0, var['t']):
                        s1.env[('v', var['id'])] = v
                        if s1.throw is not None:
                            conds.append((s1, v))
                            continue
                        # the condition is the declared variable converted to bool (a pointer against null, a class
                        # object through its own operator bool), not the value itself
                        conds.extend(self.ev(s['c'], s1))
                else:
                    conds = self.ev(s['c'], s0)
                for s1, c in conds:
                    if s1.throw is not None:
                        out.append((s1, None))
                        continue
                    t = self.truth(c, s1)
                    if t is True:
                        out.extend(self.exec(s['then'], s1))
                    elif t is False:
                        out.extend(self.exec(s.get('else'), s1))
                    else:
                        s2 = s1.fork()
                        s1.conds.append((c, True))
                        s2.conds.append((c, False))
                        out.extend(self.exec(s['then'], s1))
                        out.extend(self.exec(s.get('else'), s2))
            return out
        if k == 'null':
            return [(st, None)]
        if k == 'rangefor':
            return self.exec_search_loop(s, st)
        if k == 'while':
            return self.exec_while(s, st)
        if k == 'for':
            return self.exec_for(s, st)
        if k == 'break':
            return [(st, 'break')]
        if k == 'continue':
            return [(st, 'continue')]
        if k == 'switch':
            return self.exec_switch(s, st)
        if k == 'try':
            out = []
            for s1, sig in self.exec(s['b'], st):
                thrown = s1.throw
                if thrown is None:
                    out.append((s1, sig))
                    continue
                h = next((h for h in s.get('handlers', []) if self.catches(h.get('t', '...'), thrown)), None)
                if h is None:
                    out.append((s1, sig))
                    continue
                s1.throw = None
                if h.get('var'):
                    s1.env[('v', h['var']['id'])] = ('sym', 'exception:' + thrown)
                    s1.env[('n', h['var']['name'])] = ('sym', 'exception:' + thrown)
                for s2, sig2 in self.exec(h['b'], s1):
                    if s2.throw == 'rethrow':
                        s2.throw = thrown
                    out.append((s2, sig2))
            return out
        if k in ('do', 'otherstmt', 'case', 'default'):
            raise Unsupported(f'statement {k} at line {s.get("ln")}')
        # expression statement
        return [(s1, None) for s1, _v in self.ev(s, st)]

    _STD_LOGIC = ('std::logic_error', 'std::domain_error', 'std::invalid_argument', 'std::length_error', 'std::out_of_range')
    _STD_RUNTIME = ('std::runtime_error', 'std::range_error', 'std::overflow_error', 'std::underflow_error', 'std::system_error')

    def catches(self, htype, thrown):
        """does a handler for `htype` catch an exception of type `thrown`?"""
        h = (htype or '...').replace('const ', '').rstrip('& ').strip()
        t = (thrown or '').replace('const ', '').strip()
        if h == '...' or h == t or h == 'std::exception':
            return True
        if h == 'std::logic_error' and t in self._STD_LOGIC:
            return True
        if h == 'std::runtime_error' and t in self._STD_RUNTIME:
            return True
        t2 = t.replace('(anonymous namespace)', '(anon)')
        return t2 in self.F.rec and h in self.F.ancestors(t2)

    def leave_scope(self, declared, states):
        """Run the user-provided destructors of the block's local objects (reverse order of declaration) on every
        path that leaves the block normally or by return/break/continue (guards that restore state on scope exit)."""
        dtors = []
        for vid, t in reversed(declared):
            cls = t.replace('const ', '').replace('(anonymous namespace)', '(anon)').strip()
            r = self.F.rec.get(cls)
            if r is None or not r.get('user_dtor'):
                continue
            d = [f for f in self.F.fns_in(cls) if f.get('dtor') and not f.get('implicit') and f.get('body') is not None]
            if d:
                dtors.append((vid, d[0]))
        if not dtors:
            return states
        out = []
        for st, sig in states:
            cur = [st]
            if st.throw is None:
                for vid, d in dtors:
                    nxt = []
                    for s1 in cur:
                        v = s1.env.get(('v', vid))
                        if s1.throw is None and isinstance(v, tuple) and v and v[0] == 'obj' and v[1] in s1.heap:
                            nxt.extend(s2 for s2, _v in self.call_body(d, v, [], s1))
                        else:
                            nxt.append(s1)
                    cur = nxt
            out.extend((s1, sig) for s1 in cur)
        return out

    def exec_switch(self, s, st):
        """switch on a value with constant case labels: one path per label (the selector equals it) and one for `none of
        them` (default, or past the switch); statements are executed from the label on, falling through until break."""
        body = s.get('b') or {}
        items = body.get('b', []) if body.get('k') == 'compound' else [body]
        flat = []           # (labels at this position, statement or None)
        for it in items:
            labels = []
            while isinstance(it, dict) and it.get('k') in ('case', 'default'):
                labels.append(('default', None) if it['k'] == 'default' else ('case', it.get('v')))
                it = it.get('b')
            flat.append((labels, it))
        if any(isinstance(x, dict) and x.get('k') in ('case', 'default') for _l, st_ in flat for x in ([] if st_ is None else _nested_labels(st_))):
            raise Unsupported(f'switch with case labels inside nested statements at line {s.get("ln")}')
        pre = [st]
        if s.get('init') is not None:
            pre = [s1 for s1, _ in self.exec(s['init'], st)]
        out = []
        for s0 in pre:
            for s1, v in self.ev(s['c'], s0):
                if s1.throw is not None:
                    out.append((s1, None))
                    continue
                cases = []
                for pos, (labels, _stmt) in enumerate(flat):
                    for kind, ve in labels:
                        if kind == 'case':
                            cvs = self.ev(ve, s1.fork())
                            if len(cvs) != 1 or cvs[0][1][0] != 'k':
                                raise Unsupported(f'case label that is not a constant at line {s.get("ln")}')
                            cases.append((cvs[0][1], pos))
                dpos = [pos for pos, (labels, _stmt) in enumerate(flat) if any(k2 == 'default' for k2, _ in labels)]
                entries = []
                decided = False
                for cv, pos in cases:
                    c = self.simp(('op', '==', v, cv))
                    t = self.truth(c, s1)
                    if t is True:
                        entries = [(s1, pos)]
                        decided = True
                        break
                    if t is False:
                        continue
                    s2 = s1.fork()
                    s2.conds.append((c, True))
                    entries.append((s2, pos))
                if not decided:
                    s3 = s1.fork()
                    for cv, _pos in cases:
                        c = self.simp(('op', '==', v, cv))
                        if self.truth(c, s3) is None:
                            s3.conds.append((c, False))
                    entries.append((s3, dpos[0] if dpos else None))
                for se, pos in entries:
                    if pos is None:
                        out.append((se, None))
                        continue
                    states = [se]
                    for _labels, stmt in flat[pos:]:
                        nxt = []
                        for sx in states:
                            for sy, sig in (self.exec(stmt, sx) if stmt is not None else [(sx, None)]):
                                if sy.throw is not None or (isinstance(sig, tuple) and sig[0] == 'return') or sig == 'continue':
                                    out.append((sy, sig))
                                elif sig == 'break':
                                    out.append((sy, None))
                                else:
                                    nxt.append(sy)
                        states = nxt
                        if not states:
                            break
                    out.extend((sx, None) for sx in states)
        return out

    def exec_while(self, s, st, bound=12):
        """Loop whose condition is decidable in the current (concrete fragment) state; iterations are bounded."""
        out = []
        work = [(st, 0)]
        while work:
            s0, n = work.pop()
            if self.loop_cut is not None and n > self.loop_cut:
                continue
            if n > bound * (1 if self.concrete_loops else 40):
                raise Unsupported('loop bound exceeded')
            heads = []
            if s.get('var') is not None:
                # `while (auto x = f())`: the variable is declared anew for every test, the test is its conversion to bool
                var = s['var']
                for s1, v in self.ev_init(var['init'], s0, var['t']):
                    s1.env[('v', var['id'])] = v
                    if s1.throw is not None:
                        heads.append((s1, v))
                    else:
                        heads.extend(self.ev(s['c'], s1))
            else:
                heads = self.ev(s['c'], s0)
            for s1, c in heads:
                if s1.throw is not None:
                    out.append((s1, None))
                    continue
                t = self.truth(c, s1)
                if t is True and s.get('var') is not None and not self.concrete_loops and self.loop_cut is None and n >= 2 \
                        and not (isinstance(c, tuple) and c and c[0] == 'k'):
                    continue        # a third layer of a peeling loop (decided by a fork inside the test): cut off, not judged
                if t is None and not self.concrete_loops and s.get('var') is not None and self.loop_cut is None:
                    # a peeling loop (`while (auto layer = view<K>(*p)) p = &layer->inner();`): every iteration runs the same
                    # code on the next layer; the first two layers are explored, deeper nesting is cut off (not judged)
                    if n >= 2:
                        s1.conds.append((c, False))
                        out.append((s1, None))
                        continue
                    s2 = s1.fork()
                    s1.conds.append((c, True))
                    s2.conds.append((c, False))
                    out.append((s2, None))
                    t = True
                if t is None and not self.concrete_loops:
                    # only loops whose trip count is decided by constants are unrolled by default
                    raise Unsupported(f'loop with a condition that depends on symbolic values at line {s.get("ln")}')
                if t is None:
                    # undecidable: split (the caller enumerates descent decisions this way)
                    s2 = s1.fork()
                    s1.conds.append((c, True))
                    s2.conds.append((c, False))
                    out.append((s2, None))
                    t = True
                if t is False:
                    out.append((s1, None))
                    continue
                for s3, sig in self.exec(s['b'], s1):
                    if (isinstance(sig, tuple) and sig[0] == 'return') or s3.throw is not None:
                        out.append((s3, sig))
                    elif sig == 'break':
                        out.append((s3, None))
                    elif s.get('inc') is not None:
                        for s4, _sig in self.exec(s['inc'], s3):
                            if s4.throw is not None:
                                out.append((s4, None))
                            else:
                                work.append((s4, n + 1))
                    else:
                        work.append((s3, n + 1))
        return out

    def iter_search_loop(self, s, st):
        """`for (auto p = c.begin(); p != c.end(); <step>) <test *p and possibly return>`: the linear search written with an iterator,
        summarised like the range-for search (some element satisfies the test / none does).  Variables the step assigns (a trailing
        `tail = p++`) hold an unknown position of c afterwards.  None when the loop is not of this form."""
        init, c = s.get('init'), strip_casts(s.get('c') or {})
        if not init or init.get('k') != 'decl' or len(init.get('vars', [])) != 1 or not init['vars'][0].get('init'):
            return None
        var = init['vars'][0]
        other = None
        if c.get('k') == 'unop' and c.get('op') == '!' and strip_casts(c.get('e') or {}).get('k') == 'call' \
                and (strip_casts(c['e']).get('callee') or {}).get('name') == 'operator==':
            c2 = strip_casts(c['e'])            # C++20: p != q is !(p == q)
            ops = ([c2['obj']] if c2.get('obj') else []) + list(c2.get('args', []))
        elif c.get('k') == 'call' and (c.get('callee') or {}).get('name') == 'operator!=':
            ops = ([c['obj']] if c.get('obj') else []) + list(c.get('args', []))
        elif c.get('k') == 'binop' and c.get('op') == '!=':
            ops = [c.get('l'), c.get('r')]
        else:
            return None
        if len(ops) != 2:
            return None
        refs = [strip_casts(o) for o in ops]
        mine = [i for i, r_ in enumerate(refs) if r_.get('k') == 'ref' and r_.get('kind') == 'local' and r_.get('id') == var['id'] and r_.get('name') == var['name']]
        if len(mine) != 1:
            return None
        other = ops[1 - mine[0]]
        a = self.ev(var['init'], st.fork())
        b = self.ev(other, st.fork())
        if len(a) != 1 or len(b) != 1:
            return None
        r = self.whole_range(a[0][1], b[0][1])
        if r is None:
            return None
        # a loop whose body reads something the step changes (a running index next to the iterator) is a positional walk, not a
        # search for an element with a property: not this form
        stepped = set()
        for n in _walk(s.get('inc')):
            tgt = None
            if n.get('k') == 'binop' and n.get('op', '').endswith('=') and n.get('op') not in ('==', '!=', '<=', '>='):
                tgt = strip_casts(n.get('l') or {})
            elif n.get('k') == 'unop' and ('++' in n.get('op', '') or '--' in n.get('op', '')):
                tgt = strip_casts(n.get('e') or {})
            if tgt and tgt.get('k') == 'ref' and tgt.get('kind') == 'local' and not (tgt.get('id') == var['id'] and tgt.get('name') == var['name']):
                stepped.add((tgt.get('id'), tgt.get('name')))
        if any(n.get('k') == 'ref' and n.get('kind') == 'local' and (n.get('id'), n.get('name')) in stepped for n in _walk(s.get('b'))):
            return None
        pristine = st.fork()
        elem = ('elem', r)
        s1 = st.fork()
        s1.env[('v', var['id'])] = ('iter', elem)
        s1.env[('n', var['name'])] = ('iter', elem)
        neff = len(s1.effects)
        out, fall = [], None
        for s2, sig in self.exec(s['b'], s1):
            if s2.throw is not None or (isinstance(sig, tuple) and sig[0] == 'return'):
                out.append((s2, sig))
            elif len(s2.effects) != neff or sig == 'break':
                return None
            else:
                fall = s2
        if fall is not None or not out:
            s3 = pristine
            s3.conds.append((('noelem', r, s.get('ln')), True))
            # what the step expression assigns is a position of the container this evaluation does not know
            for n in _walk(s.get('inc')):
                tgt = None
                if n.get('k') == 'binop' and n.get('op') == '=':
                    tgt = strip_casts(n.get('l') or {})
                elif n.get('k') == 'call' and (n.get('callee') or {}).get('name') == 'operator=' and n.get('obj') is not None:
                    tgt = strip_casts(n['obj'])
                if tgt and tgt.get('k') == 'ref' and tgt.get('kind') == 'local':
                    s3.env[('v', tgt['id'])] = ('iter', ('elem', r))
                    s3.env[('n', tgt['name'])] = ('iter', ('elem', r))
            out.append((s3, None))
        return out

    def exec_for(self, s, st):
        res = self.iter_search_loop(s, st)
        if res is not None:
            return res
        pre = [st]
        if s.get('init') is not None:
            pre = [s1 for s1, _sig in self.exec(s['init'], st)]
        loop = {'k': 'while', 'c': s.get('c') or {'k': 'lit', 'lt': 'bool', 'cv': '1'}, 'b': s['b'], 'inc': s.get('inc'), 'ln': s.get('ln')}
        out = []
        for s0 in pre:
            out.extend(self.exec_while(loop, s0))
        return out

    def exec_search_loop(self, s, st):
        """A range-for whose body only tests the element and possibly returns (a linear search): summarised
        as `some element satisfies the test and is returned` or `fall through`.  A body with effects on a
        non-returning path is outside the language."""
        rng = self.ev(s['range'], st)
        if len(rng) != 1:
            raise Unsupported('branching range expression')
        st, r = rng[0]
        # a loop over an array of known extent whose body does more than test-and-return (it counts, it collects) is
        # unrolled: element i is r[i]
        import re as _re
        m = _re.search(r'\[(\d+)\]\s*$', (s['range'].get('t') or ''))
        extent = int(m.group(1)) if m else None
        pristine = st.fork()
        elem = ('elem', r)
        st.env[('v', s['var']['id'])] = elem
        if s['var'].get('ref'):
            st.env[('isref', s['var']['id'])] = True
        neff = len(st.effects)
        ncond = len(st.conds)
        out = []
        fall = None
        impure = None
        outer = {k: v for k, v in st.env.items() if isinstance(k, tuple) and k[0] == 'v' and k[1] != s['var']['id']}
        filled = []
        try:
            for s2, sig in self.exec(s['b'], st.fork()):
                if s2.throw is not None or (isinstance(sig, tuple) and sig[0] == 'return'):
                    out.append((s2, sig))
                else:
                    if len(s2.effects) != neff:
                        if (extent is None or extent > 64) and all(self.local_container_effect(e_, pristine) for e_ in s2.effects[neff:]):
                            # the body only grows containers that are locals of this evaluation (collecting the elements into a vector
                            # of its own): nothing outside the call changes; the local now holds some elements of the range
                            for e_ in s2.effects[neff:]:
                                for key_, val_ in list(s2.env.items()):
                                    if val_ == e_[2]:
                                        s2.env[key_] = ('filled', e_[2], r)
                            del s2.effects[neff:]
                            filled.append(s2)
                            continue
                        raise Unsupported(f'loop body with effects at line {s.get("ln")}')
                    if any(s2.env.get(k) != v for k, v in outer.items()) or sig in ('break', 'continue'):
                        raise Unsupported(f'loop body that updates a variable of the enclosing scope at line {s.get("ln")}')
                    fall = s2
        except Unsupported as e:
            if self.apply_functors and 'loop body' in str(e) and (extent is None or extent > 64):
                # one arbitrary iteration (see std::for_each): the loop is not entered, or its body runs once on some element
                outs1 = [(pristine.fork(), None)]
                s1 = pristine.fork()
                s1.env[('v', s['var']['id'])] = elem
                if s['var'].get('ref'):
                    s1.env[('isref', s['var']['id'])] = True
                for s2, sig2 in self.exec(s['b'], s1):
                    outs1.append((s2, None if sig2 in ('break', 'continue') else sig2))
                return outs1
            if extent is None or extent > 64 or 'loop body' not in str(e):
                raise
            impure = e
        consts = None
        if impure is None and extent is not None and extent <= 8 and isinstance(r, tuple) and r[:1] == ('global',):
            # a search over a small constant table of pointers or scalars (`for (auto p : table) if (test(*p)) return *p;`): the rows
            # are known -- the loop is run row by row on what each row holds instead of being summarised as `some element`
            consts = self.const_table_rows(r[1], extent, pristine)
        if impure is not None or consts is not None:
            states = [(pristine, None)]
            for i in range(extent):
                nxt = []
                for s1, sig in states:
                    if sig is not None or s1.throw is not None:
                        nxt.append((s1, sig))
                        continue
                    s1.env[('v', s['var']['id'])] = consts[i] if consts is not None else ('index', r, ('k', i, 'int'))
                    if s['var'].get('ref') and consts is None:
                        s1.env[('isref', s['var']['id'])] = True
                    for s2, sig2 in self.exec(s['b'], s1):
                        if sig2 == 'break':
                            nxt.append((s2, 'loop-exit'))
                        elif sig2 == 'continue':
                            nxt.append((s2, None))
                        else:
                            nxt.append((s2, sig2))
                states = nxt
                if len(states) > self.max_paths:
                    raise Unsupported('too many paths')
            return [(s1, None if sig == 'loop-exit' else sig) for s1, sig in states]
        if filled and impure is None and consts is None:
            # (whether the range was empty or not makes no difference outside the call: no condition is recorded)
            return out + [(s_, None) for s_ in filled]
        if fall is not None or not out:
            st.conds.append((('noelem', r, s.get('ln')), True))
            out.append((st, None))
        return out

    @staticmethod
    def whole_range(first, last):
        """The container X when (first, last) are begin/end of X (free or member form), else None."""
        def ends(t, which):
            if isinstance(t, tuple) and t and t[0] == 'call':
                nm = fn_simple(t[1])
                if nm in which:
                    if t[2] is not None and not t[3]:
                        return t[2]
                    if t[2] is None and len(t[3]) == 1:
                        return t[3][0]
            return None
        a, b = ends(first, ('begin', 'cbegin')), ends(last, ('end', 'cend'))
        # [&a[0], &a[N]): the whole of an array (std::begin / std::end of an array evaluate to this)
        if a is None and isinstance(first, tuple) and isinstance(last, tuple) and first[:1] == ('addr',) and last[:1] == ('addr',) \
                and isinstance(first[1], tuple) and isinstance(last[1], tuple) and first[1][:1] == ('index',) and last[1][:1] == ('index',) \
                and first[1][1] == last[1][1] and first[1][2][:2] == ('k', 0) and last[1][2][0] == 'k' and last[1][2][1] > 0:
            return first[1][1]
        if a is None and isinstance(first, tuple) and first and first[0] == 'addr' and isinstance(first[1], tuple) and first[1][0] == 'fld' \
                and isinstance(last, tuple) and len(last) == 4 and last[:3] == ('op', '+', first) and last[3][:2] == ('k', 1):
            # [&x.item, &x.item + 1): the whole of a one-element store x (its begin()/end() were evaluated inline)
            return first[1][1]
        return a if a is not None and a == b else None

    def search_summary(self, e, callee, args, st, negate=False):
        """std::find_if over a whole container with a predicate of the repository: the same summary as the
        range-for search loop -- some element satisfies the predicate and is designated by the result, or no
        element does and the result is the end."""
        first, last, pred = args
        r = self.whole_range(first, last)
        if r is None or not (isinstance(pred, tuple) and pred and pred[0] == 'obj' and pred[1] in st.heap):
            return None
        pcls = st.heap[pred[1]].cls
        ops = [f for f in self.F.fns_in(pcls) if f['name'] == 'operator()' and len(f['params']) == 1]
        if len(ops) != 1:
            return None
        ptr_iter = (callee.get('ret') or '').rstrip().endswith('*')
        elem = ('elem', r)
        s1 = st.fork()
        neff = len(s1.effects)
        caps = st.heap[pred[1]].tag if ops[0].get('lambda_call') else None
        outs = []
        fall = False
        for s2, v in self.call_body(ops[0], pred, [elem], s1, captures=caps):
            if s2.throw is not None:
                outs.append((s2, None))
                continue
            if len(s2.effects) != neff:
                raise Unsupported(f'search predicate with effects at line {e.get("ln")}')
            t = self.truth(v, s2)
            if negate and t is not None:
                t = not t
            if t is None:
                s2.conds.append((v, not negate))
                t = True
                fall = True
            if t:
                res = ('addr', elem) if ptr_iter else ('iter', elem)
                if ptr_iter:
                    # an element so designated is never the end of its range
                    s2.known.append((('op', '!=', res, last), True))
                outs.append((s2, res))
            else:
                fall = True
        if fall or not outs:
            st.conds.append((('noelem', r, e.get('ln')), True))
            outs.append((st, last))
        return outs

    # --------------------------------------------------------------- truth
    def truth(self, c, st):
        c = self.simp(c)
        if c[0] == 'k':
            return bool(c[1])
        if c[0] in ('obj', 'addr'):
            return True
        # a == b is b == a, and a != b its negation
        alts = [(c, False)]
        if c[0] == 'op' and len(c) == 4 and c[1] in ('==', '!='):
            other = '!=' if c[1] == '==' else '=='
            alts += [((c[0], c[1], c[3], c[2]), False), ((c[0], other, c[2], c[3]), True), ((c[0], other, c[3], c[2]), True)]
        facts_ = []

        def expand(cc, val):
            facts_.append((cc, val))
            if isinstance(cc, tuple) and len(cc) == 4 and cc[0] == 'op' and ((cc[1] == '&&' and val) or (cc[1] == '||' and not val)):
                expand(cc[2], val)
                expand(cc[3], val)
            elif isinstance(cc, tuple) and len(cc) == 3 and cc[0] == 'un' and cc[1] == '!':
                expand(cc[2], not val)
        for (cc, val) in st.conds + st.known:
            expand(cc, val)
        for (cc, val) in facts_:
            for alt, flip in alts:
                if cc == alt:
                    return (not val) if flip else val
            if cc == ('un', '!', c):
                return not val
            if c == ('un', '!', cc):
                return not val
        if c[0] == 'un' and c[1] == '!':
            t = self.truth(c[2], st)
            return None if t is None else (not t)
        if c[0] == 'op' and c[1] in ('==', '!='):
            a, b = c[2], c[3]
            eq = self.same(a, b, st)
            if eq is not None:
                return eq if c[1] == '==' else (not eq)
        if c[0] == 'op' and c[1] == '&&':
            a, b = self.truth(c[2], st), self.truth(c[3], st)
            if a is False or b is False:
                return False
            if a is True and b is True:
                return True
            # a conjunction that contains a literal and its negation (a == b together with b != a) is false
            lits = []

            def flat(t, pos=True):
                if isinstance(t, tuple) and len(t) == 4 and t[0] == 'op' and t[1] == '&&' and pos:
                    flat(t[2]); flat(t[3])
                elif isinstance(t, tuple) and len(t) == 3 and t[0] == 'un' and t[1] == '!':
                    flat(t[2], not pos)
                elif isinstance(t, tuple) and len(t) == 4 and t[0] == 'op' and t[1] in ('==', '!='):
                    x, y = sorted((t[2], t[3]), key=repr)
                    lits.append((('eq', x, y), pos == (t[1] == '==')))
                else:
                    lits.append((t, pos))
            flat(c)
            seen = {}
            for l, v in lits:
                if seen.setdefault(l, v) != v:
                    return False
        if c[0] == 'op' and c[1] == '||':
            a, b = self.truth(c[2], st), self.truth(c[3], st)
            if a is True or b is True:
                return True
            if a is False and b is False:
                return False
        return None

    def same(self, a, b, st):
        if a == b:
            return True
        if a[0] == 'k' and b[0] == 'k':
            return a[1] == b[1]
        nonnull = ('obj', 'addr')
        if (a[0] in nonnull and b == NULL) or (b[0] in nonnull and a == NULL):
            return False
        for x, y in ((a, b), (b, a)):
            if x[0] in ('addr', 'iter') and isinstance(x[1], tuple) and x[1] and x[1][0] == 'elem' \
                    and self.whole_range(('call', 'begin()', x[1][1], ()), y) == x[1][1]:
                return False
        if a[0] == 'obj' and b[0] == 'obj':
            return a[1] == b[1]
        if a[0] == 'addr' and b[0] == 'addr' and isinstance(a[1], tuple) and isinstance(b[1], tuple) and a[1][:1] == ('index',) and b[1][:1] == ('index',) \
                and a[1][1] == b[1][1] and a[1][2][0] == 'k' and b[1][2][0] == 'k':
            return a[1][2][1] == b[1][2][1]
        # an object constructed during this evaluation is distinct from anything that existed before it
        for x, y in ((a, b), (b, a)):
            if x[0] == 'obj' and x[1] in st.heap and st.heap[x[1]].origin and st.heap[x[1]].origin[0] in ('emplace', 'tree', 'new') \
                    and self.preexisting(y):
                return False
            if x[0] == 'addr' and x[1][0] == 'obj' and x[1][1] in st.heap and st.heap[x[1][1]].origin \
                    and st.heap[x[1][1]].origin[0] in ('emplace', 'tree', 'new') and y[0] == 'addr' and self.preexisting(y[1]):
                return False
        if a[0] == 'addr' and b[0] == 'addr' and a[1][0] == 'obj' and b[1][0] == 'obj':
            return a[1][1] == b[1][1]
        for (cc, val) in st.conds:
            if cc in (('op', '==', a, b), ('op', '==', b, a)):
                return val
            if cc in (('op', '!=', a, b), ('op', '!=', b, a)):
                return not val
        return None

    @staticmethod
    def preexisting(t):
        """Does the term designate something that existed before the evaluation started (a parameter or a
        part of one)?"""
        while isinstance(t, tuple) and t and t[0] in ('fld', 'deref', 'addr'):
            t = t[1]
        return isinstance(t, tuple) and bool(t) and t[0] == 'param'

    def simp(self, t):
        if not isinstance(t, tuple) or not t:
            return t
        if t[0] == 'deref' and t[1][0] == 'addr':
            return self.simp(t[1][1])
        if t[0] == 'addr' and t[1][0] == 'deref':
            return self.simp(t[1][1])
        if t[0] == 'un' and t[1] == '!' and t[2][0] == 'un' and t[2][1] == '!':
            return t[2][2]
        if t[0] == 'un' and t[1] == '!' and t[2][0] == 'op' and t[2][1] in ('==', '!='):
            return ('op', '!=' if t[2][1] == '==' else '==', t[2][2], t[2][3])
        return t

    # --------------------------------------------------------------- expressions
    def ev_list(self, exprs, st):
        res = [(st, [])]
        for e in exprs:
            new = []
            for s, vals in res:
                if s.throw is not None:
                    new.append((s, vals + [None]))
                    continue
                for s2, v in self.ev(e, s):
                    new.append((s2, vals + [v]))
            res = new
            if len(res) > self.max_paths:
                raise Unsupported('too many paths')
        return res

    def ev_init(self, e, st, typ):
        """Evaluate an initializer for a variable/field of type `typ`."""
        return self.ev(e, st)

    def ev(self, e, st):
        if e is None:
            return [(st, None)]
        if st.throw is not None:
            return [(st, None)]
        k = e.get('k')
        m = getattr(self, 'ev_' + k, None)
        if m is None:
            raise Unsupported(f'expression kind {k} at line {e.get("ln")}')
        return m(e, st)

    def ev_lit(self, e, st):
        lt = e.get('lt')
        if lt == 'null':
            return [(st, NULL)]
        if lt == 'str':
            return [(st, ('k', tuple(e.get('bytes', [])), 'str'))]
        if lt == 'float':
            return [(st, ('k', 'float', 'float'))]
        return [(st, ('k', int(e['cv']), lt))]

    def ev_valueinit(self, e, st):
        t = e.get('t', '')
        if t.endswith('*'):
            return [(st, NULL)]
        return [(st, ('k', 0, 'zero'))]

    def ev_this(self, e, st):
        return [(st, ('addr', st.env['this']))]

    def ev_ref(self, e, st):
        kind = e.get('kind')
        if kind == 'parm':
            v = st.env.get(('p', e['idx']))
            if v is None:
                raise Unsupported(f'unbound parameter {e.get("name")}')
            return [(st, v)]
        if kind == 'local':
            v = st.env.get(('v', e['id']))
            if v is None:
                raise Unsupported(f'unbound local {e.get("name")}')
            if st.env.get(('isref', e['id'])) and isinstance(v, tuple) and v[:1] in (('fld',), ('index',), ('deref',)) and v in st.symstore:
                return [(st, st.symstore[v])]      # a reference: what was last stored where it is bound
            return [(st, v)]
        if kind in ('capture', 'outerparm'):
            v = st.env.get(('cap', e['name']))
            if v is None:
                return [(st, ('sym', 'capture:' + e['name']))]
            return [(st, v)]
        if kind == 'enumerator':
            return [(st, ('k', int(e['cv']), 'enum:' + e.get('q', '')))]
        if kind == 'global':
            if 'cv' in e:
                return [(st, ('k', int(e['cv']), 'const:' + e.get('q', '')))]
            # a constexpr reference (a name given to another constant object, e.g. `static constexpr auto& w = known_word("x")`)
            # designates what its initialiser designates
            if e.get('constexpr') and (e.get('t') or '').rstrip().endswith('&') is False:
                g = self.global_by_q(e['q'])
                if g is not None and g.get('constexpr') and g.get('t', '').rstrip().endswith('&') and g.get('init') is not None \
                        and g.get('constant_init', True) and self.depth < self.max_depth:
                    self.depth += 1
                    try:
                        outs = self.ev(g['init'], st)
                    finally:
                        self.depth -= 1
                    if len(outs) == 1 and outs[0][0].throw is None:
                        return outs
            return [(st, ('global', e['q']))]
        if kind == 'fn':
            return [(st, ('fn', e['fn']['id']))]
        raise Unsupported(f'reference kind {kind}')

    def ev_member(self, e, st):
        out = []
        for s, b in self.ev(e['base'], st):
            if s.throw is not None:
                out.append((s, None))
                continue
            if e.get('arrow'):
                self.note_deref(s, b, e)
                b = self.simp(('deref', b))
            out.append((s, self.load_field(s, b, e['name'])))
        return out

    def rvalue(self, t, st):
        """Value currently stored at a computed location (array element, field reached through a pointer)."""
        if not isinstance(t, tuple) or not t:
            return t
        if t in st.symstore:
            return st.symstore[t]
        if t[0] == 'fld' and isinstance(t[1], tuple) and t[1] and t[1][0] == 'obj' and t[1][1] in st.heap:
            o = st.heap[t[1][1]]
            if t[2] in o.fields:
                return o.fields[t[2]]
        return t

    def note_deref(self, st, ptr, e):
        if isinstance(ptr, tuple) and ptr and ptr[0] in ('addr', 'obj'):
            return
        st.derefs.append((ptr, e.get('ln'), len(st.conds), st.envs[-1].get('__fn__'), len(st.effects)))

    def ev_cast(self, e, st):
        ck = e.get('ck')
        out = []
        for s, v in self.ev(e['e'], st):
            if s.throw is not None or v is None:
                out.append((s, v))
                continue
            if ck == 'LValueToRValue':
                out.append((s, self.rvalue(v, s)))
                continue
            if ck == 'IntegralCast' and isinstance(v, tuple) and v[:1] != ('k',) and 'cv' not in e \
                    and not int_preserving(self.F, (e['e'] or {}).get('t'), e.get('t')):
                # a conversion to an integer type that cannot hold every value of the source type changes large values
                # (modulo 2^N): the result is not the operand
                out.append((s, ('narrow', e.get('t'), v)))
                continue
            if ck in ('DerivedToBase', 'UncheckedDerivedToBase', 'BaseToDerived', 'NoOp', 'LValueToRValue',
                      'ArrayToPointerDecay', 'IntegralCast', 'NullToPointer', 'BitCast', 'Dependent',
                      'ToVoid', 'IntegralToBoolean', 'PointerToBoolean', 'ConstructorConversion',
                      'UserDefinedConversion', 'FunctionToPointerDecay'):
                if 'cv' in e and v[0] != 'k':
                    v = ('k', int(e['cv']), 'int')
                elif ck == 'IntegralCast' and 'cv' in e and v[0] == 'k' and isinstance(v[1], int) and int(e['cv']) != v[1]:
                    # the conversion of a constant changes its value (-1 to an unsigned type): the converted value is the one used
                    v = ('k', int(e['cv']), v[2] if len(v) > 2 else 'int')
                out.append((s, v))
            elif ck == 'Dynamic' and isinstance(v, tuple) and v[0] == 'addr' and isinstance(v[1], tuple) and v[1][0] == 'obj' and v[1][1] in s.heap:
                # dynamic_cast on an object whose class is known: the pointer when that class is, or derives from, the
                # target class; null otherwise
                tgt = (e.get('t') or '').replace('const ', '').rstrip('*& ').strip()
                cls = s.heap[v[1][1]].cls
                if tgt in self.F.rec and cls in self.F.rec:
                    out.append((s, v if (cls == tgt or self.F.derives_from(cls, tgt)) else NULL))
                else:
                    out.append((s, ('castto', e.get('t'), v)))
            else:
                out.append((s, ('castto', e.get('t'), v)))
        return out

    def ev_unop(self, e, st):
        op = e['op']
        out = []
        for s, v in self.ev(e['e'], st):
            if s.throw is not None:
                out.append((s, None))
                continue
            if op == '*':
                self.note_deref(s, v, e)
                out.append((s, self.simp(('deref', v))))
            elif op == '&':
                out.append((s, self.simp(('addr', v))))
            elif op in ('!', '-', '~', '+'):
                if v[0] == 'k' and isinstance(v[1], int):
                    r = {'!': int(not v[1]), '-': -v[1], '~': ~v[1], '+': v[1]}[op]
                    out.append((s, ('k', r, 'int')))
                else:
                    out.append((s, self.simp(('un', op, v))))
            elif op in ('++', '--'):
                if v[0] == 'k' and isinstance(v[1], int):
                    nv = ('k', v[1] + (1 if op == '++' else -1), 'int')
                else:
                    nv = ('op', '+' if op == '++' else '-', v, ('k', 1, 'int'))
                for s2 in self.assign(s, e['e'], nv):
                    out.append((s2, v if e.get('post') else nv))
            else:
                raise Unsupported('unary ' + op)
        return out

    def assign(self, s, lhs_expr, value):
        """Store `value` into the lvalue designated by lhs_expr (already evaluated per path)."""
        le = strip_casts(lhs_expr)
        k = le.get('k')
        if k == 'ref' and le.get('kind') == 'local':
            lv = s.env.get(('v', le['id']))
            if s.env.get(('isref', le['id'])) and isinstance(lv, tuple) and lv[:1] in (('fld',), ('index',), ('deref',), ('elem',)):
                # assignment through a reference variable stores where the reference is bound (it does not rebind the name)
                if lv[0] == 'fld' and isinstance(lv[1], tuple) and lv[1][:1] == ('obj',) and lv[1][1] in s.heap:
                    s.heap[lv[1][1]].fields[lv[2]] = value
                else:
                    s.effects.append(('write', lv, value))
                    s.symstore[lv] = value
                return [s]
            s.env[('v', le['id'])] = value
            return [s]
        if k == 'ref' and le.get('kind') == 'parm':
            s.env[('p', le['idx'])] = value
            return [s]
        if k == 'member':
            out = []
            for s2, b in self.ev(le['base'], s):
                if s2.throw is not None or b is None:
                    out.append(s2)          # the object expression refused (a checked pointer was null): nothing is stored
                    continue
                if le.get('arrow'):
                    b = self.simp(('deref', b))
                self.store_field(s2, b, le['name'], value)
                out.append(s2)
            return out
        out = []
        for s2, lv in self.ev(le, s):
            if isinstance(lv, tuple) and lv and lv[0] == 'fld' and isinstance(lv[1], tuple) and lv[1] and lv[1][0] == 'obj' and lv[1][1] in s2.heap:
                s2.heap[lv[1][1]].fields[lv[2]] = value
            else:
                s2.effects.append(('write', lv, value))
                if isinstance(lv, tuple) and lv and lv[0] in ('index', 'fld', 'deref'):
                    s2.symstore[lv] = value
            out.append(s2)
        return out

    def ev_binop(self, e, st):
        op = e['op']
        if op == '=':
            out = []
            for s, v in self.ev(e['r'], st):
                if s.throw is not None:
                    out.append((s, None))
                    continue
                for s2 in self.assign(s, e['l'], v):
                    out.append((s2, v))
            return out
        if op in ('&&', '||'):
            out = []
            for s, a in self.ev(e['l'], st):
                if s.throw is not None:
                    out.append((s, None))
                    continue
                t = self.truth(a, s)
                if (op == '&&' and t is False) or (op == '||' and t is True):
                    out.append((s, ('k', int(t), 'bool')))
                    continue
                for s2, b in self.ev(e['r'], s):
                    if t is not None:
                        out.append((s2, b))
                    else:
                        out.append((s2, ('op', op, a, b)))
            return out
        if op in ('+=', '-=', '|=', '&=', '^=', '*=', '/=', '<<=', '>>='):
            out = []
            bop = op[:-1]
            for s, vals in self.ev_list([e['l'], e['r']], st):
                if s.throw is not None:
                    out.append((s, None))
                    continue
                a, b = vals
                nv = self.arith(bop, a, b)
                if isinstance(nv, tuple) and nv[:1] == ('k',) and isinstance(nv[1], int):
                    # the result is converted to the type of the left operand: unsigned arithmetic wraps at its width
                    lt = (strip_casts(e['l']).get('t') or '').replace('const ', '').strip()
                    w_ = _INT_TYPES.get(lt)
                    if w_ is not None and not w_[1]:
                        nv = ('k', nv[1] & ((1 << w_[0]) - 1), 'int')
                for s2 in self.assign(s, e['l'], nv):
                    out.append((s2, nv))
            return out
        if op == ',':
            out = []
            for s, _a in self.ev(e['l'], st):
                out.extend(self.ev(e['r'], s))
            return out
        out = []
        for s, (a, b) in ((s, tuple(v)) for s, v in self.ev_list([e['l'], e['r']], st)):
            if s.throw is not None:
                out.append((s, None))
                continue
            if 'cv' in e:
                out.append((s, ('k', int(e['cv']), 'int')))
                continue
            if a[0] == 'k' and b[0] == 'k' and isinstance(a[1], int) and isinstance(b[1], int):
                try:
                    r = {'+': a[1] + b[1], '-': a[1] - b[1], '*': a[1] * b[1],
                         '==': int(a[1] == b[1]), '!=': int(a[1] != b[1]), '<': int(a[1] < b[1]),
                         '>': int(a[1] > b[1]), '<=': int(a[1] <= b[1]), '>=': int(a[1] >= b[1]),
                         '|': a[1] | b[1], '&': a[1] & b[1], '^': a[1] ^ b[1],
                         '<<': a[1] << b[1], '>>': a[1] >> b[1]}.get(op)
                except Exception:
                    r = None
                if r is not None:
                    out.append((s, ('k', r, 'int')))
                    continue
            if op in ('==', '!='):
                eq = self.same(a, b, s)
                if eq is not None:
                    out.append((s, ('k', int(eq if op == '==' else not eq), 'bool')))
                    continue
            if op == '-' and a[0] == 'addr' and b[0] == 'addr':
                d = self.arith('-', a, b)
                if d[0] == 'k':
                    out.append((s, d))
                    continue
            out.append((s, ('op', op, a, b)))
        return out

    def arith(self, op, a, b):
        """a op b with constant folding and flattening of (x + c1) + c2."""
        # difference of the addresses of two elements of one array
        if op == '-' and a[0] == 'addr' and b[0] == 'addr' and isinstance(a[1], tuple) and isinstance(b[1], tuple) \
                and a[1][:1] == ('index',) and b[1][:1] == ('index',) and a[1][1] == b[1][1] and a[1][2][0] == 'k' and b[1][2][0] == 'k':
            return ('k', a[1][2][1] - b[1][2][1], 'int')
        if a[0] == 'k' and b[0] == 'k' and isinstance(a[1], int) and isinstance(b[1], int):
            r = {'+': a[1] + b[1], '-': a[1] - b[1], '*': a[1] * b[1], '|': a[1] | b[1], '&': a[1] & b[1], '^': a[1] ^ b[1]}.get(op)
            if r is None and op in ('<<', '>>') and 0 <= b[1] < 128 and a[1] >= 0:
                r = a[1] << b[1] if op == '<<' else a[1] >> b[1]
            if r is not None:
                return ('k', r, 'int')
        if op in ('+', '-') and b[0] == 'k' and isinstance(b[1], int):
            c = b[1] if op == '+' else -b[1]
            base = a
            if a[0] == 'op' and a[1] == '+' and a[3][0] == 'k' and isinstance(a[3][1], int):
                base, c = a[2], a[3][1] + c
            if c == 0:
                return base
            return ('op', '+', base, ('k', c, 'int'))
        return ('op', op, a, b)

    def array_find(self, args, st):
        """std::find(first, last, value) over [&a[i], &a[n]) of an array a: one outcome per position (the first element equal
        to the value is the one at k) and one for `none is`; equality is the element type's own operator== when it has one."""
        first, last, value = args

        def pos(t):
            if isinstance(t, tuple) and t[0] == 'addr' and isinstance(t[1], tuple) and t[1][0] == 'index' and t[1][2][0] == 'k':
                return t[1][1], t[1][2][1]
            return None
        a, b = pos(first), pos(last)
        if a is None or b is None or a[0] != b[0] or not (0 <= a[1] <= b[1] <= 64):
            return None
        arr = a[0]
        outs = []
        states = [st]
        for k in range(a[1], b[1]):
            elem = ('index', arr, ('k', k, 'int'))
            nxt = []
            for s0 in states:
                for s1, c in self.equal_values(elem, value, s0):
                    if s1.throw is not None:
                        outs.append((s1, None))
                        continue
                    t = self.truth(c, s1)
                    if t is True:
                        outs.append((s1, ('addr', elem)))
                    elif t is False:
                        nxt.append(s1)
                    else:
                        s2 = s1.fork()
                        s1.conds.append((c, True))
                        outs.append((s1, ('addr', elem)))
                        s2.conds.append((c, False))
                        nxt.append(s2)
            states = nxt
            if len(outs) + len(states) > self.max_paths:
                raise Unsupported('too many paths')
        outs.extend((s0, last) for s0 in states)
        return outs

    def equal_values(self, x, y, st):
        """x == y as the program would evaluate it: the class's own operator== (member or namespace-scope, from the repository)
        when the values are of a class type that has one, the built-in comparison otherwise."""
        tname = None
        if isinstance(x, tuple) and x[0] == 'index':
            base = x[1]
            if isinstance(base, tuple) and base[0] == 'global':
                for g in self.F.globals:
                    if g['q'] == base[1]:
                        tname = g['t'].replace('const ', '').split('[')[0].strip()
            elif isinstance(base, tuple) and base[0] == 'param':
                tname = None
        if tname and tname in self.F.rec:
            for fid in (f'{tname}::operator==(const {tname} &) const', f'{tname}::operator==({tname}) const'):
                f = self.F.fn.get(fid)
                if f is not None:
                    return self.call_body(f, x, [y], st)
        return [(st, self.simp(('op', '==', x, y)))]

    def variant_get(self, callee, var, st):
        """std::get<I>(v): the alternative when v.index() == I, std::bad_variant_access otherwise (decided from the path
        condition when it fixes the index, forked when it does not)."""
        info = _variant_get_info(callee['id'])
        if info is None:
            return None
        I, n, idx_fid = info
        idx = ('call', idx_fid, var, ())
        possible = set(range(n))
        for c, val in st.conds:
            if isinstance(c, tuple) and len(c) == 4 and c[0] == 'op' and c[1] in ('==', '!=') and c[2] == idx and isinstance(c[3], tuple) and c[3][0] == 'k':
                eq = (c[1] == '==') == bool(val)
                possible &= ({c[3][1]} if eq else (set(range(n)) - {c[3][1]}))
        value = ('call', callee['id'], None, (var,))
        if possible == {I}:
            return [(st, value)]
        bad = st.fork() if I in possible else st
        bad.conds.append((('op', '==', idx, ('k', I, 'int')), False))
        bad.throw = 'std::bad_variant_access'
        if I not in possible:
            return [(bad, None)]
        st.conds.append((('op', '==', idx, ('k', I, 'int')), True))
        return [(st, value), (bad, None)]

    def ev_cond(self, e, st):
        out = []
        for s, c in self.ev(e['c'], st):
            if s.throw is not None:
                out.append((s, None))
                continue
            t = self.truth(c, s)
            if t is True:
                out.extend(self.ev(e['then'], s))
            elif t is False:
                out.extend(self.ev(e['else'], s))
            else:
                s2 = s.fork()
                s.conds.append((c, True))
                s2.conds.append((c, False))
                out.extend(self.ev(e['then'], s))
                out.extend(self.ev(e['else'], s2))
        return out

    def ev_throw(self, e, st):
        st.throw = e.get('thrown') or 'rethrow'
        return [(st, None)]

    def ev_defarg(self, e, st):
        return self.ev(e['e'], st)

    def ev_sizeof(self, e, st):
        if 'cv' in e:
            return [(st, ('k', int(e['cv']), 'int'))]
        return [(st, ('sym', 'sizeof'))]

    def ev_trait(self, e, st):
        if 'cv' in e:
            return [(st, ('k', int(e['cv']), 'int'))]
        return [(st, ('sym', 'trait'))]

    def ev_index(self, e, st):
        out = []
        for s, vals in self.ev_list([e['base'], e['idx']], st):
            if s.throw is not None:
                out.append((s, None))
                continue
            out.append((s, ('index', vals[0], vals[1])))
        return out

    def ev_initlist(self, e, st):
        t = e.get('t', '')
        r = self.F.rec.get(t.replace('const ', '')) if t else None
        if r is None and t and '::' not in t:
            # a class local to a function is named without its scope in the type of the expression
            for env in reversed(st.envs):
                if env.get('__fn__') and f"{env['__fn__']}::{t.replace('const ', '').strip()}" in self.F.rec:
                    r = self.F.rec[f"{env['__fn__']}::{t.replace('const ', '').strip()}"]
                    break
        out = []
        for s, vals in self.ev_list(e.get('elts', []), st):
            if s.throw is not None:
                out.append((s, None))
                continue
            elts = e.get('elts', [])
            same = lambda a, b: (a or '').replace('const ', '').rstrip('& ').strip() == (b or '').replace('const ', '').rstrip('& ').strip()
            if r is not None and r.get('aggregate') and len(vals) == 1 and same((elts[0] or {}).get('t'), t):
                # T{x} with x itself a T: a copy of x (or, for a reference, x itself), not aggregate initialisation of the first member
                out.append((s, vals[0]))
            elif r is not None and r.get('aggregate'):
                o = s.new_obj(r['name'], origin=('aggregate',))
                # the elements initialise the base-class subobjects first, then the members
                names = ['<base ' + b['name'] + '>' for b in r.get('bases', [])] + [fl['name'] for fl in r['fields']]
                for n, v in zip(names, vals):
                    s.heap[o[1]].fields[n] = v
                out.append((s, o))
            elif len(vals) == 1 and (r is None or not r.get('aggregate')):
                out.append((s, vals[0]))
            elif len(vals) == 0 and t.endswith('*'):
                out.append((s, NULL))
            elif len(vals) == 0 and r is None:
                out.append((s, ('k', 0, 'zero')))
            else:
                out.append((s, ('list', tuple(vals))))
        return out

    def ev_lambda(self, e, st):
        caps = {}
        for c in e.get('captures', []):
            if 'e' in c:
                r = self.ev(c['e'], st)
                if len(r) != 1:
                    raise Unsupported('branching capture initializer')
                caps[c.get('name', '?')] = r[0][1]
        # a generic lambda with a capture default lists no captures until it is instantiated: what its body names is what the
        # enclosing function has in scope where the lambda is written (locals, parameters, the enclosing lambda's own captures)
        for key, val in list(st.env.items()):
            if isinstance(key, tuple) and key[0] in ('n', 'cap') and key[1] not in caps:
                caps[key[1]] = val
        o = st.new_obj(e['cls'], origin=('lambda',))
        st.heap[o[1]].tag = caps
        return [(st, o)]

    def ev_ctor(self, e, st):
        callee = e['callee']
        cls = e['cls']
        out = []
        for s, args in self.ev_list(e['args'], st):
            if s.throw is not None:
                out.append((s, None))
                continue
            if e.get('copy') and len(args) == 1:
                # copy/move construction: values are immutable here, alias the source
                out.append((s, args[0]))
                continue
            if callee.get('repo') is False:
                if cls.replace('const ', '').startswith('std::basic_string_view<') and len(args) == 2 \
                        and all(isinstance(a, tuple) and len(a) >= 4 and a[0] == 'call' and not a[3] and a[2] is not None for a in args) \
                        and args[0][2] == args[1][2] and fn_simple(args[0][1]) in ('data', 'begin') and fn_simple(args[1][1]) in ('size', 'length') \
                        and 'basic_string_view<' in args[0][1]:
                    # a view rebuilt from data() and size() of one and the same view is that view
                    out.append((s, args[0][2]))
                    continue
                out.append((s, ('call', callee['id'], None, tuple(args))))
                continue
            o = s.new_obj(cls, origin=('ctor', callee['id']))
            for s2, _v in self.call_ctor(callee, o, args, s):
                out.append((s2, o))
        return out

    def ev_new(self, e, st):
        out = []
        for s, pl in self.ev_list(e.get('placement', []), st):
            if s.throw is not None:
                out.append((s, None))
                continue
            init = e.get('init')
            if init is None:
                o = s.new_obj(e['type'], origin=('new',))
                out.append((s, ('addr', o)))
                continue
            for s2, v in self.ev(init, s):
                s2.effects.append(('new', e['type'], tuple(pl), v))
                out.append((s2, ('addr', v) if v is not None else None))
        return out

    def ev_boundmember(self, e, st):
        raise Unsupported('bound member function')

    def ev_other(self, e, st):
        if e.get('cls') == 'CXXPseudoDestructorExpr':
            return [(st, ('sym', 'pseudo-destructor'))]
        raise Unsupported(f'expression class {e.get("cls")} at line {e.get("ln")}')

    def ev_typeid(self, e, st):
        return [(st, ('sym', 'typeid'))]

    def ev_delete(self, e, st):
        out = []
        for s, v in self.ev(e['e'], st):
            s.effects.append(('delete', v))
            out.append((s, None))
        return out

    # --------------------------------------------------------------- calls
    def ev_call(self, e, st):
        callee = e.get('callee')
        if callee is None:
            raise Unsupported(f'indirect call at line {e.get("ln")}')
        if 'cv' in e and e.get('constant_expr'):
            return [(st, ('k', int(e['cv']), 'consteval:' + callee['id']))]
        exprs = list(e.get('args', []))
        has_obj = 'obj' in e
        if not has_obj and callee.get('name') == 'exchange' and (callee.get('q') or '').startswith('std::exchange') and len(exprs) == 2:
            # std::exchange(x, v): x takes the value v, the call yields what x held
            out = []
            for s, vals in self.ev_list(exprs, st):
                if s.throw is not None:
                    out.append((s, None))
                    continue
                old = self.rvalue(vals[0], s)
                for s2 in self.assign(s, exprs[0], vals[1]):
                    out.append((s2, old))
            return out
        if has_obj and callee.get('name') in ('operator++', 'operator--') and callee.get('repo') is False \
                and strip_casts(e['obj']).get('k') == 'ref' and strip_casts(e['obj']).get('kind') == 'local':
            # stepping a standard iterator held in a local variable: the variable now designates the next position
            out = []
            for s, vals in self.ev_list([e['obj']], st):
                if s.throw is not None:
                    out.append((s, None))
                    continue
                old = vals[0]
                new = ('call', callee['id'].split('(')[0] + '()', old, ())
                for s2 in self.assign(s, e['obj'], new):
                    out.append((s2, old if exprs else new))
            return out
        if has_obj:
            exprs = [e['obj']] + exprs
        out = []
        for s, vals in self.ev_list(exprs, st):
            if s.throw is not None:
                out.append((s, None))
                continue
            recv = None
            args = vals
            if has_obj:
                recv, args = vals[0], vals[1:]
                if e.get('arrow'):
                    self.note_deref(s, recv, e)
                    recv = self.simp(('deref', recv))
            for s2, v in self.dispatch(e, callee, recv, args, s):
                back = getattr(s2, 'out_params', None)
                if not back:
                    out.append((s2, v))
                    continue
                s2.out_params = None
                states = [s2]
                for i, nv in sorted(back.items()):
                    if i < len(e.get('args', [])):
                        lv = strip_casts(e['args'][i])
                        if lv.get('k') in ('ref', 'member', 'index', 'unop'):
                            states = [s4 for s3 in states for s4 in self.assign(s3, e['args'][i], nv)]
                # the value of the call may be the reference parameter itself (`return a = a | b;`): it designates the
                # caller's variable, whose value is now the new one
                out.extend((s3, v) for s3 in states)
        return out

    def dyn_class(self, recv, st):
        if recv is not None and recv[0] == 'obj' and recv[1] in st.heap:
            return st.heap[recv[1]].cls
        if recv is not None and recv[0] == 'global':
            g = self.global_by_q(recv[1])
            if g is not None:
                t = g['t'].replace('const ', '').replace('(anonymous namespace)', '(anon)').strip()
                if t in self.F.rec:
                    return t
        return None

    @staticmethod
    def local_container_effect(e, st):
        """the effect is a growth / change of a standard container that is a local object of the evaluation (its value is the
        constructor call that made it: nothing else designates it)"""
        if not (isinstance(e, tuple) and len(e) >= 3 and e[0] == 'call' and isinstance(e[1], str) and e[1].startswith('std::')):
            return False
        recv = e[2]
        while isinstance(recv, tuple) and recv and recv[0] == 'filled':
            recv = recv[1]
        return isinstance(recv, tuple) and len(recv) == 4 and recv[0] == 'call' and recv[2] is None and isinstance(recv[1], str) \
            and recv[1].startswith(('std::vector<', 'std::deque<', 'std::list<', 'std::forward_list<', 'std::basic_string<')) and '::' + recv[1].split('<')[0].split('::')[-1] + '(' in recv[1].replace(' ', '')

    def const_table_rows(self, q, extent, st):
        """values of the rows of a constant-initialised const array of pointers / scalars / enumerations, or None"""
        g = self.global_by_q(q)
        if g is None or not g.get('const') or not g.get('constant_init', True) or (g.get('init') or {}).get('k') != 'initlist':
            return None
        import re as _re
        m = _re.match(r'^(?:const )?(.*?)\s*\[\d+\]$', (g.get('t') or '').strip())
        if not m:
            return None
        et = m.group(1).strip()
        if not (et.endswith('*') or et.endswith('*const') or et.replace('const ', '').strip() in _INT_TYPES or et.replace('const ', '').strip() in self.F.enums):
            return None
        elts = g['init'].get('elts', [])
        if len(elts) != extent:
            return None
        rows = []
        for e in elts:
            try:
                r = self.ev(e, st.fork())
            except Unsupported:
                return None
            if len(r) != 1 or r[0][0].throw is not None or r[0][1] is None:
                return None
            rows.append(r[0][1])
        return rows

    def global_by_q(self, q):
        if not hasattr(self, '_gq'):
            self._gq = {}
            for g in self.F.globals:
                self._gq.setdefault(g['q'], g)
        return self._gq.get(q)

    def dispatch(self, e, callee, recv, args, st):
        fid = callee['id']
        q = callee.get('q', '')
        name = callee.get('name')
        # identity helpers of the standard library
        if callee.get('repo') is False:
            base = q.split('<')[0]
            if base == 'std::addressof' and len(args) == 1:
                return [(st, self.simp(('addr', args[0])))]
            if base in IDENTITY_FNS and len(args) == 1:
                return [(st, args[0])]
        if q.startswith('ipr::util::view<') and len(args) == 1 and self.dyn_class(args[0], st) is None \
                and fid.rstrip().endswith('(const ipr::Node &)'):
            # (only the function C06.5-view verifies: another overload of the same name is evaluated like any other function)
            # util::view<K>(n) on a node of unknown class: by C06 it yields n itself exactly when n's
            # category is K, and nothing otherwise -- fork on that
            K = (callee.get('targs') or [q[len('ipr::util::view<'):-1]])[0]
            isa = ('isa', K, args[0])
            t = self.truth(isa, st)
            outs = []
            if t is not False:
                s1 = st.fork() if t is None else st
                if t is None:
                    s1.conds.append((isa, True))
                outs.append((s1, ('addr', args[0])))
            if t is not True:
                if t is None:
                    st.conds.append((isa, False))
                outs.append((st, NULL))
            return outs
        r = self.intrinsic(e, callee, recv, args, st)
        if r is not None:
            return r
        if name and name.startswith('~') and recv is not None:
            st.effects.append(('dtor', fid, recv))
        if name == 'destroy_at' and recv is None and len(args) == 1 and callee.get('repo') is False:
            st.effects.append(('dtor', fid, self.simp(('deref', args[0]))))
        if name in ('operator delete', 'operator delete[]', 'free') and recv is None and args:
            st.effects.append(('release', fid, args[0]))
        target = fid
        if e.get('dyn') and callee.get('virtual'):
            dc = self.dyn_class(recv, st)
            target = None
            if dc is not None:
                target = self.F.final_overrider(dc, fid)
            if target is None:
                # static type may pin the overrider when it is final there
                stype = self.static_class(e.get('obj'))
                if stype:
                    fo = self.F.final_overrider(stype, fid)
                    if fo:
                        fof = self.F.fn.get(fo)
                        rec = self.F.rec.get(stype)
                        if (fof and fof.get('final')) or (rec and rec.get('final')):
                            target = fo
            if target is None:
                before = {}
                for a in args:
                    o = a[1] if isinstance(a, tuple) and a and a[0] == 'addr' else a
                    if isinstance(o, tuple) and o and o[0] == 'obj' and o[1] in st.heap:
                        before[o[1]] = dict(st.heap[o[1]].fields)
                wrote = self.havoc_out_args(fid, args, st)
                if not fid.endswith(' const') or wrote:
                    # a virtual call the evaluator cannot resolve and that may change state: kept as an event
                    st.effects.append(('vcall', fid, recv, tuple(args), before))
                extra = self.opaque_outcomes(fid, recv, args, st.fork()) if self.opaque_outcomes else []
                return [(st, ('vcall', fid, recv, tuple(args)))] + [(s2, None) for s2 in extra]
        f = self.F.fn.get(target)
        if f is None or self.opaque(target) or f.get('ctor'):
            if f is None and callee.get('repo') and not callee.get('virtual'):
                # declared in the repository but no body in any unit
                return [(st, ('call', target, recv, tuple(args)))]
            eff_const = target.endswith(' const')
            if recv is not None and not eff_const:
                st.effects.append(('call', target, recv, tuple(args)))
            if recv is None and f is None and callee.get('repo') is False and callee.get('ret') != 'bool' \
                    and any(isinstance(a, tuple) and a and a[0] in ('addr', 'op', 'param', 'fld', 'deref') for a in args) \
                    and contracts_free_effect(target):
                st.effects.append(('fcall', target, None, tuple(args)))
            t = ('call', target, recv, tuple(args))
            if f is not None and not f.get('ctor'):
                # a function not entered (a loop inside) whose every return hands back one of its reference parameters -- the stream
                # idiom `return printer;` / `return printer << x;` -- yields that argument, not a new unknown object
                which = self.returns_its_argument(f)
                if which == 'this' and recv is not None:
                    t = recv
                elif isinstance(which, int) and which < len(args):
                    t = args[which]
            if recv is not None and eff_const:
                # an observation of a container made after it was grown in this evaluation is a different value
                n = sum(1 for e in st.effects if (e[0] == 'emplace' and e[2] == recv)
                        or (e[0] == 'call' and e[2] == recv and _is_mutator(e[1])))
                if n:
                    t = ('after', n, t)
            extra = self.opaque_outcomes(target, recv, args, st.fork()) if self.opaque_outcomes else []
            return [(st, t)] + [(s2, None) for s2 in extra]
        # implicit/defaulted assignment operator: store
        if name == 'operator=' and f.get('implicit'):
            return [(st, recv)]
        caps = None
        if f.get('lambda_call') and recv is not None and recv[0] == 'obj' and recv[1] in st.heap:
            caps = st.heap[recv[1]].tag
        if not self.concrete_loops and self.loops_on_data(f) and (target.endswith(' const') and recv is not None):
            # a const member function that iterates over data (a hand-written size(), a search by position): it cannot
            # change the object; its result is an observation named by the call, like that of a library function
            t = ('call', target, recv, tuple(args))
            n = sum(1 for e in st.effects if (e[0] == 'emplace' and e[2] == recv) or (e[0] == 'call' and e[2] == recv and _is_mutator(e[1])))
            return [(st, ('after', n, t) if n else t)]
        return self.call_body(f, recv, args, st, captures=caps)

    def returns_its_argument(self, f, depth=0):
        """index of the reference parameter (or 'this') that every return statement of f hands back, directly or through a call
        that itself hands back that argument; None when there is no such parameter"""
        key = ('ret-arg', f['id'])
        if key in self._loop_cache:
            return self._loop_cache[key]
        self._loop_cache[key] = None
        res = set()
        if '&' not in (f.get('ret') or ''):
            return None

        def origin(e, d):
            while isinstance(e, dict) and e.get('k') in ('cast', 'paren') and 'e' in e:
                e = e['e']
            if not isinstance(e, dict):
                return None
            if e.get('k') == 'ref' and e.get('kind') == 'parm':
                return e.get('idx')
            if e.get('k') == 'unop' and e.get('op') == '*' and (e.get('e') or {}).get('k') == 'this':
                return 'this'
            if e.get('k') == 'call' and e.get('callee') and d < 4:
                g = self.F.fn.get(e['callee'].get('id'))
                if g is None or g.get('body') is None:
                    return None
                w = self.returns_its_argument(g, d + 1)
                if w == 'this':
                    return origin(e.get('obj'), d + 1) if e.get('obj') is not None else None
                if isinstance(w, int) and w < len(e.get('args', [])):
                    return origin(e['args'][w], d + 1)
            return None
        rets = [n for n in _walk(f.get('body')) if n.get('k') == 'return']
        if not rets or any(n.get('k') == 'lambda' for n in _walk(f.get('body'))):
            return None
        for n in rets:
            res.add(origin(n.get('e'), depth))
        out = res.pop() if len(res) == 1 else None
        self._loop_cache[key] = out
        return out

    def loops_on_data(self, f):
        """Does the body contain a while/for/do loop (range-for searches and the rest are handled by the evaluator)?"""
        c = self._loop_cache.get(f['id'])
        if c is None:
            c = any(n.get('k') in ('while', 'for', 'do') for n in _walk(f.get('body')))
            self._loop_cache[f['id']] = c
        return c

    def havoc_out_args(self, fid, args, st):
        """An unresolved virtual call may write through its non-const reference/pointer arguments: an object
        of this evaluation passed that way no longer has known field values."""
        sig = fid[fid.index('(') + 1:fid.rindex(')')] if '(' in fid else ''
        ptypes, depth, cur = [], 0, ''
        for ch in sig:
            if ch in '<(':
                depth += 1
            elif ch in '>)':
                depth -= 1
            if ch == ',' and depth == 0:
                ptypes.append(cur.strip())
                cur = ''
            else:
                cur += ch
        if cur.strip():
            ptypes.append(cur.strip())
        wrote = False
        for a, pt in zip(args, ptypes):
            if not (pt.endswith('&') or pt.endswith('*')) or pt.startswith('const '):
                continue
            o = a[1] if isinstance(a, tuple) and a and a[0] == 'addr' else a
            if isinstance(o, tuple) and o and o[0] == 'obj' and o[1] in st.heap:
                self.havoc_n = getattr(self, 'havoc_n', 0) + 1
                ob = st.heap[o[1]]
                wrote = True
                for k in list(ob.fields):
                    try:
                        _c, fld = self.F.field(ob.cls, k)
                    except Exception:
                        fld = None
                    if fld and fld.get('t', '').rstrip().endswith('&'):
                        continue            # a reference member cannot be reseated
                    ob.fields[k] = ('havoc', self.havoc_n, k)
        return wrote

    def static_class(self, obj_expr):
        if not obj_expr:
            return None
        t = obj_expr.get('t', '')
        t = t.replace('const ', '').replace(' *', '').replace(' &', '').replace('(anonymous namespace)', '(anon)').strip()
        return t if t in self.F.rec else None

    # --------------------------------------------------------------- intrinsics
    def find_construct(self, T, targs):
        for c in self.F.constructs.values():
            ta = c.get('targs') or []
            if c.get('cls') == T and ta[1:] == list(targs) and ta and ta[0] == T:
                return c
        return None

    def emplace(self, T, targs, args, st, container, how):
        c = self.find_construct(T, targs)
        if c is None:
            raise Unsupported(f'no construct fact for {T} from {targs}')
        if c.get('copy') and len(args) == 1:
            return [(st, args[0])]
        if 'ctor' not in c:
            raise Unsupported(f'aggregate in-place construction of {T}')
        o = st.new_obj(T, origin=('emplace', how, container))
        callee = {'id': c['ctor'], 'repo': True, 'parent': T}
        outs = []
        args = self.convert_args(c['ctor'], list(targs), list(args), st)
        for s2, _v in self.call_ctor(callee, o, args, st):
            s2.effects.append(('emplace', how, container, o))
            s2.last_emplaced[container] = o
            outs.append((s2, o))
        return outs

    @staticmethod
    def _strip(t):
        t = t.strip()
        for suf in (' &&', ' &'):
            if t.endswith(suf):
                t = t[:-len(suf)]
        if t.startswith('const '):
            t = t[6:]
        return t.strip()

    def convert_args(self, ctor_id, argtypes, args, st):
        """Implicit conversions that happen inside the standard library's construct helper: when the
        selected constructor takes a repository class by value/const-ref and the forwarded argument has
        another type, apply the unique single-argument converting constructor."""
        f = self.F.fn.get(ctor_id)
        if f is None:
            return args
        out = list(args)
        for i, (a, at) in enumerate(zip(args, argtypes)):
            if i >= len(f['params']):
                break
            pt = self._strip(f['params'][i]['t'])
            at0 = self._strip(at)
            if pt == at0 or pt not in self.F.rec:
                continue
            if at0 in self.F.rec and self.F.derives_from(at0, pt):
                continue
            r = self.F.rec[pt]
            cands = []
            for m in r['methods']:
                if not m.get('ctor') or m['deleted']:
                    continue
                ps = m['params']
                if len(ps) != 1:
                    continue
                p0 = self._strip(ps[0])
                if p0 == pt:
                    continue            # copy / move
                ok = False
                if p0 == at0:
                    ok = True
                elif p0.endswith('*') and at0.endswith('*'):
                    ok = self._strip(p0[:-1]) == self._strip(at0[:-1]) or (
                        self._strip(at0[:-1]) in self.F.rec and self.F.derives_from(self._strip(at0[:-1]), self._strip(p0[:-1])))
                elif p0.endswith('*') and at0 == 'std::nullptr_t':
                    ok = True
                elif at0 in self.F.rec and p0 in self.F.rec and self.F.derives_from(at0, p0):
                    ok = True
                if ok:
                    cands.append(m)
            if len(cands) != 1:
                raise Unsupported(f'cannot resolve implicit conversion {at} -> {pt} for {ctor_id}')
            o = st.new_obj(pt, origin=('ctor', cands[0]['id']))
            res = self.call_ctor({'id': cands[0]['id'], 'repo': True, 'parent': pt}, o, [a], st)
            if len(res) != 1:
                raise Unsupported('branching converting constructor')
            out[i] = o
        return out

    def intrinsic(self, e, callee, recv, args, st):
        name = callee.get('name')
        parent = callee.get('parent', '')
        assign_ops = ('operator=',)
        if callee.get('repo') is False:
            pt = callee.get('ptargs') or []
            if parent.startswith('std::array<') and recv is not None:
                # std::array is an aggregate around a built-in array: element access designates the element of that array, the
                # size is the extent
                import re as _re
                if name == 'operator[]' and len(args) == 1:
                    return [(st, ('index', recv, args[0]))]
                m_ = _re.search(r',\s*(\d+)\s*>\s*$', parent)
                if name in ('size', 'max_size') and not args and m_:
                    return [(st, ('k', int(m_.group(1)), 'int'))]
                if name in ('front',) and not args:
                    return [(st, ('index', recv, ('k', 0, 'int')))]
                if name in ('back',) and not args and m_ and int(m_.group(1)) > 0:
                    return [(st, ('index', recv, ('k', int(m_.group(1)) - 1, 'int')))]
            if self.apply_functors and name == 'for_each' and recv is None and len(args) == 3 \
                    and isinstance(args[2], tuple) and args[2][:1] == ('obj',) and args[2][1] in st.heap:
                # one arbitrary iteration: the functor is not applied at all, or applied to some element of the range (what holds
                # after either outcome for every starting state holds after any number of iterations)
                fcls = st.heap[args[2][1]].cls
                ops = [f for f in self.F.fns_in(fcls) if f['name'] == 'operator()' and len(f['params']) == 1 and f.get('body')]
                outs = [(st.fork(), args[2])]
                r = self.whole_range(args[0], args[1])
                elem = ('elem', r if r is not None else ('range', args[0], args[1]))
                for op in ops:
                    caps = st.heap[args[2][1]].tag if op.get('lambda_call') else None
                    for s2, _v in self.call_body(op, args[2], [elem], st.fork(), captures=caps):
                        outs.append((s2, args[2]))
                return outs
            if name in ('emplace_front', 'emplace_back', 'emplace_after') and pt:
                T = pt[0]
                if T in self.F.rec:
                    targs = callee.get('targs') or []
                    cargs = args[1:] if name == 'emplace_after' else args
                    failed = []
                    if self.growth_may_fail:
                        # the allocation of the new element can fail before anything is constructed or linked
                        s0 = st.fork()
                        s0.throw = 'std::bad_alloc'
                        failed = [(s0, None)]
                    outs = self.emplace(T, targs, cargs, st, recv, name)
                    # where the new element went: front() / back() designate it only if it went to that end
                    where = name
                    if name == 'emplace_after':
                        pos = args[0] if args else None
                        at_front = isinstance(pos, tuple) and pos[:1] == ('call',) and fn_simple(pos[1]) in ('before_begin', 'cbefore_begin') and pos[2] == recv
                        where = 'emplace_front' if at_front else 'emplace_after'
                    for s_, _o in outs:
                        if s_.throw is None:
                            s_.last_emplaced[(recv, 'where')] = where
                    if name == 'emplace_after':
                        return failed + [(s, ('iter', o)) for s, o in outs]
                    return failed + outs
            if name in ('front', 'back') and recv in st.last_emplaced:
                where = st.last_emplaced.get((recv, 'where'))
                if where is None or (name == 'front' and where == 'emplace_front') or (name == 'back' and where == 'emplace_back'):
                    return [(st, st.last_emplaced[recv])]
                # the element just emplaced went somewhere else: front() / back() is some element of the container
                return [(st, ('elem', recv))]
            if name == 'operator*' and recv is not None and recv[0] == 'iter':
                return [(st, recv[1])]
            if name == 'operator->' and recv is not None and recv[0] == 'iter':
                return [(st, ('addr', recv[1]))]
            if name in ('operator==', 'operator!=') and len(args) + (recv is not None) == 2:
                a, b = ([recv] + list(args)) if recv is not None else args
                def iterish(t):
                    return isinstance(t, tuple) and t and (t[0] == 'iter' or (t[0] == 'call' and fn_simple(t[1]) in ('begin', 'end', 'cbegin', 'cend', 'before_begin')))
                if iterish(a) and iterish(b) and (a[0] == 'iter' or b[0] == 'iter' or a == b):
                    eq = True if a == b else self.same(a, b, st)
                    if eq is not None:
                        return [(st, ('k', int(eq if name == 'operator==' else not eq), 'bool'))]
            if name in ('begin', 'end', 'cbegin', 'cend') and recv is None and len(args) == 1:
                import re as _re
                m = _re.search(r'\(&\)\[(\d+)\]\)\s*$', callee['id'])
                if m:
                    idx = 0 if name in ('begin', 'cbegin') else int(m.group(1))
                    return [(st, ('addr', ('index', args[0], ('k', idx, 'int'))))]
            if name in ('fill', 'fill_n') and recv is None and len(args) == 3 and callee['id'].startswith(('std::fill<', 'std::fill_n<')):
                # std::fill(&a[i], &a[n], v) / std::fill_n(&a[i], k, v): every element of the range takes the value
                def pos_(t):
                    if isinstance(t, tuple) and t[0] == 'addr' and isinstance(t[1], tuple) and t[1][0] == 'index' and t[1][2][0] == 'k':
                        return t[1][1], t[1][2][1]
                    return None
                a_ = pos_(args[0])
                if name == 'fill':
                    b_ = pos_(args[1])
                    hi = b_[1] if (a_ and b_ and a_[0] == b_[0]) else None
                    val_ = args[2]
                else:
                    hi = a_[1] + args[1][1] if (a_ and isinstance(args[1], tuple) and args[1][0] == 'k') else None
                    val_ = args[2]
                if a_ is not None and hi is not None and 0 <= hi - a_[1] <= 64:
                    for k_ in range(a_[1], hi):
                        lv = ('index', a_[0], ('k', k_, 'int'))
                        st.effects.append(('write', lv, val_))
                        st.symstore[lv] = val_
                    return [(st, args[1] if name == 'fill' else ('addr', ('index', a_[0], ('k', hi, 'int'))))]
            if name == 'find' and recv is None and len(args) == 3 and callee['id'].startswith('std::find<'):
                r = self.array_find(args, st)
                if r is not None:
                    return r
            # comparison categories (<compare>): `o < 0`, `0 < o`, std::is_lt(o), ... are the tests of the sign they name
            if recv is None and '__cmp_cat::__unspec' in callee['id'] and len(args) == 2 and name.startswith('operator') \
                    and name[8:] in ('<', '>', '<=', '>=', '==', '!='):
                ptypes = callee['id'][callee['id'].index('(') + 1:].rstrip(')').split(', ')
                op = name[8:]
                if len(ptypes) == 2 and '__unspec' in ptypes[1]:
                    return [(st, ('op', op, args[0], ('k', 0, 'int')))]
                if len(ptypes) == 2 and '__unspec' in ptypes[0]:
                    flip = {'<': '>', '>': '<', '<=': '>=', '>=': '<=', '==': '==', '!=': '!='}[op]
                    return [(st, ('op', flip, args[1], ('k', 0, 'int')))]
            if recv is None and len(args) == 1 and name in ('is_eq', 'is_neq', 'is_lt', 'is_lteq', 'is_gt', 'is_gteq') \
                    and (callee.get('q') or '').startswith('std::'):
                op = {'is_eq': '==', 'is_neq': '!=', 'is_lt': '<', 'is_lteq': '<=', 'is_gt': '>', 'is_gteq': '>='}[name]
                return [(st, ('op', op, args[0], ('k', 0, 'int')))]
            if name in ('countr_zero', 'countl_zero', 'popcount', 'bit_width', 'has_single_bit', 'countr_one') and recv is None \
                    and len(args) == 1 and isinstance(args[0], tuple) and args[0][:1] == ('k',) and isinstance(args[0][1], int) \
                    and (callee.get('q') or callee['id']).startswith('std::'):
                # <bit> on a constant: folded (the operand's width from the instantiation)
                x = args[0][1]
                w = 64
                for tn, (bits, _sg) in _INT_TYPES.items():
                    if callee['id'].startswith(f'std::{name}<{tn}>'):
                        w = bits
                x &= (1 << w) - 1
                val = {'countr_zero': (x & -x).bit_length() - 1 if x else w, 'countl_zero': w - x.bit_length(), 'popcount': bin(x).count('1'),
                       'bit_width': x.bit_length(), 'has_single_bit': int(x != 0 and x & (x - 1) == 0),
                       'countr_one': ((~x & (x + 1)).bit_length() - 1)}[name]
                return [(st, ('k', val, 'int'))]
            if name in ('size', 'ssize') and recv is None and len(args) == 1:
                import re as _re
                m = _re.search(r'\(&\)\[(\d+)\]\)\s*$', callee['id'])
                if m:
                    return [(st, ('k', int(m.group(1)), 'int'))]
            if name == 'get' and recv is None and len(args) == 1 and callee['id'].startswith('std::get<') and 'std::pair<' in callee['id'] \
                    and 'std::variant<' not in callee['id']:
                # std::get<I>(pair): its first / second member
                import re as _re
                m = _re.match(r'std::get<(\d+)', callee['id'])
                if m and m.group(1) in ('0', '1'):
                    return [(st, ('fld', args[0], 'first' if m.group(1) == '0' else 'second'))]
            if name == 'get' and recv is None and len(args) == 1 and callee['id'].startswith('std::get<') and 'std::variant<' in callee['id']:
                r = self.variant_get(callee, args[0], st)
                if r is not None:
                    return r
            if name in ('find_if', 'find_if_not') and recv is None and len(args) == 3:
                r = self.search_summary(e, callee, args, st, negate=(name == 'find_if_not'))
                if r is not None:
                    return r
            if name == 'operator=' and recv is not None:
                # assignment on a standard-library object (iterator, ...): rebind
                le = strip_casts(e.get('obj') or {})
                out = []
                for s2 in self.assign(st, le, args[0]):
                    out.append((s2, args[0]))
                return out
            return None
        if parent.startswith('ipr::util::rb_tree::container<') and name in ('insert', 'find'):
            return self.tree_op(e, callee, recv, args, st)
        if parent.startswith('ipr::util::rb_tree::chain<') and name in ('insert', 'find'):
            if name == 'insert':
                node = self.simp(('deref', args[0]))
                st.effects.append(('chain_insert', recv, node, args[1], node, callee['id'], st.fork()))
                st.contents.setdefault(recv, []).append(node)
                return [(st, args[0])]
            outs = []
            st.effects.append(('chain_find', recv, args[0], args[1], None, callee['id'], st.fork()))
            for el in st.contents.get(recv, []):
                s2 = st.fork()
                s2.conds.append((('found', recv, args[0], el), True))
                outs.append((s2, ('addr', el)))
            st.conds.append((('found', recv, args[0], None), False))
            outs.append((st, NULL))
            return outs
        # repository class, implicit assignment without body
        if name == 'operator=' and self.F.fn.get(callee['id']) is None and recv is not None and len(args) == 1:
            le = strip_casts(e.get('obj') or {})
            out = []
            for s2 in self.assign(st, le, args[0]):
                out.append((s2, args[0]))
            return out
        if name == 'operator=' and recv is not None and len(args) == 1:
            f = self.F.fn.get(callee['id'])
            if f is not None and (f.get('implicit') or f.get('defaulted')):
                le = strip_casts(e.get('obj') or {})
                out = []
                for s2 in self.assign(st, le, args[0]):
                    out.append((s2, args[0]))
                return out
        return None


    def tree_op(self, e, callee, recv, args, st):
        """Model of rb_tree::container<T>::insert/find at the factory level: the element is built from the
        key by the constructor Sema selected inside make_node (the tree algorithm itself is C08's business)."""
        name = callee['name']
        T = (callee.get('ptargs') or [None])[0]
        key, comp = args[0], args[1]
        if name == 'find':
            outs = []
            st.effects.append(('tree_find', recv, key, comp, None, callee['id'], st.fork()))
            for el in st.contents.get(recv, []):
                s2 = st.fork()
                s2.conds.append((('found', recv, key, el), True))
                outs.append((s2, ('addr', el)))
            if _preexisting(recv, st):
                # a table of an object that existed before the call holds elements this evaluation knows nothing about
                s2 = st.fork()
                el = ('elem', recv)
                s2.conds.append((('found', recv, key, el), True))
                outs.append((s2, ('addr', el)))
            st.conds.append((('found', recv, key, None), False))
            outs.append((st, NULL))
            return outs
        pre = []
        snap = st.fork()
        for el in st.contents.get(recv, []):
            s2 = st.fork()
            s2.conds.append((('found', recv, key, el), True))
            s2.effects.append(('tree_insert', recv, key, comp, None, callee['id'], snap))
            pre.append((s2, ('addr', el)))
        if pre:
            st.conds.append((('found', recv, key, None), False))
        targs = callee.get('targs') or []
        mk = [f for f in self.F.fns_in(callee['parent']) if f['name'] == 'make_node' and (f.get('targs') or [None])[0] == targs[0]]
        if not mk:
            raise Unsupported(f'make_node<{targs[0]}> of {callee["parent"]} not instantiated')
        news = [n for n in _walk(mk[0]['body']) if n.get('k') == 'new']
        if len(news) != 1:
            # the payload may be built with std::construct_at: the constructor it selects is in the construct facts
            cas = [n for n in _walk(mk[0]['body']) if n.get('k') == 'call' and (n.get('callee') or {}).get('name') == 'construct_at']
            if len(news) == 0 and len(cas) == 1:
                cf = self.F.constructs.get(fn_qname(cas[0]['callee']['id'])) or self.F.constructs.get(cas[0]['callee'].get('q'))
                if cf is None:
                    for c in self.F.constructs.values():
                        if cas[0]['callee']['id'].startswith(c.get('fn', '?') + '('):
                            cf = c
                if cf is None:
                    raise Unsupported('make_node: no construct fact for its construct_at')
                if cf.get('copy'):
                    init = {'k': 'ctor', 'copy': True}
                elif 'ctor' in cf:
                    init = {'k': 'ctor', 'callee': {'id': cf['ctor'], 'repo': True, 'parent': T}}
                else:
                    raise Unsupported('make_node: aggregate construction of the payload')
            else:
                raise Unsupported('make_node has no unique placement new')
        else:
            init = strip_casts(news[0].get('init') or {})
        outs = []
        if init.get('k') == 'ctor' and not init.get('copy'):
            o = st.new_obj(T, origin=('tree', recv, key, comp, callee['id']))
            for s2, _v in self.call_ctor(init['callee'], o, [key], st):
                s2.effects.append(('tree_insert', recv, key, comp, o, callee['id'], snap))
                s2.contents.setdefault(recv, []).append(o)
                outs.append((s2, ('addr', o)))
            return pre + outs
        if init.get('k') == 'ctor' and init.get('copy'):
            o = st.new_obj(T, origin=('tree', recv, key, comp, callee['id']))
            st.heap[o[1]].origin = ('copy', key)
            st.effects.append(('tree_insert', recv, key, comp, o, callee['id'], snap))
            st.contents.setdefault(recv, []).append(o)
            return pre + [(st, ('addr', o))]
        raise Unsupported(f'make_node initialiser form {init.get("k")}')


_INT_TYPES = {'bool': (1, False), 'char': (8, True), 'signed char': (8, True), 'unsigned char': (8, False), 'char8_t': (8, False),
              'short': (16, True), 'unsigned short': (16, False), 'char16_t': (16, False), 'int': (32, True), 'unsigned int': (32, False),
              'char32_t': (32, False), 'wchar_t': (32, True), 'long': (64, True), 'unsigned long': (64, False),
              'long long': (64, True), 'unsigned long long': (64, False)}


def int_shape(F, t):
    """(bits, signed) of an integer or enumeration type, None when unknown"""
    if not t:
        return None
    t = t.replace('const ', '').replace('volatile ', '').strip()
    if t in F.enums:
        t = (F.enums[t].get('underlying') or '').strip()
    return _INT_TYPES.get(t)


def int_preserving(F, src, dst):
    """does the conversion from integer type `src` to `dst` keep every bit?  Unknown types: assumed yes (not a finding)."""
    a, b = int_shape(F, src), int_shape(F, dst)
    if a is None or b is None:
        return True
    (ba, sa), (bb, sb) = a, b
    # a change of signedness at the same width re-reads the same bits (sizes and differences are converted both ways all over
    # the library and are never negative where it matters): only a loss of bits is reported
    return bb >= ba


def linear_form(t, sign=1, acc=None):
    """a sum / difference of terms as {term: coefficient} (constants under the key None): x + (y - x) and y are the same value,
    x + -1 and x - 1 too"""
    top = acc is None
    acc = {} if acc is None else acc
    while isinstance(t, tuple) and t and t[0] == 'castto':
        t = t[2]
    if isinstance(t, tuple) and t[:1] == ('op',) and len(t) == 4 and t[1] in ('+', '-'):
        linear_form(t[2], sign, acc)
        linear_form(t[3], sign if t[1] == '+' else -sign, acc)
    elif isinstance(t, tuple) and t[:1] in (('op',), ('un',)) and len(t) == 3 and t[1] == '-':
        linear_form(t[2], -sign, acc)
    elif isinstance(t, tuple) and t[:1] == ('k',) and isinstance(t[1], int):
        acc[None] = acc.get(None, 0) + sign * t[1]
    else:
        acc[t] = acc.get(t, 0) + sign
    return {k: v for k, v in acc.items() if v != 0} if top else acc


def _preexisting(loc, st):
    """is the designated storage part of an object that existed before the evaluation started (reached from `this`, a parameter
    or a global), as opposed to an object the evaluation itself created?"""
    t = loc
    while isinstance(t, tuple) and t and t[0] in ('fld', 'deref', 'addr', 'index', 'castto'):
        t = t[2] if t[0] == 'castto' else t[1]
    return isinstance(t, tuple) and t[:1] in (('sym',), ('param',), ('global',))


def _nested_labels(stmt):
    """case/default nodes strictly inside a statement (not at its top)"""
    found = []

    def visit(n, top):
        if isinstance(n, dict):
            if n.get('k') in ('case', 'default') and not top:
                found.append(n)
            if n.get('k') == 'switch' and not top:
                return
            for v in n.values():
                visit(v, False)
        elif isinstance(n, list):
            for v in n:
                visit(v, False)
    visit(stmt, True)
    return found


def _variant_get_info(fid):
    """(I, number of alternatives, id of variant::index) of std::get<I, Ts...>(variant<Ts...>&), or None."""
    import re
    m = re.match(r'std::get<(\d+)U?L?L?,', fid)
    if not m:
        return None
    k = fid.rfind('(')
    depth, pos = 0, None
    for i in range(len(fid) - 1, -1, -1):
        if fid[i] == ')':
            depth += 1
        elif fid[i] == '(':
            depth -= 1
            if depth == 0:
                pos = i
                break
    if pos is None:
        return None
    ptype = fid[pos + 1:fid.rfind(')')]
    v = ptype.replace('const ', '', 1) if ptype.startswith('const ') else ptype
    v = v.rstrip('&').strip()
    if not v.startswith('std::variant<'):
        return None
    # count top-level template arguments of the variant
    inner = v[len('std::variant<'):-1]
    d, n = 0, 1
    for ch in inner:
        if ch in '<(':
            d += 1
        elif ch in '>)':
            d -= 1
        elif ch == ',' and d == 0:
            n += 1
    return int(m.group(1)), n, v + '::index() const'


def fn_qname(fid):
    """Qualified name of a function id (drop the parameter list and cv-qualifier)."""
    s = fid
    for suf in (' const &&', ' &&', ' const'):
        if s.endswith(suf):
            s = s[:-len(suf)]
    if not s.endswith(')'):
        return s
    depth = 0
    for i in range(len(s) - 1, -1, -1):
        if s[i] == ')':
            depth += 1
        elif s[i] == '(':
            depth -= 1
            if depth == 0:
                return s[:i]
    return s


_OPSYMS = ['<=>', '<<=', '>>=', '->*', '<<', '>>', '<=', '>=', '->', '()', '[]', '==', '!=', '&&', '||', '++', '--', '+=', '-=', '*=', '/=',
           '%=', '^=', '&=', '|=', '<', '>', '+', '-', '*', '/', '%', '^', '&', '|', '~', '!', '=', ',']


def fn_simple(fid):
    """Unqualified name of a function id, template arguments stripped (operator names kept whole)."""
    q0 = fn_qname(fid)
    depth = 0
    for i, ch in enumerate(q0):
        if depth == 0 and q0.startswith('operator', i) and (i == 0 or q0[i - 2:i] == '::') and i + 8 < len(q0) \
                and not (q0[i + 8].isalnum() or q0[i + 8] in '_ "'):
            rest = q0[i + 8:]
            for sym in _OPSYMS:
                if rest.startswith(sym):
                    return 'operator' + sym
        if ch in '<(' and not q0[:i].endswith('operator'):
            depth += 1
        elif ch in '>)' and depth > 0:
            depth -= 1
    q = fn_qname(fid)
    # cut at the last top-level '::'
    depth = 0
    cut = 0
    i = 0
    while i < len(q):
        ch = q[i]
        if ch in '<(':
            # `operator<`, `operator<=`, `operator()` are names, not brackets
            if q[:i].endswith('operator') or q[:i].endswith('operator<') or q[:i].endswith('operator('):
                i += 1
                continue
            depth += 1
        elif ch in '>)':
            if q[:i].endswith('operator') or q[:i].endswith('operator-') or q[:i].endswith('operator>') or q[:i].endswith('operator('):
                i += 1
                continue
            depth -= 1
        elif ch == ':' and depth == 0 and q[i:i + 2] == '::':
            cut = i + 2
            i += 1
        i += 1
    name = q[cut:]
    if not name.startswith('operator') and '<' in name:
        name = name[:name.index('<')]
    elif name.startswith('operator') and name.endswith('>') and '<' in name[8:] and not name.startswith(('operator<', 'operator>', 'operator->')):
        name = name[:name.index('<', 8)]
    return name


def contracts_free_effect(fid):
    """Free functions of the standard library that write through their arguments."""
    q = fid.split('(')[0]
    name = q.rsplit('::', 1)[-1].split('<')[0]
    return name in ('copy', 'copy_n', 'fill', 'fill_n', 'memcpy', 'memmove', 'memset', 'strcpy', 'strncpy', 'swap',
                    'move', 'move_backward', 'copy_backward', 'uninitialized_copy', 'uninitialized_fill', 'iota', 'generate')


_MUTATORS = ('push_back', 'push_front', 'insert', 'insert_or_assign', 'emplace', 'emplace_back', 'emplace_front',
             'emplace_after', 'insert_after', 'resize', 'clear', 'erase', 'erase_after', 'pop_back', 'pop_front',
             'assign', 'swap', 'operator=', 'try_emplace', 'splice_after', 'reserve', 'shrink_to_fit')


def _is_mutator(fid):
    q = fid.split('(')[0]
    name = q.rsplit('::', 1)[-1]
    name = name.split('<')[0]
    return name in _MUTATORS


def _walk(node):
    if isinstance(node, dict):
        yield node
        for v in node.values():
            if isinstance(v, (dict, list)):
                yield from _walk(v)
    elif isinstance(node, list):
        for v in node:
            yield from _walk(v)


# ---------------------------------------------------------------------------
# helpers for rules
# ---------------------------------------------------------------------------

def show(t, st=None, depth=0):
    """Readable rendering of a term."""
    if t is None:
        return 'void'
    if not isinstance(t, tuple):
        return str(t)
    k = t[0]
    if k == 'param':
        return f'P{t[1]}'
    if k == 'k':
        if t[2] == 'null':
            return 'nullptr'
        if t[2] == 'str':
            try:
                return '"' + bytes(t[1]).decode('utf-8', 'replace') + '"'
            except Exception:
                return 'str'
        if isinstance(t[2], str) and (t[2].startswith('enum:') or t[2].startswith('const:')):
            return t[2].split(':', 1)[1] or str(t[1])
        return str(t[1])
    if k == 'obj':
        if st is not None and t[1] in st.heap and depth < 3:
            o = st.heap[t[1]]
            fs = ', '.join(f'{n}={show(v, st, depth + 1)}' for n, v in sorted(o.fields.items()))
            return f'{o.cls.split("::")[-1]}#{t[1]}{{{fs}}}'
        return f'obj#{t[1]}'
    if k == 'fld':
        return f'{show(t[1], st, depth + 1)}.{t[2]}'
    if k == 'addr':
        return '&' + show(t[1], st, depth + 1)
    if k == 'deref':
        return '*' + show(t[1], st, depth + 1)
    if k == 'op':
        return f'({show(t[2], st, depth + 1)} {t[1]} {show(t[3], st, depth + 1)})'
    if k == 'un':
        return f'{t[1]}{show(t[2], st, depth + 1)}'
    if k in ('call', 'vcall'):
        fn = t[1].split('(')[0].split('::')[-1]
        recv = (show(t[2], st, depth + 1) + '.') if t[2] is not None else ''
        return f'{recv}{fn}({", ".join(show(a, st, depth + 1) for a in t[3])})'
    if k == 'global':
        return t[1]
    if k == 'list':
        return '[' + ', '.join(show(a, st, depth + 1) for a in t[1]) + ']'
    if k == 'sym':
        return '$' + t[1]
    if k == 'iter':
        return 'iter(' + show(t[1], st, depth + 1) + ')'
    return str(t)
