"""KEY family -- insert-or-find discipline of the unified-node tables.

For every call site of rb_tree::container<T>::insert/find and rb_tree::chain<N>::insert/find the rule
evaluates, symbolically and on the *comparator overload Sema actually selected inside that template
instantiation*, the comparison of

      x = the element as a previous complete request with arguments P left it in the table
      k = the key (and comparator state) of a later request with arguments Q

and requires
  (diag)  every component comparison pairs f(P) on the element side with f(Q) on the key side for the
          same projection f (so the same request compares equal: an element is never its own key);
  (cover) every parameter of the requesting function occurs in some compared component (no argument is
          dropped from the key);
  (lex)   the comparator combines its component comparisons lexicographically (first non-zero wins,
          zero only if all are zero);
  (atom)  each component comparison is a verified three-way comparison (pointer order through
          std::less, string content order) or a verified lexicographic sequence comparison.
"""
from facts import AnalysisBroken, walk, strip_casts
from symex import Sym, Unsupported, State, show
import contracts

Q = 100     # parameter index offset of the second request


def qparams(n):
    return [('param', Q + i) for i in range(n)]


def subst_q(t):
    """Rename the second request's parameters back to the first's (Q_i -> P_i)."""
    if not isinstance(t, tuple):
        return t
    if t and t[0] == 'param' and isinstance(t[1], int) and t[1] >= Q:
        return ('param', t[1] - Q)
    return tuple(subst_q(x) for x in t)


def params_in(t, acc=None):
    acc = acc if acc is not None else set()
    if isinstance(t, tuple):
        if t and t[0] == 'param' and isinstance(t[1], int):
            acc.add(t[1])
        else:
            for x in t:
                params_in(x, acc)
    return acc


def params_reach(t, st, acc=None, seen=None):
    """Request parameters reachable from a term, through the fields of the abstract objects it designates."""
    acc = acc if acc is not None else set()
    seen = seen if seen is not None else set()
    if isinstance(t, tuple):
        if t and t[0] == 'param' and isinstance(t[1], int):
            acc.add(t[1])
        elif t and t[0] == 'obj' and len(t) > 1 and t[1] in st.heap:
            if t[1] not in seen:
                seen.add(t[1])
                for v in st.heap[t[1]].fields.values():
                    params_reach(v, st, acc, seen)
                if isinstance(st.heap[t[1]].tag, dict):          # lambda captures
                    for v in st.heap[t[1]].tag.values():
                        params_reach(v, st, acc, seen)
        else:
            for x in t:
                params_reach(x, st, acc, seen)
    return acc


# requests whose documented normal form keys the node on projections of an argument (judged by the rule that owns the normal form)
NORMAL_FORMS = (('ipr::impl::type_factory::get_qualified(', 1,
                 'a qualified operand is flattened: the node is keyed on its main variant and the union of the sets (C11.merge)'),
                ('ipr::impl::type_factory::get_qualified(', 0,
                 'a qualified operand is flattened: the requested set enters the key in union with the set read from the operand (C11.merge)',
                 'union-with-operand-set'))


def union_with_operand_set(F, f, p, terms):
    """Every key-side term that mentions parameter p is `p | <a set of the same type read from another parameter>`: the documented
    normal form of get_qualified, whose exact shape the merge rule judges.  (An address or any other quantity or-ed into the set
    is not that form.)"""
    want = f['params'][p]['t'].replace('const ', '').replace('&', '').strip()
    for _h, t in terms:
        if not (isinstance(t, tuple) and len(t) == 4 and t[0] == 'op' and t[1] == '|'):
            return False
        a, b = t[2], t[3]
        if b == ('param', p + Q):
            a, b = b, a
        if a != ('param', p + Q):
            return False
        if not (isinstance(b, tuple) and len(b) >= 4 and b[0] in ('call', 'vcall') and isinstance(b[2], tuple) and b[2][0] == 'param'
                and b[2][1] >= Q and b[2][1] != p + Q and not b[3]):
            return False
        g = F.fn.get(b[1])
        if g is None:
            g = next((m for r in F.rec.values() for m in r.get('methods', []) if m['id'] == b[1]), None)
        ret = ((g or {}).get('ret') or '').replace('const ', '').replace('&', '').strip()
        if ret != want:
            return False
    return True

INJECTIVE_CALLS = ('characters', 'rep', 'intern', 'begin', 'end', 'cbegin', 'cend', 'get', 'basic_string_view', 'data',
                   'length', 'size')


def determines(t, p):
    """The parameter p occurs in the key-side term t in a position that determines it: the parameter itself, its address, a
    value object built from it, its whole content (characters of a String, the representation of a sequence) -- not merely a
    projection such as its type or its linkage."""
    if t == ('param', p):
        return True
    if not isinstance(t, tuple) or not t:
        return False
    if t[0] in ('addr', 'deref', 'castto', 'un'):
        return any(determines(x, p) for x in t[1:])
    if t[0] == 'val':
        return any(determines(v, p) for _n, v in t[2])
    if t[0] in ('call', 'vcall') and len(t) >= 4:
        from symex import fn_simple
        if fn_simple(t[1]) in INJECTIVE_CALLS or t[1].startswith('std::'):
            return (t[2] is not None and determines(t[2], p)) or any(determines(a, p) for a in t[3])
        return False
    if t[0] in ('fld', 'index', 'elem', 'iter'):
        return any(determines(x, p) for x in t[1:])
    if t[0] == 'op':
        # arithmetic on the parameter keeps it apart from other values only when it is injective: adding / subtracting / xor-ing a
        # value that does not depend on any parameter.  A combination of two parameters (address | flags, a + b), or an operation
        # that loses information (|, &, *, /, %, shifts), lets two different requests produce the same compared value
        ops = [x for x in t[2:]]
        with_params = [x for x in ops if params_in(x)]
        if len(with_params) != 1 or t[1] not in ('+', '-', '^'):
            return False
        return determines(with_params[0], p)
    return any(determines(x, p) for x in t if isinstance(x, tuple))


def comparator_in(F, tree_fid):
    """Callee of `comp(element, key)` inside an instantiated tree operation."""
    f = F.fn.get(tree_fid)
    if f is None:
        raise AnalysisBroken(f'tree operation body not in facts: {tree_fid}')
    ids = set()
    ncomp = None
    for i, p in enumerate(f['params']):
        if p['name'] == 'comp':
            ncomp = i
    if ncomp is None:
        raise AnalysisBroken(f'no comparator parameter in {tree_fid}')
    for n in walk(f['body']):
        if n.get('k') == 'call' and n.get('op') == '()':
            o = strip_casts(n.get('obj') or {})
            if o.get('k') == 'ref' and o.get('kind') == 'parm' and o.get('idx') == ncomp:
                c = n.get('callee')
                if c is None:
                    raise AnalysisBroken(f'unresolved comparator call in {tree_fid}')
                ids.add(c['id'])
    if len(ids) != 1:
        raise AnalysisBroken(f'{len(ids)} distinct comparator callees in {tree_fid}')
    return ids.pop()


SCALAR_EXTRA = set()      # non-template overloads ipr::impl::compare(S, S) on scalar S (filled by key_opaque from the facts)


def is_scalar_compare(fid):
    return contracts.fn_qname(fid).startswith('ipr::impl::compare<') or fid in SCALAR_EXTRA


def _scalar_type(F, t):
    t = t.replace('const ', '').strip()
    if t.endswith('&'):
        return False
    if t.endswith('*'):
        return True
    if t in F.enums:
        return True
    return t in ('int', 'long', 'unsigned int', 'unsigned long', 'short', 'char', 'bool', 'unsigned char', 'long long', 'unsigned long long',
                 'std::size_t', 'std::uintptr_t', 'std::intptr_t', 'char8_t')


def is_sv_compare(fid):
    q = contracts.fn_qname(fid)
    return q.startswith('std::basic_string_view<') and q.endswith('::compare')


def is_lex_compare(fid):
    return contracts.fn_qname(fid).startswith('ipr::util::lexicographical_compare::operator()')


def atom_of(t):
    """(kind, a, b, extra) if t is a component comparison, else None."""
    if not isinstance(t, tuple) or not t:
        return None
    if t[0] == 'call':
        fid, recv, args = t[1], t[2], t[3]
        if is_scalar_compare(fid) and len(args) == 2:
            return ('scalar', args[0], args[1], fid)
        if is_sv_compare(fid) and len(args) == 1:
            return ('string', recv, args[0], fid)
        if is_lex_compare(fid) and len(args) == 5:
            return ('lexseq', (args[0], args[1]), (args[2], args[3]), (fid, args[4]))
    return None


def key_opaque(F):
    base = contracts.default_opaque(F)
    for g in F.fn.values():
        if g['name'] == 'compare' and contracts.fn_qname(g['id']) == 'ipr::impl::compare' and len(g['params']) == 2 \
                and all(_scalar_type(F, p['t']) for p in g['params']):
            SCALAR_EXTRA.add(g['id'])

    def op(fid):
        if base(fid):
            return True
        return is_scalar_compare(fid) or is_lex_compare(fid)
    return op


class LexShape:
    """Checks that comparator outcomes form `first non-zero component wins`."""

    def __init__(self):
        self.atoms = []
        self.problems = []

    def analyse(self, outs, base_conds):
        """outs: list of (state, kind, value).  Returns ordered list of atoms (kind,a,b,extra,negated)."""
        outs = self.without_identity_shortcuts(outs, base_conds)
        sem = self.semantic(outs, base_conds)
        if sem is not None:
            seq, problems = sem
            self.problems.extend(problems)
            return seq
        return self.structural(outs, base_conds)

    def without_identity_shortcuts(self, outs, base_conds):
        """`if (&x == &y) return 0;` in a component comparison: the very same object compares equal through its components too (each
        component pairs f(x) with f(y), which the diag obligation checks), so the shortcut path adds nothing and the test is dropped
        from the other paths.  A shortcut that returns anything but 0 is a problem."""
        def is_addr(t):
            while isinstance(t, tuple) and t and t[0] == 'castto':
                t = t[2]
            return isinstance(t, tuple) and t[:1] == ('addr',)

        def designator(t):
            while isinstance(t, tuple) and t and t[0] == 'castto':
                t = t[2]
            # the address of an object, or a call that yields one (a search that hands back the element it found)
            return isinstance(t, tuple) and t[:1] in (('addr',), ('call',), ('vcall',)) and atom_of(t) is None

        def identity(c):
            return isinstance(c, tuple) and len(c) == 4 and c[0] == 'op' and c[1] in ('==', '!=') and (is_addr(c[2]) or is_addr(c[3])) \
                and designator(c[2]) and designator(c[3])
        def strip(t):
            while isinstance(t, tuple) and t and t[0] == 'castto':
                t = t[2]
            return t

        def zero_test(c, w):
            c = strip(c)
            if atom_of(c) is not None:
                return not w
            if isinstance(c, tuple) and len(c) == 4 and c[0] == 'op' and c[1] in ('==', '!=') and isinstance(c[3], tuple) and c[3][:2] == ('k', 0) \
                    and atom_of(strip(c[2])) is not None:
                return (c[1] == '==') == bool(w)
            if isinstance(c, tuple) and len(c) == 3 and c[0] == 'un' and c[1] == '!' and atom_of(strip(c[2])) is not None:
                return bool(w)
            return False
        kept, shortcuts = [], []
        for st, kind, v in outs:
            conds = st.conds[base_conds:]
            idc = [(c, w) for c, w in conds if identity(c)]
            rest = [(c, w) for c, w in conds if not identity(c)]
            if not idc:
                kept.append((st, kind, v, rest))
            elif any((c[1] == '==') == bool(w) for c, w in idc):
                shortcuts.append((st, kind, v, rest))
            else:
                s2 = st.fork()
                s2.conds = st.conds[:base_conds] + rest
                kept.append((s2, kind, v, rest))
        if not shortcuts:
            return outs
        for st, kind, v, rest in shortcuts:
            # the sibling that reaches the same continuation by finding every component of the shortcut comparison zero
            ok = False
            for s2, k2, v2, r2 in kept:
                if k2 != kind or not all(x in r2 for x in rest):
                    continue
                if not all(zero_test(c, w) for (c, w) in r2 if (c, w) not in rest):
                    continue
                if v2 == v or (isinstance(v, tuple) and v[:2] == ('k', 0) and atom_of(strip(v2)) is not None):
                    ok = True
                    break
            if not ok:
                self.problems.append('a shortcut taken for one and the same object (`&x == &y`) does not answer what the component comparisons '
                                     'answer when they all find equality')
        return [(s_, k_, v_) for (s_, k_, v_, _r) in kept] if kept else outs

    def semantic(self, outs, base_conds):
        """Finite-case evaluation of the comparator: every component comparison takes the values -2, -1, 0, 1, 2 (a verified
        three-way scalar comparison only -1, 0, 1); for every assignment the one path whose conditions hold must return a value
        whose sign is that of the first non-zero component, in the order the components are evaluated.  Returns (components,
        problems), or None when a condition or a result is not built from component comparisons and constants."""
        import itertools
        paths = []
        for st, kind, v in outs:
            if kind == 'throw':
                return None
            paths.append((st.conds[base_conds:], v))
        if not paths:
            return None
        order = []

        def collect(t):
            if atom_of(t) is not None:
                if t not in order:
                    order.append(t)
                return
            if isinstance(t, tuple):
                for x in t:
                    collect(x)
        # order of evaluation: along the path on which every component is zero (the longest one)
        for conds, v in sorted(paths, key=lambda p: -len(p[0])):
            for c, _val in conds:
                collect(c)
            collect(v)
        if not order:
            return None

        class Undef(Exception):
            pass

        def val(t, env):
            if t in env:
                return env[t]
            if atom_of(t) is not None:
                raise Undef()          # a component this assignment's path never evaluates
            if not isinstance(t, tuple) or not t:
                raise Undef()
            if t[0] == 'k' and isinstance(t[1], int):
                return t[1]
            if t[0] == 'castto':
                return val(t[2], env)
            if t[0] == 'un' and t[1] == '-':
                return -val(t[2], env)
            if t[0] == 'un' and t[1] == '!':
                return int(not val(t[2], env))
            if t[0] == 'op' and len(t) == 4:
                a, b = val(t[2], env), val(t[3], env)
                r = {'==': a == b, '!=': a != b, '<': a < b, '>': a > b, '<=': a <= b, '>=': a >= b, '&&': bool(a) and bool(b),
                     '||': bool(a) or bool(b), '+': a + b, '-': a - b, '*': a * b}.get(t[1])
                if r is None:
                    raise Undef()
                return int(r)
            raise Undef()
        doms = [(-1, 0, 1) if atom_of(a)[0] == 'scalar' else (-2, -1, 0, 1, 2) for a in order]
        if len(order) > 6:
            return None
        problems = []
        sgn = lambda x: (x > 0) - (x < 0)
        for values in itertools.product(*doms):
            env = dict(zip(order, values))
            hits = []
            for conds, v in paths:
                try:
                    if all(bool(val(c, env)) == want for c, want in conds):
                        hits.append(v)
                except Undef:
                    # the path tests something that is not a component comparison: not this evaluator's language
                    if any(atom_of(c) is None and not _only_atoms(c) for c, _w in conds):
                        return None
                    continue
            # a path that returns before evaluating a later component matches every value of that component: all hits must agree
            want = next((sgn(x) for x in values if x != 0), 0)
            got = set()
            for v in hits:
                try:
                    got.add(sgn(val(v, env)))
                except Undef:
                    return None
            if not hits:
                problems.append(f'no path of the comparator is taken when its components are {values}')
            elif got != {want}:
                problems.append(f'with components {dict(zip(["c%d" % i for i in range(len(values))], values))} the comparator returns sign {sorted(got)}, '
                                f'the first non-zero component has sign {want}: not a lexicographic combination for results of magnitude other than 1')
            if len(problems) >= 2:
                break
        return [atom_of(a) for a in order], problems

    def structural(self, outs, base_conds):
        paths = []
        for st, kind, v in outs:
            conds = st.conds[base_conds:]
            if kind == 'throw':
                self.problems.append(f'comparator may throw {v}')
                continue
            paths.append((conds, v))
        if not paths:
            self.problems.append('comparator has no returning path')
            return []
        def unneg(v):
            while isinstance(v, tuple) and v and v[0] == 'un' and v[1] == '-':
                v = v[2]
            return v
        spine = [p for p in paths if all(val is False for _c, val in p[0])]
        if len(spine) != 1:
            self.problems.append(f'{len(spine)} all-zero paths in the comparator')
            return []
        seq = []
        for c, _val in spine[0][0]:
            a = atom_of(c)
            if a is None:
                self.problems.append('a path condition of the comparator is not a component comparison')
                return []
            seq.append(a)
        la = atom_of(unneg(spine[0][1]))
        if la is None:
            self.problems.append('the comparator does not end in a component comparison')
            return []
        seq.append(la)
        want = set()
        for k in range(len(seq)):
            conds = [(seq[i], False) for i in range(k)]
            if k < len(seq) - 1:
                conds.append((seq[k], True))
            want.add((tuple(conds), seq[k]))
        got = set()
        for conds, v in paths:
            got.add((tuple((atom_of(c), val) for c, val in conds), atom_of(unneg(v))))
        if got != want or len(paths) != len(want):
            self.problems.append('comparator is not a lexicographic chain of its component comparisons')
        return seq


def _only_atoms(t):
    """t is built from component comparisons, integer constants and operators only"""
    if atom_of(t) is not None:
        return True
    if not isinstance(t, tuple) or not t:
        return False
    if t[0] == 'k':
        return True
    if t[0] == 'castto':
        return _only_atoms(t[2])
    if t[0] == 'un':
        return _only_atoms(t[2])
    if t[0] == 'op' and len(t) == 4:
        return _only_atoms(t[2]) and _only_atoms(t[3])
    return False


def check_scalar_compare(F, fid):
    """E1 over the three orderings: compare<T>(l, r) must return -,0,+ for l<r, l=r, l>r."""
    S = Sym(F, opaque=lambda x: F.fn.get(x) is None)
    # std::less<> applies `a < b`: for a class or enumeration type that is whatever operator< overload resolution finds.  A
    # user-declared operator< on the compared type must be the order of the underlying values (a partial order -- subset inclusion of
    # flag sets, say -- makes incomparable keys compare equal: they share a node)
    f0 = F.fn.get(fid) or {}
    pts = [(p_.get('t') or '').replace('const ', '').replace('&', '').strip() for p_ in f0.get('params', [])]
    if len(pts) == 2 and pts[0] == pts[1] and (pts[0] in F.enums or pts[0] in F.rec):
        for g in F.fn.values():
            if g['name'] != 'operator<' or g.get('body') is None:
                continue
            gp = [(p_.get('t') or '').replace('const ', '').replace('&', '').strip() for p_ in g.get('params', [])]
            recv = [g.get('parent')] if g.get('parent') and not g.get('static') else []
            if recv + gp != [pts[0], pts[0]]:
                continue
            def plain(t):
                while isinstance(t, tuple) and t and (t[0] == 'castto' or (t[0] in ('call', 'vcall') and contracts.fn_simple(t[1]) in ('rep', 'to_underlying') and len(t[3]) == 1)):
                    t = t[2] if t[0] == 'castto' else t[3][0]
                return t
            try:
                go = S.run(g['id'])
            except Unsupported:
                go = []
            ok_lt = len(go) == 1 and go[0][1] == 'return' and not go[0][0].conds and isinstance(plain(go[0][2]), tuple) \
                and plain(go[0][2])[:2] == ('op', '<') and [plain(x) for x in plain(go[0][2])[2:]] == [('param', 0), ('param', 1)]
            if not ok_lt:
                return False, (f'the values are ordered with std::less<>, which applies the user-declared {contracts.short(g["id"])} '
                               f'[{g["loc"]}]: that is not the order of the underlying values, so keys it leaves incomparable compare equal')
    outs = S.run(fid)
    table = {}
    for o in ('<', '=', '>'):
        val = None
        hits = 0
        for st, kind, v in outs:
            if kind != 'return':
                return False, 'compare may throw'
            ok = True
            def which(t):
                # the argument itself, or its order-preserving representation (enum -> underlying integer)
                while isinstance(t, tuple) and t and (t[0] == 'castto' or (t[0] in ('call', 'vcall') and contracts.fn_simple(t[1]) in ('rep', 'to_underlying') and len(t[3]) == 1)):
                    t = t[2] if t[0] == 'castto' else t[3][0]
                return t[1] if isinstance(t, tuple) and len(t) == 2 and t[0] == 'param' and t[1] in (0, 1) else None
            for c, want in st.conds:
                # c is call(std::less<void>::operator(), lt, (x, y)), or a built-in relation between the two arguments
                if isinstance(c, tuple) and c[0] == 'call' and 'std::less' in c[1] and len(c[3]) == 2:
                    rel, (x, y) = '<', c[3]
                elif isinstance(c, tuple) and len(c) == 4 and c[0] == 'op' and c[1] in ('<', '>', '<=', '>=', '==', '!=') \
                        and isinstance(c[3], tuple) and c[3][:2] == ('k', 0) and isinstance(c[2], tuple) and c[2][0] == 'call' \
                        and c[2][1].startswith('std::compare_three_way::operator()') and len(c[2][3]) == 2:
                    # the sign of std::compare_three_way{}(x, y) (the same total order on pointers as std::less): `(x <=> y) rel 0` is `x rel y`
                    rel, (x, y) = c[1], c[2][3]
                elif isinstance(c, tuple) and len(c) == 4 and c[0] == 'op' and c[1] in ('<', '>', '<=', '>=', '==', '!='):
                    rel, x, y = c[1], c[2], c[3]
                else:
                    return False, 'condition outside the E1 language: ' + str(c)[:80]
                wx, wy = which(x), which(y)
                if {wx, wy} != {0, 1}:
                    return False, 'a relation applied to something else than the two arguments'
                oo = o if (wx, wy) == (0, 1) else {'<': '>', '>': '<', '=': '='}[o]
                truth = {'<': oo == '<', '>': oo == '>', '<=': oo in '<=', '>=': oo in '>=', '==': oo == '=', '!=': oo != '='}[rel]
                if truth != want:
                    ok = False
                    break
            if ok:
                hits += 1
                val = v
        if hits == 1 and val is not None and val[0] != 'k':
            return False, (f'for l {o} r it returns `{contracts.render(val, State(), {})[:80]}`, not a constant of the right sign: a difference '
                           'wraps or is truncated by the conversion to the result type')
        if hits != 1 or val is None:
            return False, f'ordering {o}: {hits} feasible paths'
        table[o] = val[1]
    good = table['<'] < 0 and table['='] == 0 and table['>'] > 0
    return good, table


def check_lex_compare(F, fid):
    """util::lexicographical_compare::operator() evaluated on ranges of 0, 1 and 2 elements each (nine cases, every
    path): with the first j element comparisons zero it must return the (j+1)-th when that is non-zero, and, when the
    shorter range is exhausted with all comparisons zero, 0 / negative / positive as the lengths are equal / the first is
    shorter / the second is shorter.  The function touches its iterators only through !=, ++ and *, the same way in every
    iteration, so the cases of length <= 2 cover the loop."""
    f = F.fn.get(fid)
    if f is None:
        return False, 'body missing'
    ptypes = [p['t'] for p in f['params']]
    if len(ptypes) != 5 or ptypes[0] != ptypes[1] or ptypes[2] != ptypes[3]:
        return False, f'unexpected signature {ptypes}'
    layouts = []
    for t in (ptypes[0], ptypes[2]):
        r = F.rec.get(t)
        if r is None:
            raise AnalysisBroken(f'{fid}: iterator type {t} is not a class of the repository (pointer iterators are not modelled)')
        ints = [fl['name'] for fl in r['fields'] if fl['t'] in ('unsigned long', 'long', 'int', 'unsigned int', 'std::size_t')]
        ptrs = [fl['name'] for fl in r['fields'] if fl['t'].rstrip().endswith('*')]
        if len(ints) != 1 or len(ptrs) != 1 or len(r['fields']) != 2:
            raise AnalysisBroken(f'{fid}: iterator class {t} is not (sequence pointer, index)')
        layouts.append((t, ptrs[0], ints[0]))
    cmp_cls = ptypes[4].replace('const ', '').replace('&', '').strip()
    S = Sym(F, opaque=lambda x: F.fn.get(x) is None or (F.fn[x].get('parent') or '') == cmp_cls, max_depth=24)
    A, B, C = ('param', 50), ('param', 51), ('param', 4)
    table = {}

    def ints_in(t, acc):
        if isinstance(t, tuple):
            if t and t[0] == 'k' and isinstance(t[1], int) and not isinstance(t[1], bool):
                acc.append(t[1])
            else:
                for x in t:
                    ints_in(x, acc)
        return acc
    for n1 in range(3):
        for n2 in range(3):
            st = State()
            its = []
            for (t, pf, xf), seq, idx in ((layouts[0], A, 0), (layouts[0], A, n1), (layouts[1], B, 0), (layouts[1], B, n2)):
                o = st.new_obj(t, origin=('ctor', 'iterator'))
                st.heap[o[1]].fields[pf] = ('addr', seq)
                st.heap[o[1]].fields[xf] = ('k', idx, 'int')
                its.append(o)
            try:
                outs = S.run(fid, args=its + [C], state=st)
            except Unsupported as e:
                raise AnalysisBroken(f'{fid}: outside the evaluator language: {e}')
            m = min(n1, n2)
            for s2, kind, v in outs:
                if kind != 'return':
                    return False, f'lengths ({n1},{n2}): may throw {v}'
                cmps = [(c, val) for c, val in s2.conds if isinstance(c, tuple) and c[0] in ('call', 'vcall') and c[2] == C]
                for j, (c, val) in enumerate(cmps):
                    x, y = c[3][0], c[3][1]
                    if params_in(x) != {50} or params_in(y) != {51} or ints_in(x, []) != [j] or ints_in(y, []) != [j]:
                        return False, f'lengths ({n1},{n2}): comparison {j} is applied to {show(x)} and {show(y)}, not to element {j} of each range'
                    if val and j != len(cmps) - 1:
                        return False, f'lengths ({n1},{n2}): continues after a non-zero element comparison'
                if cmps and cmps[-1][1]:
                    if len(cmps) > m:
                        return False, f'lengths ({n1},{n2}): compares element {len(cmps) - 1} beyond the shorter range'
                    if v != cmps[-1][0]:
                        return False, f'lengths ({n1},{n2}): returns {show(v)} instead of the first non-zero element comparison'
                    continue
                if len(cmps) != m:
                    return False, f'lengths ({n1},{n2}): decides after {len(cmps)} element comparison(s) although {m} element pair(s) exist'
                if not (isinstance(v, tuple) and v[0] == 'k' and isinstance(v[1], int)):
                    return False, f'lengths ({n1},{n2}): all comparisons zero, returns {show(v)}'
                want = (n1 > n2) - (n1 < n2)
                got = (v[1] > 0) - (v[1] < 0)
                table[f'{n1},{n2}'] = v[1]
                if got != want:
                    return False, (f'lengths ({n1},{n2}) with all element comparisons zero: returns {v[1]}, expected '
                                   f'{"0" if want == 0 else ("a negative value" if want < 0 else "a positive value")}')
    return True, table


class KeyChecker:
    def __init__(self, ck, F, prefix):
        self.ck = ck
        self.F = F
        self.S = Sym(F, opaque=key_opaque(F), max_depth=48)
        self.prefix = prefix
        self.R_diag = ck.rule(prefix + '.KEY-diag', 'the comparator Sema selected for (stored element, key) pairs '
                              'f(P) on the element side with f(Q) on the key side in every component: a repeated '
                              'request compares equal, an element is never compared by its own address')
        self.R_cover = ck.rule(prefix + '.KEY-cover', 'every parameter of the requesting function occurs in a '
                               'compared component (nothing is dropped from the key)')
        self.R_guard = ck.rule(prefix + '.KEY-guard', 'on every path of a request that yields a table element, a '
                               'parameter absent from the keys of that path is fixed to one value by the path '
                               'condition (identity with a constant, or every component its interface operator== '
                               'compares)')
        self.R_lex = ck.rule(prefix + '.KEY-lex', 'the comparator is a lexicographic chain of its component comparisons')
        self.R_atom = ck.rule(prefix + '.KEY-atom', 'component comparisons are verified three-way comparisons '
                              '(E1 over the orderings <,=,>; sequence tail over the exhaustion cases)')
        self.atom_cache = {}
        self.string_identity = []
        self.tables_seen = {}
        self.table_orders = {}
        self.fn_cover = {}

    def check_atom_fn(self, kind, extra, loc=None):
        fid = extra[0] if isinstance(extra, tuple) else extra
        if fid in self.atom_cache:
            return
        if kind == 'scalar':
            ok, info = check_scalar_compare(self.F, fid)
        elif kind == 'string':
            ok, info = True, 'std::basic_string_view::compare (content order, trusted library)'
        else:
            ok, info = check_lex_compare(self.F, fid)
        self.atom_cache[fid] = ok
        f = self.F.fn.get(fid)
        self.ck.check(self.R_atom, contracts.short(contracts.fn_qname(fid)), ok,
                      f'component comparison {fid} is not a three-way total order: {info}',
                      loc=f['loc'] if f else None, fn=fid, detail=info if ok else None)

    def factory(self, f, expect_tables=None, nparams=None, extra_covered=(), second=None, this2=None):
        """Run the KEY rule on every tree insertion performed by function f (first request) against the
        tree operations of a later request `second` (default: f again).  Returns table names hit."""
        F, S, ck = self.F, self.S, self.ck
        n = len(f['params'])
        fid = f['id']
        f2 = second or f
        n2 = len(f2['params'])
        sig2 = '(' + ', '.join(contracts.short(p['t']) for p in f2['params']) + ')'
        hit = []
        try:
            runs1 = S.run(fid)
        except Unsupported as e:
            raise AnalysisBroken(f'{fid}: outside the evaluator language: {e}')
        if second is None:
            self.guard_paths(f, runs1)
        for st1, kind1, _v1 in runs1:
            if kind1 != 'return':
                continue
            ins1 = [e for e in st1.effects if e[0] in ('tree_insert', 'chain_insert') and e[4] is not None]
            if not ins1:
                continue
            base_eff = len(st1.effects)
            try:
                th2 = this2(st1, _v1) if this2 else None
                runs2 = S.run(f2['id'], this=th2, args=qparams(n2), state=st1.fork())
            except Unsupported as e:
                raise AnalysisBroken(f'{f2["id"]}: outside the evaluator language: {e}')
            for st2, kind2, _v2 in runs2:
                if kind2 != 'return':
                    continue
                ins2 = [e for e in st2.effects[base_eff:] if e[0] in ('tree_insert', 'chain_insert', 'tree_find', 'chain_find')]
                for (_t1, cont1, keyP, compP, objP, ifid1, _snap1) in ins1:
                    for (t2, cont2, keyQ, compQ, objQ, ifid2, snap2) in ins2:
                        selector = None
                        if cont1 != cont2:
                            # one of several tables selected by a value computed from the request (`tables[f(q)].insert(...)`): the same
                            # table when both requests compute the selector the same way; the selector is then part of the key
                            if isinstance(cont1, tuple) and isinstance(cont2, tuple) and cont1[:1] == ('index',) and cont2[:1] == ('index',) \
                                    and cont1[1] == cont2[1] and subst_q(cont2[2]) == cont1[2] and params_in(cont2[2]):
                                selector = cont2[2]
                            else:
                                continue
                        tname = self.table_name(cont1[1] if selector is not None else cont1, st2)
                        inst = f'{contracts.short(contracts.fn_qname(f2["id"]))}{sig2}/{tname}' + ('' if t2.endswith('insert') else '/find')
                        if inst in self.tables_seen:
                            continue
                        self.tables_seen[inst] = True
                        hit.append(tname)
                        self.pair(f2, inst, snap2, objP, keyQ, compQ, ifid2, n2, extra_covered, selector=selector)
        return hit

    def finish_orders(self):
        """One order per table: every request that searches a table compares the same kinds of component in the same sequence."""
        for tkey, kinds in sorted(self.table_orders.items()):
            if len(kinds) > 1:
                desc = '; '.join(f'{"/".join(k) or "nothing"} by {contracts.short(contracts.fn_qname(v[0][1]))} (request {v[0][0]})' for k, v in sorted(kinds.items()))
                first = sorted(kinds.items())[0][1][0]
                self.ck.fail(self.R_diag, f'{tkey}/one order', f'the table {tkey} is searched under different orders: {desc} -- an element entered under '
                             'one order is not found under the other (the same request through another route gets a second node)', loc=first[2], fn=first[1])
            else:
                self.ck.ok(self.R_diag, f'{tkey}/one order')

    def table_name(self, cont, st):
        """Stable name of a container: the field path, with abstract objects named by their class."""
        t = cont
        parts = []
        while isinstance(t, tuple) and t[0] == 'fld':
            parts.append(t[2])
            t = t[1]
        if isinstance(t, tuple) and t[0] == 'obj' and t[1] in st.heap:
            parts.append(contracts.short(st.heap[t[1]].cls))
        elif t == ('sym', 'this'):
            pass
        else:
            parts.append(contracts.render(t, st, {}))
        return '.'.join(reversed(parts))

    def pair(self, f, inst, st, objP, keyQ, compQ, tree_fid, nparams, extra_covered=(), selector=None):
        F, S, ck = self.F, self.S, self.ck
        cmp_fid = comparator_in(F, tree_fid)
        cf = F.fn.get(cmp_fid)
        if cf is None:
            raise AnalysisBroken(f'comparator body not in facts: {cmp_fid}')
        base = len(st.conds)
        try:
            outs = S.run(cmp_fid, this=compQ, args=[objP, keyQ], state=st.fork())
        except Unsupported as e:
            raise AnalysisBroken(f'{cmp_fid}: outside the evaluator language: {e}')
        if outs and all(k_ == 'return' and isinstance(v_, tuple) and v_[:2] == ('k', 0) and len(s_.conds) == base for (s_, k_, v_) in outs):
            # on this pair of histories the later request's key *is* the element's component (both are the node the first request
            # made, or one process-wide constant) and the comparison is answered by identity: the element is found, and there is no
            # component to judge -- what the parameters contribute is judged where the key itself is looked up (its own table)
            self.ck.note(f'{inst}: the key is the very node the element holds; answered by identity in {contracts.short(contracts.fn_qname(cmp_fid))}')
            return None
        shape = LexShape()
        seq = shape.analyse(outs, base)
        loc = cf['loc']
        # how this request orders the table: the kinds of component comparison, in order (two requests that search one table must
        # order it the same way, or each cuts the other's elements off)
        tkey = inst.split('/')[1] if '/' in inst else inst
        self.table_orders.setdefault(tkey, {}).setdefault(tuple(k_ for (k_, _a, _b, _x) in seq), []).append((inst, cmp_fid, loc))
        ck.check(self.R_lex, inst, not shape.problems, f'comparator {cmp_fid}: ' + '; '.join(shape.problems),
                 loc=loc, fn=cmp_fid)
        if not seq:
            ck.fail(self.R_diag, inst, f'comparator {cmp_fid} yields no component comparison to judge', loc=loc, fn=cmp_fid)
            return
        bad = []
        covered = set(extra_covered)
        full = set(extra_covered)
        partial = {}
        sample = []
        st_any = outs[0][0]
        for (kind, a, b, extra) in seq:
            self.check_atom_fn(kind, extra)
            ra = contracts.render(a, st_any, {}) if not isinstance(a[0], tuple) else '(' + ', '.join(contracts.render(x, st_any, {}) for x in a) + ')'
            rb = contracts.render(b, st_any, {}) if not isinstance(b[0], tuple) else '(' + ', '.join(contracts.render(x, st_any, {}) for x in b) + ')'
            sample.append(f'{ra} <=> {rb}')
            na, nb = self.norm(a, st_any), subst_q(self.norm(b, st_any))
            if kind == 'lexseq':
                na, nb = self.seq_of(na), self.seq_of(nb)
                if na is None or nb is None:
                    bad.append(f'{ra} / {rb}: not a whole-sequence range [begin, end)')
                    continue
            if na != nb:
                bad.append(f'{ra} is compared with {rb}')
            # parameters of the first request visible on the element side, of the second on the key side
            pa = {p for p in params_in(self.norm(a, st_any)) if p < Q}
            pb = {p - Q for p in params_in(self.norm(b, st_any)) if p >= Q}
            covered |= (pa & pb)
            # does the component determine the parameter (identity, whole content) or only a projection of it?
            nbq = self.norm(b, st_any)
            # a spelling handed in as a String is compared by content: Strings of another pool (another Lexicon, a
            # free-standing String) with the same characters denote the same spelling
            tb = nbq
            while isinstance(tb, tuple) and tb and tb[0] in ('castto',):
                tb = tb[2]
            if isinstance(tb, tuple) and tb[0] == 'addr' and isinstance(tb[1], tuple) and tb[1][0] == 'param' and tb[1][1] >= Q:
                pi = tb[1][1] - Q
                if pi < len(f['params']) and f['params'][pi]['t'].replace('const ', '').replace('&', '').strip() == 'ipr::String':
                    self.string_identity.append((inst, f, pi, ra, rb, loc, cmp_fid))
            for p in (pa & pb):
                if determines(nbq, p + Q):
                    full.add(p)
                else:
                    partial.setdefault(p, set()).add((rb, nbq))
        ck.check(self.R_diag, inst, not bad,
                 f'comparator {contracts.short(contracts.fn_qname(cmp_fid))} selected for ({F.rec.get(st_any.heap[objP[1]].cls, {}).get("simple", "element")}, key): '
                 + '; '.join(bad) + ' -- a repeated request never finds its element', loc=loc, fn=cmp_fid,
                 detail={'comparator': cmp_fid, 'components': sample})
        if selector is not None:
            # the value that selects the table tells requests apart as far as it determines their parameters
            rs = contracts.render(selector, st_any, {})
            for p in {p - Q for p in params_in(selector) if p >= Q}:
                covered.add(p)
                if determines(selector, p + Q):
                    full.add(p)
                else:
                    partial.setdefault(p, set()).add((rs, selector))
        for c, _val in st.conds:
            if isinstance(c, tuple) and c and c[0] in ('found', 'noelem'):
                continue
            covered |= {p - Q for p in params_in(c) if p >= Q}
        # cover is judged per requesting function over all the tables it consults (a nested table is
        # selected by the outer key: Scope -> overload set by name -> entry by type)
        fc = self.fn_cover.setdefault(f['id'], {'f': f, 'n': nparams, 'covered': set(), 'tables': [], 'samples': []})
        fc['covered'] |= covered
        fc.setdefault('full', set()).update(full)
        for p, how in partial.items():
            fc.setdefault('partial', {}).setdefault(p, set()).update(how)
        fc['tables'].append(inst)
        fc['samples'].extend(sample)

    # -- path conditions --------------------------------------------------------------------------
    @staticmethod
    def fixed_terms(conds):
        """Terms equated, on this path, with a value that does not depend on any request parameter:
        {term: value}.  The test may be written either way round (== true, != false, negated)."""
        fixed = {}

        def visit(c, val):
            if not isinstance(c, tuple) or not c:
                return
            if c[0] == 'un' and c[1] == '!':
                return visit(c[2], not val)
            if c[0] == 'op' and ((c[1] == '&&' and val) or (c[1] == '||' and not val)):
                visit(c[2], val)
                visit(c[3], val)
                return
            if c[0] == 'op' and ((c[1] == '==' and val) or (c[1] == '!=' and not val)):
                a, b = c[2], c[3]
                if not params_in(b):
                    fixed[a] = b
                if not params_in(a):
                    fixed[b] = a
            # content equality of a word with a constant word: std::operator==(string_view, string_view)
            if c[0] == 'call' and val and len(c) >= 4 and c[2] is None and len(c[3]) == 2 and c[1].startswith('std::operator==') \
                    and 'basic_string_view' in c[1]:
                a, b = c[3]
                if not params_in(b):
                    fixed[a] = b
                if not params_in(a):
                    fixed[b] = a
        for c, val in conds:
            visit(c, val)
        return fixed

    def determined(self, f, i, conds):
        """Is parameter i of the request fixed to one value by the path condition?  Either the
        parameter itself (its identity) is equated with a constant, or every component that the
        interface's own operator== for its type compares is (completeness of that operator== is C04's
        obligation)."""
        fixed = self.fixed_terms(conds)
        pq = ('param', i)
        if pq in fixed or ('addr', pq) in fixed:
            return True
        # `the spelling is empty`, said with empty(): one character sequence of length 0 (C03)
        for c, val in conds:
            if val and isinstance(c, tuple) and len(c) >= 4 and c[0] in ('call', 'vcall') and contracts.fn_simple(c[1]) == 'empty' and not c[3]:
                x = c[2]
                while isinstance(x, tuple) and x and x[0] in ('call', 'vcall') and x != pq:
                    nm = contracts.fn_simple(x[1])
                    if nm == 'characters':
                        x = x[2]
                    elif nm in ('intern', 'get_string') and len(x[3]) == 1:
                        x = x[3][0]
                    else:
                        break
                if x == pq:
                    return True
        # the empty spelling: strings are unified by content (C03) and there is one character sequence of
        # length 0, so `size() == 0` on the parameter's characters fixes a String / word parameter
        for t in fixed:
            # the String interned for the parameter is identified with a constant String: one content (C03)
            x = t
            while isinstance(x, tuple) and x and x[0] in ('addr', 'castto'):
                x = x[1] if x[0] == 'addr' else x[2]
            if isinstance(x, tuple) and x and x[0] in ('call', 'vcall') and contracts.fn_simple(x[1]) in ('intern', 'get_string') \
                    and len(x[3]) == 1 and x[3][0] == pq:
                return True
        for t in fixed:
            x, through = t, []
            while isinstance(x, tuple) and x and x[0] in ('call', 'vcall') and x != pq:
                name = contracts.fn_simple(x[1])
                through.append(name)
                if name in ('size', 'length', 'characters'):
                    x = x[2]
                elif name in ('intern', 'get_string') and len(x[3]) == 1:
                    x = x[3][0]
                else:
                    break
            v = fixed[t]
            if x == pq and through and through[0] in ('size', 'length') and isinstance(v, tuple) and v[0] == 'k' and v[1] == 0:
                return True
        comps = self.eq_components(f['params'][i]['t'])
        if comps is None:
            return False

        def subst(t):
            if not isinstance(t, tuple):
                return t
            if t == ('param', 9998):
                return pq
            return tuple(subst(x) for x in t)
        return bool(comps) and all(subst(c) in fixed for c in comps)

    def eq_components(self, ptype):
        """The projections (terms over ('param', 9998)) that the interface's own operator== of a value type compares, or None
        when the type has no such operator (a node: identity)."""
        t = ptype.replace('const ', '').replace('&', '').strip()
        opeq = f'{t}::operator==(const {t} &) const'
        if opeq not in self.F.fn:
            return None
        key = (opeq,)
        if key not in self.atom_cache:
            X = ('param', 9999)
            try:
                outs = self.S.run(opeq, this=('param', 9998), args=[X])
            except Unsupported as e:
                raise AnalysisBroken(f'{opeq}: outside the evaluator language: {e}')
            comps = []
            shape_ok = [len(outs) == 1 and outs[0][1] == 'return']

            def split(c):
                if c[0] == 'op' and c[1] == '&&':
                    split(c[2]); split(c[3])
                elif c[0] == 'op' and c[1] == '==':
                    for side in (c[2], c[3]):
                        ps = params_in(side)
                        if ps == {9998}:
                            comps.append(side)
                        elif ps != {9999}:
                            shape_ok[0] = False
                else:                             # (a constant conjunct compares nothing: the operator fixes nothing)
                    shape_ok[0] = False
            if shape_ok[0]:
                split(outs[0][2])
            if not shape_ok[0]:
                comps = []                        # not a conjunction of component equalities: fixes nothing
            self.atom_cache[key] = comps
        return self.atom_cache[key]

    def guard_paths(self, f, runs):
        """(guard) on every returning path of the request that consults a table, a parameter that occurs in
        no key (nor in the comparator's captured state) of that path is fixed to one value by the path
        condition; otherwise two requests differing only in that parameter share a node."""
        F, ck = self.F, self.ck
        n = len(f['params'])
        sig = '(' + ', '.join(contracts.short(p['t']) for p in f['params']) + ')'
        seen = {}
        for st, kind, _v in runs:
            if kind != 'return':
                continue
            ops = [e for e in st.effects if e[0] in ('tree_insert', 'chain_insert')]
            if not ops:
                # a path that answers with one process-wide constant: every parameter must be fixed by the path condition
                # (the constant stands for exactly one request)
                v = _v
                while isinstance(v, tuple) and v and v[0] in ('addr', 'deref', 'castto'):
                    v = v[2] if v[0] == 'castto' else v[1]
                if isinstance(v, tuple) and v and v[0] == 'global':
                    missing = [i for i in range(n) if not self.determined(f, i, st.conds)]
                    seen.setdefault('the constant ' + contracts.short(str(v[1])), []).extend(missing)
                elif isinstance(v, tuple) and len(v) >= 4 and v[0] == 'call' and contracts.fn_simple(v[1]).startswith('get_') \
                        and not contracts.fn_qname(v[1]).endswith('::get_qualified'):
                    # a request answered by another request (re-entry summarised by the evaluator): every parameter is handed on
                    # whole, or fixed by the path condition -- a parameter handed on as a projection (its main variant, its
                    # linkage) makes requests that differ in the rest of it one request.  get_qualified is the documented
                    # normal form and judged by the merge rule.
                    missing = [i for i in range(n) if not any(determines(a, i) for a in v[3]) and not self.determined(f, i, st.conds)]
                    seen.setdefault('the request ' + contracts.short(contracts.fn_qname(v[1])) + '(...)', []).extend(missing)
                continue
            used = set()
            for e in ops:
                used |= params_reach(e[2], st)
                used |= params_reach(e[3], st)
            tabs = '+'.join(self.table_name(e[1], st) for e in ops)
            missing = [i for i in range(n) if i not in used and not self.determined(f, i, st.conds)]
            seen.setdefault(tabs, []).extend(missing)
        for tabs, missing in sorted(seen.items()):
            inst = contracts.short(contracts.fn_qname(f['id'])) + sig + ' -> ' + tabs
            missing = sorted(set(missing))
            ck.check(self.R_guard, inst, not missing,
                     f'on a path of {f["id"]} that yields {"" if tabs.startswith(("the constant", "the request")) else "an element of "}{tabs}, parameter(s) '
                     f'{[f["params"][i]["name"] or i for i in missing]} occur in no key of that path and the path '
                     f'condition does not fix them to one value: requests differing only there share a node',
                     loc=f['loc'], fn=f['id'])

    def finish_cover(self):
        self.finish_orders()
        for fid, fc in sorted(self.fn_cover.items()):
            f = fc['f']
            missing = [i for i in range(fc['n']) if i not in fc['covered']]
            inst = contracts.short(contracts.fn_qname(fid)) + '(' + ', '.join(contracts.short(p['t']) for p in f['params']) + ')'
            self.ck.check(self.R_cover, inst, not missing,
                          f'parameter(s) {[f["params"][i]["name"] or i for i in missing]} of {fid} take no part in any key '
                          f'comparison of the tables it consults ({", ".join(sorted(set(fc["tables"])))})',
                          loc=f['loc'], fn=fid, detail={'compared': fc['samples'][:6]})

    def finish_partial(self, allow=()):
        """A parameter that enters the keys only through a projection (its linkage, its type, ...) does not tell apart
        requests that differ in the rest of it."""
        for fid, fc in sorted(self.fn_cover.items()):
            f = fc['f']
            for p, how_terms in sorted((fc.get('partial') or {}).items()):
                if p in fc.get('full', set()):
                    continue
                how = {h for h, _t in how_terms}
                # a value parameter is determined jointly by the projections its own operator== compares
                comps = self.eq_components(f['params'][p]['t'])
                if comps:
                    def subst(t, pq=('param', p + Q)):
                        if not isinstance(t, tuple):
                            return t
                        if t == ('param', 9998):
                            return pq
                        return tuple(subst(x) for x in t)

                    def contains(t, c):
                        return t == c or (isinstance(t, tuple) and any(contains(x, c) for x in t))
                    def core(c):
                        # identity of a String and its characters determine each other (C03): compare the designated object
                        while isinstance(c, tuple) and c and c[0] in ('addr', 'castto'):
                            c = c[1] if c[0] == 'addr' else c[2]
                        return c
                    if all(any(contains(t, core(subst(c))) for _h, t in how_terms) for c in comps):
                        continue
                inst = contracts.short(contracts.fn_qname(fid)) + '(' + ', '.join(contracts.short(q['t']) for q in f['params']) + ')/' + str(f['params'][p]['name'] or p)
                why = [e_[2] for e_ in tuple(allow) + NORMAL_FORMS if fid.startswith(e_[0]) and e_[1] == p
                       and (len(e_) < 4 or union_with_operand_set(self.F, f, p, how_terms))]
                if why:
                    self.ck.note(f'{inst}: keyed through {sorted(how)} by design: {why[0]}')
                    continue
                self.ck.fail(self.R_cover, inst, f'parameter `{f["params"][p]["name"] or p}` of {fid} enters the key comparisons only through '
                             f'{sorted(how)}: requests that differ in the rest of it are given the same node', loc=f['loc'], fn=fid)

    @staticmethod
    def seq_of(pair):
        """The sequence a (begin, end) iterator pair ranges over, if it is the whole sequence."""
        try:
            b, e = pair
            fb, fe = dict(b[2]), dict(e[2])
            if b[0] != 'val' or e[0] != 'val' or len(fb) != 2 or set(fb) != set(fe):
                return None
            # an iterator is (sequence pointer, index): told apart by their values, not by the members' names
            ks = sorted(fb, key=lambda k: 0 if (isinstance(fb[k], tuple) and fb[k][0] == 'k') else 1)
            fi, fs = ks[0], ks[1]
            if fb[fs] != fe[fs] or fb[fi] != ('k', 0, 'int'):
                return None
            idx = fe[fi]
            if not (isinstance(idx, tuple) and idx[0] in ('call', 'vcall') and 'size()' in idx[1]):
                return None
            seq = fb[fs]
            recv = idx[2]
            # the size must be taken from the same sequence (possibly seen through its private base)
            if ('addr', recv) != seq and params_in(recv) != params_in(seq):
                return None
            return seq
        except Exception:
            return None

    def norm(self, t, st, _d=0):
        """Normalise a term: resolve abstract objects that are plain copies, erase address-of pairs."""
        if not isinstance(t, tuple):
            return t
        if t and t[0] == 'obj' and t[1] in st.heap:
            o = st.heap[t[1]]
            if o.origin and o.origin[0] == 'copy':
                return self.norm(o.origin[1], st)
            if o.origin and o.origin[0] in ('ctor', 'aggregate') and _d < 6:
                # a temporary value object (iterator, Rep, Optional...): compare by value
                return ('val', o.cls, tuple((n, self.norm(v, st, _d + 1)) for n, v in sorted(o.fields.items())))
            return t
        return tuple(self.norm(x, st, _d) for x in t)
