"""Fact extraction, caching and indexing for the ipr static verification framework.

Facts always come from /repo's *current* working tree: the cache key is a hash of
every analysed source byte, the scanner binary and the flags, so any edit to
/repo forces a re-scan.  Nothing is ever read from a stored copy of the sources.
"""
import fcntl
import hashlib
import json
import os
import pickle
import re
import shutil
import subprocess
import sys
import tempfile
import time

VERIF = os.path.dirname(os.path.dirname(os.path.abspath(__file__)))
REPO = os.environ.get('IPR_REPO', '/repo')
SCANNER = os.path.join(VERIF, 'bin', 'iprscan')
CACHE = os.environ.get('VERIF_CACHE_DIR') or os.path.join(VERIF, '.cache')
RESOURCE_DIR = '/usr/lib/llvm-14/lib/clang/14.0.6'


class AnalysisBroken(Exception):
    """The analysis cannot give a verdict (exit 2): never a pass, never a violation."""


def library_units(repo=None):
    """Library translation units, as the build sees them (add_library in CMakeLists.txt)."""
    repo = repo or REPO
    cm = os.path.join(repo, 'CMakeLists.txt')
    try:
        text = open(cm, encoding='utf-8', errors='replace').read()
    except OSError as e:
        raise AnalysisBroken(f'cannot read {cm}: {e}')
    m = re.search(r'add_library\s*\(\s*\$\{PROJECT_NAME\}(.*?)\)', text, re.S)
    if not m:
        raise AnalysisBroken('add_library(${PROJECT_NAME} ...) not found in CMakeLists.txt')
    units = re.findall(r'(src/[\w\-./]+\.cxx)', m.group(1))
    if not units:
        raise AnalysisBroken('no library sources listed in add_library')
    return [os.path.join(repo, u) for u in units]


def flags(repo=None):
    repo = repo or REPO
    return ['-std=c++20', '-DNDEBUG', f'-I{repo}/include', '-resource-dir', RESOURCE_DIR,
            '-Wno-everything', '-UIPR_VERIF']


def source_files(repo=None):
    repo = repo or REPO
    out = [os.path.join(repo, 'CMakeLists.txt')]
    for d in ('include/ipr', 'src'):
        p = os.path.join(repo, d)
        for root, _dirs, files in os.walk(p):
            for f in sorted(files):
                out.append(os.path.join(root, f))
    return sorted(out)


def tree_hash(repo=None, extra=()):
    h = hashlib.sha256()
    repo = repo or REPO
    for f in source_files(repo):
        h.update(os.path.relpath(f, repo).encode())
        try:
            h.update(open(f, 'rb').read())
        except OSError:
            h.update(b'<unreadable>')
    try:
        h.update(open(SCANNER, 'rb').read())
    except OSError:
        raise AnalysisBroken(f'scanner binary {SCANNER} missing: run ./tools/build.sh (MANIFEST.setup_cmd)')
    h.update(' '.join(flags(repo)).replace(repo, '<repo>').encode())
    h.update(open(os.path.abspath(__file__), 'rb').read())
    for e in extra:
        h.update(str(e).encode())
    return h.hexdigest()[:24]


def probe_source(repo=None):
    """A generated unit that includes every public header and explicitly instantiates the templates the
    library itself does not (set algebra on both carriers, util::view<K> for every interface class K,
    the Sequence implementations), so that their bodies can be analysed too.  Generated from the current
    tree on every scan; lives in a scratch directory only."""
    repo = repo or REPO
    inc = os.path.join(repo, 'include', 'ipr')
    try:
        cats = open(os.path.join(inc, 'node-category'), encoding='utf-8', errors='replace').read()
        iface = open(os.path.join(inc, 'interface'), encoding='utf-8', errors='replace').read()
    except OSError as e:
        raise AnalysisBroken(f'cannot read interface headers: {e}')
    names = re.findall(r'^\s*([A-Za-z_][A-Za-z_0-9]*)\s*,', cats, re.M)
    classes = [n for n in names if re.search(r'\bstruct\s+' + n + r'\s*:', iface)]
    lines = ['#include <ipr/impl>', '#include <ipr/io>', '#include <ipr/traversal>', 'namespace ipr {']
    # the setters of the declaration classes are member functions of a class template that the library itself never calls
    lines.append('   namespace impl {')
    lines.append('      inline void probe_decl_setters(impl::Var& v, impl::Field& f, impl::Fundecl& g, ipr::Specifiers s)')
    lines.append('      { v.specifiers(s); f.specifiers(s); g.specifiers(s); }')
    lines.append('   }')
    # (instantiated by use, on named objects, not by explicit instantiation: whatever parameter passing the operators declare, a
    #  call on two variables selects them, and the rule sees the signature as it is)
    for T in ('Specifiers', 'Qualifiers'):
        lines.append(f'   inline bool probe_set_algebra_{T}({T} a, {T} b)')
        lines.append('   {')
        for op in ('|', '&', '^'):
            lines.append(f'      {T} r{"oax"["|&^".index(op)]} = a {op} b;')
            lines.append(f'      {T} c{"oax"["|&^".index(op)]} = a; c{"oax"["|&^".index(op)]} {op}= b;')
        lines.append('      return implies(a, b) and ro == co and ra == ca and rx == cx;')
        lines.append('   }')
    lines.append('   namespace util {')
    for c in classes:
        lines.append(f'      template const ipr::{c}* view<ipr::{c}>(const ipr::Node&);')
    lines.append('   }')
    lines.append('}')
    for t in ('ipr::impl::ref_sequence<ipr::Expr>', 'ipr::impl::empty_sequence<ipr::Handler>',
              'ipr::impl::singleton_ref<ipr::Decl>', 'ipr::Sequence<ipr::Expr>',
              'ipr::impl::obj_sequence<ipr::impl::Enumerator>', 'ipr::impl::obj_list<ipr::impl::Token>',
              'ipr::Optional<ipr::Expr>', 'ipr::util::ref<const ipr::Expr>'):
        lines.append(f'template struct {t};')
    # the ordered-set utility with a comparator whose result is a comparison category (`<=>`), not an int: the library's own
    # comparators all return int, so a branch of the utility that depends on the result type would otherwise never be seen
    lines3 = ['#include <ipr/impl>', '#include <compare>',
              'namespace ipr_probe {',
              '   inline std::strong_ordering by_address(const void* a, const void* b) { return std::compare_three_way{ }(a, b); }',
              '   struct Cmp3 { std::strong_ordering operator()(const ipr::impl::Overload& a, const ipr::Name& b) const { return by_address(&a, &b); } };',
              '   struct LinkCmp3 {',
              '      std::strong_ordering operator()(const ipr::impl::overload_entry& a, const ipr::impl::overload_entry& b) const { return by_address(&a, &b); }',
              '      std::strong_ordering operator()(const ipr::impl::overload_entry& a, const ipr::Type& b) const { return by_address(&a, &b); }',
              '   };',
              '   inline const void* touch(ipr::util::rb_tree::container<ipr::impl::Overload>& c, ipr::util::rb_tree::chain<ipr::impl::overload_entry>& l,',
              '                            ipr::impl::overload_entry& n, const ipr::Name& nm, const ipr::Type& t)',
              '   { l.insert(&n, LinkCmp3{ }); c.insert(nm, Cmp3{ }); return c.find(nm, Cmp3{ }) ? static_cast<const void*>(l.find(t, LinkCmp3{ })) : nullptr; }',
              '}']
    probe_source.three_way = '\n'.join(lines3) + '\n'
    return '\n'.join(lines) + '\n', classes


def _scan_unit(unit, out, repo):
    cmd = [SCANNER, f'--root={repo}', f'--out={out}', unit, '--'] + flags(repo)
    p = subprocess.run(cmd, stdout=subprocess.PIPE, stderr=subprocess.PIPE, text=True)
    return p.returncode, p.stderr


_IR_RE = re.compile(r'^(@[^ ]+|@"[^"]+")\s*=\s*(.*)$')


def _ir_globals(path):
    """Global variable definitions/declarations of an LLVM IR file: name, writable?, external?, tls?"""
    out = []
    names = []
    with open(path, errors='replace') as fh:
        for line in fh:
            if not line.startswith('@'):
                continue
            m = _IR_RE.match(line)
            if not m:
                continue
            name, rest = m.group(1), m.group(2)
            toks = rest.split()
            kind = None
            for t in toks[:12]:
                if t in ('global', 'constant', 'alias', 'ifunc'):
                    kind = t
                    break
            if kind in (None, 'alias', 'ifunc'):
                continue
            pre = toks[:toks.index(kind)]
            out.append({'name': name.strip('@').strip('"'), 'kind': kind, 'external': 'external' in pre or 'extern_weak' in pre,
                        'tls': any(t.startswith('thread_local') for t in pre), 'linkage': ' '.join(pre)})
    # demangle the non-constant ones
    wr = [g for g in out if g['kind'] == 'global']
    if wr:
        try:
            p = subprocess.run(['llvm-cxxfilt-14'] + [g['name'] for g in wr], stdout=subprocess.PIPE, text=True)
            for g, d in zip(wr, p.stdout.splitlines()):
                g['demangled'] = d.strip()
        except OSError:
            pass
    return {'writable': wr, 'constants': sum(1 for g in out if g['kind'] == 'constant'), 'total': len(out)}


def _merge(per_unit):
    merged = {'records': {}, 'functions': {}, 'globals': {}, 'enums': {}, 'constructs': {}, 'units': []}
    for unit, d in per_unit:
        merged['units'].append({'unit': unit,
                                'functions': len(d['functions']), 'records': len(d['records'])})
        for r in d['records']:
            merged['records'].setdefault(r['name'], r)
        for f in d['functions']:
            f['unit'] = os.path.basename(unit)
            merged['functions'].setdefault(f['id'], f)
        for g in d['globals']:
            g['unit'] = os.path.basename(unit)
            key = g['q'] + '@' + g['loc']
            # a namespace-scope constant defined in a header is one object per unit; keep one record
            # but remember every unit that defines it
            if key in merged['globals']:
                merged['globals'][key].setdefault('units', []).append(g['unit'])
            else:
                g['units'] = [g['unit']]
                merged['globals'][key] = g
        for e in d['enums']:
            merged['enums'].setdefault(e['name'], e)
        for c in d['constructs']:
            merged['constructs'].setdefault(c['fn'], c)
    return merged


def scan(repo=None, units=None, verbose=True, with_probe=True, with_ir=True):
    """Scan the given units (default: the library) and return merged raw facts."""
    repo = repo or REPO
    units = units or library_units(repo)
    for u in units:
        if not os.path.exists(u):
            raise AnalysisBroken(f'translation unit {u} listed by the build does not exist')
    srcs = sorted(os.path.join(repo, 'src', f) for f in os.listdir(os.path.join(repo, 'src')) if f.endswith('.cxx'))
    extra = [u for u in srcs if u not in units]
    if extra:
        raise AnalysisBroken(f'source file(s) {extra} under src/ are not part of the library target in CMakeLists.txt: '
                             'the analysis would not cover them')
    tmp = tempfile.mkdtemp(prefix='iprscan-')
    try:
        procs = []
        if with_probe:
            src, _classes = probe_source(repo)
            pu = os.path.join(tmp, 'probe.cxx')
            with open(pu, 'w') as fh:
                fh.write(src)
            units = list(units) + [pu]
            # a second, optional probe: the tree utility with comparators whose result is a comparison category.  A tree in which
            # the utility no longer accepts such a comparator (it stores the result in an int, it switches on it) does not compile
            # this unit; that is recorded, not an analysis failure
            pu3 = os.path.join(tmp, 'probe3.cxx')
            with open(pu3, 'w') as fh:
                fh.write(probe_source.three_way)
            units.append(pu3)
        for u in units:
            out = os.path.join(tmp, os.path.basename(u) + '.json')
            cmd = [SCANNER, f'--root={repo}', f'--out={out}', u, '--'] + flags(repo)
            procs.append((u, out, subprocess.Popen(cmd, stdout=subprocess.PIPE, stderr=subprocess.PIPE, text=True)))
        # E7: LLVM IR of the library units (globals only are read)
        irprocs = []
        if with_ir:
            for u in units:
                if os.path.basename(u) in ('probe.cxx', 'probe3.cxx'):
                    continue
                ll = os.path.join(tmp, os.path.basename(u) + '.ll')
                cmd = ['clang++', '-O0', '-S', '-emit-llvm', '-o', ll, u] + [x for x in flags(repo) if x != '-resource-dir' and x != RESOURCE_DIR]
                irprocs.append((u, ll, subprocess.Popen(cmd, stdout=subprocess.PIPE, stderr=subprocess.PIPE, text=True)))
        per_unit = []
        probe3_error = None
        for u, out, p in procs:
            _o, err = p.communicate()
            if (p.returncode != 0 or not os.path.exists(out)) and os.path.basename(u) == 'probe3.cxx':
                probe3_error = err[-1500:]
                continue
            if p.returncode != 0 or not os.path.exists(out):
                raise AnalysisBroken(f'unit {u} failed to parse with clang 14:\n{err[-3000:]}')
            with open(out) as fh:
                per_unit.append((u.replace('probe3.cxx', 'probe.cxx'), json.load(fh)))
        merged = _merge(per_unit)
        merged['probe3_error'] = probe3_error
        merged['ir'] = {}
        for u, ll, p in irprocs:
            _o, err = p.communicate()
            if p.returncode != 0 or not os.path.exists(ll):
                raise AnalysisBroken(f'unit {u} failed to compile to LLVM IR:\n{err[-2000:]}')
            merged['ir'][os.path.basename(u)] = _ir_globals(ll)
        return merged
    finally:
        shutil.rmtree(tmp, ignore_errors=True)


def load(repo=None, verbose=True):
    """Return a Facts object for the current tree (cached by content hash)."""
    repo = repo or REPO
    os.makedirs(CACHE, exist_ok=True)
    key = tree_hash(repo)
    path = os.path.join(CACHE, f'facts-{key}.pickle')
    lock = open(os.path.join(CACHE, 'lock'), 'w')
    t0 = time.time()
    fcntl.flock(lock, fcntl.LOCK_EX)
    try:
        if os.path.exists(path):
            try:
                with open(path, 'rb') as fh:
                    raw = pickle.load(fh)
                return Facts(raw, repo, key, cached=True, scan_s=0.0)
            except Exception:
                os.unlink(path)
        raw = scan(repo)
        tmp = path + '.tmp'
        with open(tmp, 'wb') as fh:
            pickle.dump(raw, fh, protocol=pickle.HIGHEST_PROTOCOL)
        os.replace(tmp, path)
        # keep the cache small: only the 4 most recent fact files
        ents = sorted((e for e in os.listdir(CACHE) if e.startswith('facts-')),
                      key=lambda e: os.path.getmtime(os.path.join(CACHE, e)))
        for e in ents[:-4]:
            try:
                os.unlink(os.path.join(CACHE, e))
            except OSError:
                pass
        return Facts(raw, repo, key, cached=False, scan_s=time.time() - t0)
    finally:
        fcntl.flock(lock, fcntl.LOCK_UN)
        lock.close()


class Facts:
    def __init__(self, raw, repo, key, cached=False, scan_s=0.0):
        self.raw = raw
        self.repo = repo
        self.key = key
        self.cached = cached
        self.scan_s = scan_s
        self.fn = raw['functions']
        self.rec = raw['records']
        self.globals = list(raw['globals'].values())
        # a constant table declared as std::array<T, N> is read by the rules like the built-in array T[N] it wraps: the type is
        # rewritten, and the extra pair of braces of its initialiser (the aggregate around the array) removed
        import re as _re
        for g in self.globals:
            m = _re.match(r'^(const )?std::array<(.*), (\d+)>$', (g.get('t') or '').strip())
            if m and not g.get('std_array'):
                g['std_array'] = True
                g['t_declared'] = g['t']
                g['t'] = f'{m.group(1) or ""}{m.group(2)}[{m.group(3)}]'
                init = g.get('init')
                if isinstance(init, dict) and init.get('k') == 'initlist' and len(init.get('elts', [])) == 1 \
                        and isinstance(init['elts'][0], dict) and init['elts'][0].get('k') == 'initlist':
                    g['init'] = init['elts'][0]
        self.enums = raw['enums']
        self.constructs = raw['constructs']
        self.units = raw['units']
        self.ir = raw.get('ir', {})
        self.probe3_error = raw.get('probe3_error')
        self._by_q = None
        self._subs = None
        self._anc = {}
        self._fo = {}

    # -- functions --------------------------------------------------------
    def fns_by_q(self, q):
        if self._by_q is None:
            self._by_q = {}
            for f in self.fn.values():
                self._by_q.setdefault(f['q'], []).append(f)
        return self._by_q.get(q, [])

    def fns_in(self, parent):
        return [f for f in self.fn.values() if f.get('parent') == parent]

    def intern_fn(self):
        """string_pool::intern, whatever further (defaulted) parameters it has grown: the one member of that name taking the word."""
        c = [f for f in self.fn.values() if f['name'] == 'intern' and f.get('parent') == 'ipr::util::string_pool' and f.get('body')
             and f['params'] and 'basic_string_view' in f['params'][0]['t']]
        if len(c) != 1:
            raise AnalysisBroken(f'anchor function vanished: string_pool::intern(word_view ...) ({len(c)} candidates)')
        return c[0]

    def need_fn(self, fid):
        f = self.fn.get(fid)
        if f is None:
            raise AnalysisBroken(f'anchor function vanished: {fid}')
        return f

    def need_rec(self, name):
        r = self.rec.get(name)
        if r is None:
            raise AnalysisBroken(f'anchor class vanished: {name}')
        return r

    # -- class hierarchy --------------------------------------------------
    def bases(self, name):
        r = self.rec.get(name)
        return [b['name'] for b in r['bases']] if r else []

    def ancestors(self, name):
        """All (transitive) base class names, nearest first (BFS)."""
        if name in self._anc:
            return self._anc[name]
        out, seen, q = [], set(), list(self.bases(name))
        while q:
            b = q.pop(0)
            if b in seen:
                continue
            seen.add(b)
            out.append(b)
            q.extend(self.bases(b))
        self._anc[name] = out
        return out

    def derives_from(self, name, base):
        return name == base or base in self.ancestors(name)

    def subclasses(self, base):
        if self._subs is None:
            self._subs = {}
            for n in self.rec:
                for a in self.ancestors(n):
                    self._subs.setdefault(a, []).append(n)
        return self._subs.get(base, [])

    def final_overrider(self, cls, method_id):
        """Id of the final overrider of virtual method `method_id` in class `cls` (or None)."""
        key = (cls, method_id)
        if key in self._fo:
            return self._fo[key]
        r = self.rec.get(cls)
        res = None
        if r:
            for e in r.get('final_overriders', []):
                if e['method'] == method_id:
                    res = e['overrider']
                    break
        self._fo[key] = res
        return res

    def final_overrider_by_name(self, cls, name, nparams=None):
        """Final overriders in `cls` of virtual methods called `name` (distinct overrider ids)."""
        r = self.rec.get(cls)
        out = []
        if r:
            for e in r.get('final_overriders', []):
                if e['name'] == name and e['overrider'] not in out:
                    out.append(e['overrider'])
        return out

    def method(self, cls, name):
        r = self.rec.get(cls)
        if not r:
            return []
        return [m for m in r['methods'] if m['name'] == name]

    def field(self, cls, name):
        """Field record, searching cls and its bases."""
        for c in [cls] + self.ancestors(cls):
            r = self.rec.get(c)
            if r:
                for f in r['fields']:
                    if f['name'] == name:
                        return c, f
        return None, None

    def role_field(self, cls, pred, role, inherited=False):
        """Name of the one data member of cls whose record satisfies pred: private members are found by what they
        are (their type), never by what they happen to be called."""
        r = self.need_rec(cls)
        fields = list(r['fields'])
        if inherited:
            for a in self.ancestors(cls):
                fields += self.rec.get(a, {}).get('fields', [])
        hits = [fl['name'] for fl in fields if pred(fl)]
        if len(hits) != 1:
            raise AnalysisBroken(f'{cls}: {len(hits)} data members play the role `{role}` ({hits}); exactly one expected')
        return hits[0]

    def loc(self, obj):
        return obj.get('loc', '?')


# -- tiny helpers over the structured bodies ---------------------------------

def walk(node):
    """Yield every dict node of a body tree (pre-order)."""
    if isinstance(node, dict):
        yield node
        for v in node.values():
            if isinstance(v, (dict, list)):
                yield from walk(v)
    elif isinstance(node, list):
        for v in node:
            yield from walk(v)


def calls(node):
    for n in walk(node):
        if n.get('k') in ('call', 'ctor'):
            yield n


def category_of(F, cls):
    """(enumerator name, value) of the category code a concrete node class is stamped with: the Category<Category_code::X, S>
    base among its ancestors (C06 proves that this is what Node::category holds), or None."""
    for a in [cls] + F.ancestors(cls):
        r = F.rec.get(a)
        if r and r.get('template') == 'ipr::Category' and r.get('targs'):
            name = r['targs'][0].split('::')[-1]
            en = F.enums.get('ipr::Category_code')
            if en:
                for e in en['enumerators']:
                    if e['name'] == name:
                        return name, int(e['value'])
    return None


def strip_casts(e):
    """Erase implicit/explicit casts that do not change the designated object."""
    while isinstance(e, dict) and e.get('k') == 'cast' and e.get('ck') in (
            'DerivedToBase', 'UncheckedDerivedToBase', 'NoOp', 'LValueToRValue', 'BaseToDerived'):
        e = e['e']
    return e


def unwrap(e):
    """strip_casts plus copy/move constructions of one argument (pass-by-value of a class object)."""
    while True:
        e = strip_casts(e)
        if isinstance(e, dict) and e.get('k') == 'ctor' and e.get('copy') and len(e.get('args', [])) == 1:
            e = e['args'][0]
            continue
        return e


def stmts(body):
    """Top-level statement list of a function body."""
    if body is None:
        return []
    if body.get('k') == 'compound':
        return body['b']
    return [body]


def local_init(fn, ref):
    """The initialiser of the local variable a `ref` node names, when that variable is never assigned after its declaration
    (const or not); None otherwise."""
    ref = strip_casts(ref or {})
    if ref.get('k') != 'ref' or ref.get('kind') != 'local':
        return None
    init = None
    for n in walk(fn.get('body')):
        if n.get('k') == 'decl':
            for v in n.get('vars', []):
                if v.get('id') == ref.get('id') and v.get('name') == ref.get('name'):
                    init = v.get('init')
        tgt = None
        if n.get('k') == 'binop' and n.get('op') in ('=', '+=', '-=', '*=', '/=', '|=', '&=', '^=', '<<=', '>>=', '%='):
            tgt = strip_casts(n.get('l') or {})
        elif n.get('k') == 'unop' and ('++' in n.get('op', '') or '--' in n.get('op', '')):
            tgt = strip_casts(n.get('e') or {})
        if tgt and tgt.get('k') == 'ref' and tgt.get('kind') == 'local' and tgt.get('id') == ref.get('id') and tgt.get('name') == ref.get('name'):
            return None
    return init


def through_locals(fn, e, depth=0):
    """`e` with a reference to a never-reassigned local replaced by that local's initialiser (repeatedly)."""
    while depth < 6:
        i = local_init(fn, e)
        if i is None:
            return e
        e, depth = i, depth + 1
    return e
