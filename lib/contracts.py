"""Factory contracts: what every factory-built node reports, as terms over the factory's parameters.

contract(factory) = { path-condition -> { accessor -> outcome } } where the accessors are all public,
const, parameterless member functions of the returned object's class and of every interface class it
implements (virtual ones resolved to their final overrider in the *dynamic* class of the object that the
symbolic evaluation of the factory body constructed).
"""
import symex
from symex import Sym, Unsupported, show
from facts import AnalysisBroken

FACTORY_CLASSES = [
    'ipr::cxx_form::impl::form_factory',
    'ipr::impl::attr_factory',
    'ipr::impl::capture_spec_factory',
    'ipr::impl::type_factory',
    'ipr::impl::name_factory',
    'ipr::impl::expr_factory',
    'ipr::impl::dir_factory',
    'ipr::impl::stmt_factory',
    'ipr::impl::Lexicon',
]

DEFAULT_OPAQUE_NAMES = ('known_word', 'word_if_known', 'internal_string')
DEFAULT_OPAQUE_IDS = ('ipr::util::string::arena::make_string(const char8_t *, long)',
                      'ipr::util::string_pool::intern(std::basic_string_view<char8_t, std::char_traits<char8_t>>)')

SKIP_ACCESSORS = {'accept', 'begin', 'end'}


_ROOTS = {}


def set_facts(F):
    """Remember, for rendering, which declaration every virtual member function ultimately overrides."""
    if _ROOTS.get('__key__') == F.key:
        return
    _ROOTS.clear()
    _ROOTS['__key__'] = F.key
    direct = {}
    for r in F.rec.values():
        for m in r.get('methods', []):
            if m.get('overrides'):
                direct[m['id']] = m['overrides'][0]
    for fid in direct:
        cur, n = fid, 0
        while cur in direct and n < 12:
            cur, n = direct[cur], n + 1
        _ROOTS[fid] = cur


def holder_field(o):
    """The single data member of an Optional<T> / util::ref<T> object (whatever it is called)."""
    ks = list(o.fields)
    return ks[0] if len(ks) == 1 else 'ptr'


# the containers behind every node sequence: what they answer for size() / get(i) is an observation of the container,
# named by the call -- however the member function computes it (std::distance, a counting loop, vector::size)
SEQUENCE_STORES = ('ipr::impl::obj_list', 'ipr::impl::obj_sequence', 'ipr::impl::ref_sequence')


def default_opaque(F):
    set_facts(F)

    def op(fid):
        f = F.fn.get(fid)
        if f is None:
            return True
        if f['name'] in DEFAULT_OPAQUE_NAMES:
            return True
        if fid in DEFAULT_OPAQUE_IDS or (f['name'] == 'intern' and f.get('parent') == 'ipr::util::string_pool'):
            return True
        if f['name'] in ('size', 'get') and fid.endswith(' const') and \
                (F.rec.get(f.get('parent') or '', {}).get('template') in SEQUENCE_STORES):
            return True
        return False
    return op


def is_factory_method(F, f):
    if f.get('ctor') or f.get('dtor') or f.get('static'):
        return False
    n = f['name']
    if n.startswith('operator'):
        return False
    ret = f.get('ret', '')
    if not (ret.endswith('*') or ret.endswith('&')):
        return False
    return True


def factories(F, classes=None):
    out = []
    for c in classes or FACTORY_CLASSES:
        F.need_rec(c)
        for f in F.fns_in(c):
            if is_factory_method(F, f):
                out.append(f)
    return sorted(out, key=lambda f: f['id'])


class Canon:
    """Renaming-proof rendering: sub-objects owned by the result are named by their class (numbered by
    first appearance), members of the factory object by their declared type."""

    def __init__(self, F, this_cls):
        self.F = F
        self.this_cls = this_cls
        self.seen = {}
        self.per_class = {}

    def own(self, oid, cls):
        if oid not in self.seen:
            k = self.per_class.get(cls, 0) + 1
            self.per_class[cls] = k
            self.seen[oid] = f'own:{short(cls)}#{k}'
        return self.seen[oid]

    def this_field(self, name):
        if not self.this_cls:
            return '$this.' + name
        c, fl = self.F.field(self.this_cls, name)
        if fl is None:
            return '$this.' + name
        same = []
        for cc in [self.this_cls] + self.F.ancestors(self.this_cls):
            r = self.F.rec.get(cc)
            if r:
                same.extend(x['name'] for x in r['fields'] if x['t'] == fl['t'])
        ty = short(fl['t'])
        if len(same) > 1:
            return f'$this:{ty}/{name}'
        return f'$this:{ty}'


def canon_names(F, st, root, this_cls):
    """names map for canonical rendering of a contract rooted at `root`."""
    c = Canon(F, this_cls)
    names = {'__canon__': c}
    if root is not None and root[0] == 'obj':
        names[root[1]] = 'R'
        # name owned sub-objects in a deterministic order (sorted field names, breadth first)
        todo = [root[1]]
        visited = {root[1]}
        while todo:
            oid = todo.pop(0)
            o = st.heap.get(oid)
            if o is None:
                continue
            for fn, v in sorted(o.fields.items()):
                tgt = v[1] if isinstance(v, tuple) and v and v[0] == 'addr' else v
                if isinstance(tgt, tuple) and tgt and tgt[0] == 'obj' and tgt[1] in st.heap and tgt[1] not in visited:
                    oo = st.heap[tgt[1]]
                    visited.add(tgt[1])
                    if oo.cls.startswith('ipr::Optional<') or oo.cls.startswith('ipr::util::ref<'):
                        todo.append(tgt[1])
                        continue
                    if isinstance(v, tuple) and v[0] == 'obj':
                        names[tgt[1]] = c.own(tgt[1], oo.cls)      # by-value member
                        todo.append(tgt[1])
    return names


def name_paths(st, root, rootname='R', maxdepth=5):
    """Map oid -> access path from the root object, for readable & stable rendering."""
    names = {}

    def rec(t, path, d):
        if not isinstance(t, tuple):
            return
        if t[0] == 'addr':
            t = t[1]
        if t[0] != 'obj' or t[1] not in st.heap or t[1] in names or d > maxdepth:
            return
        names[t[1]] = path
        for fn, v in sorted(st.heap[t[1]].fields.items()):
            rec(v, path + '.' + fn, d + 1)
    rec(root, rootname, 0)
    return names


def render(t, st, names, _d=0):
    if t is None:
        return 'void'
    if not isinstance(t, tuple):
        return str(t)
    k = t[0]
    R = lambda x: render(x, st, names, _d + 1)
    if _d > 12:
        return '...'
    if k == 'obj':
        o = st.heap.get(t[1])
        if o is None:
            return 'obj?'
        if o.cls.startswith('ipr::Optional<') or o.cls.startswith('ipr::util::ref<'):
            w = 'some' if o.cls.startswith('ipr::Optional<') else 'ref'
            if o.origin and o.origin[0] == 'copy':
                return R(o.origin[1])
            p = o.fields.get(holder_field(o))
            if p is None:
                return w + '(?)'
            if p == symex.NULL:
                return 'absent' if w == 'some' else 'unset'
            if p[0] == 'addr':
                return f'{w}({R(p[1])})'
            return f'{w}(*{R(p)})'
        if t[1] in names:
            return names[t[1]]
        canon = names.get('__canon__')
        if canon is not None and o.origin and o.origin[0] in ('emplace', 'tree', 'new'):
            # a node object allocated during the evaluation but not reachable from the result by fields
            return canon.own(t[1], o.cls)
        cn = o.cls
        if o.origin and o.origin[0] == 'copy':
            return R(o.origin[1])
        if _d > 3:
            return f'{short(cn)}#'
        fs = ', '.join(f'{n}={render(v, st, names, _d + 3)}' for n, v in sorted(o.fields.items()) if n not in ('category', 'id'))
        return f'{short(cn)}{{{fs}}}'
    if k == 'param':
        return f'P{t[1]}'
    if k == 'fld':
        canon = names.get('__canon__')
        if canon is not None and t[1] == ('sym', 'this'):
            return canon.this_field(t[2])
        return f'{R(t[1])}.{t[2]}'
    if k == 'addr':
        return '&' + R(t[1])
    if k == 'deref':
        return '*' + R(t[1])
    if k == 'op':
        return f'({R(t[2])} {t[1]} {R(t[3])})'
    if k == 'un':
        return f'{t[1]}{R(t[2])}'
    if k in ('call', 'vcall'):
        # a virtual member is named by the declaration it ultimately overrides: `seq.size()` reads the same whether the
        # call went through the interface or straight to the final overrider
        fn = short(fn_qname(_ROOTS.get(t[1], t[1])))
        recv = (R(t[2]) + '.') if t[2] is not None else ''
        return f'{recv}{fn}({", ".join(R(a) for a in t[3])})'
    if k == 'list':
        return '[' + ', '.join(R(a) for a in t[1]) + ']'
    if k == 'index':
        return f'{R(t[1])}[{R(t[2])}]'
    if k == 'iter':
        return 'iter(' + R(t[1]) + ')'
    if k == 'narrow':
        return f'narrowed<{short(t[1])}>({R(t[2])})'
    if k == 'castto':
        return R(t[2])
    if k == 'after':
        return f'after{t[1]}(' + R(t[2]) + ')'
    if k == 'elem':
        return 'elem(' + R(t[1]) + ')'
    if k == 'found':
        return 'found(' + R(t[1]) + ', ' + R(t[2]) + ')' + ('' if t[3] is None else '=' + R(t[3]))
    if k == 'noelem':
        return 'noelem(' + R(t[1]) + ')'
    return show(t, st)


from symex import fn_qname, fn_simple  # noqa: E402  (defined next to the evaluator, which needs them too)


def short(q):
    """Drop namespaces for readability, keep template structure."""
    out, tok = [], ''
    for ch in q:
        if ch.isalnum() or ch in '_:~':
            tok += ch
        else:
            if tok:
                out.append(tok.split('::')[-1] if not tok.endswith('::') else tok)
                tok = ''
            out.append(ch)
    if tok:
        out.append(tok.split('::')[-1])
    return ''.join(out)


def accessor_methods(F, cls):
    """name -> function id to evaluate, for public const parameterless members visible on `cls`."""
    chosen = {}
    r0 = F.rec.get(cls)
    if r0 is None:
        return chosen
    for c in [cls] + F.ancestors(cls):
        r = F.rec.get(c)
        if r is None:
            continue
        for m in r['methods']:
            if (m['static'] or not m['const'] or m['params'] or m.get('ctor') or m.get('dtor') or m.get('conv')
                    or m['deleted'] or m['implicit'] or m['access'] != 'public'):
                continue
            n = m['name']
            if n in SKIP_ACCESSORS or n.startswith('operator'):
                continue
            if n in chosen:
                continue
            if m['virtual']:
                fos = F.final_overrider_by_name(cls, n)
                fos = [fo for fo in fos if fo.endswith('() const')]
                if len(fos) == 1:
                    chosen[n] = fos[0]
                elif len(fos) > 1:
                    chosen[n] = ('ambiguous', tuple(fos))
                else:
                    chosen[n] = m['id']
            else:
                chosen[n] = m['id']
    return chosen


def render_conds(conds, st, names):
    return ' && '.join(('' if v else '!') + render(c, st, names) for c, v in conds)


def observe(S, F, st, obj, names, accessor_filter=None):
    """Evaluate every accessor on the abstract object; returns name -> outcome string."""
    cls = st.heap[obj[1]].cls if obj[0] == 'obj' and obj[1] in st.heap else None
    if cls is None:
        return {}
    res = {}
    for name, fid in sorted(accessor_methods(F, cls).items()):
        if accessor_filter and not accessor_filter(name):
            continue
        if isinstance(fid, tuple):
            res[name] = 'ambiguous-overriders'
            continue
        f = F.fn.get(fid)
        if f is None:
            m = None
            res[name] = 'pure-or-undefined'
            continue
        base = len(st.conds)
        try:
            outs = S.run(fid, this=obj, args=[], state=st.fork())
        except Unsupported as e:
            res[name] = f'unsupported({e})'
            continue
        parts = []
        for s2, kind, v in outs:
            cond = render_conds(s2.conds[base:], s2, names)
            if kind == 'throw':
                parts.append(f'throw {short(v)}' + (f' if {cond}' if cond else ''))
            else:
                parts.append(render(v, s2, names) + (f' if {cond}' if cond else ''))
        res[name] = ' | '.join(sorted(set(parts)))
    return res


def factory_contract(F, f, S=None, accessor_filter=None, canonical=False, this=None, args=None, state=None):
    """Contract of one factory: list of {when, result, accessors, effects} (one per path)."""
    S = S or Sym(F, opaque=default_opaque(F), max_depth=48)
    outs = S.run(f['id'], this=this, args=args, state=state)
    paths = []
    for st, kind, v in outs:
        if kind == 'throw':
            nm = canon_names(F, st, None, f.get('parent')) if canonical else {}
            paths.append({'when': render_conds(st.conds, st, nm), 'throws': short(v)})
            continue
        root = v
        if root is not None and root[0] == 'addr':
            root = root[1]
        if canonical:
            names = canon_names(F, st, root, f.get('parent'))
        else:
            names = name_paths(st, root) if root is not None else {}
        entry = {'when': render_conds(st.conds, st, names)}
        if canonical:
            entry['stored_params'] = sorted(reachable_params(st, root))
        if root is not None and root[0] == 'obj' and root[1] in st.heap:
            o = st.heap[root[1]]
            entry['class'] = o.cls
            entry['origin'] = origin_str(o, st, names)
            entry['accessors'] = observe(S, F, st, root, names, accessor_filter)
        else:
            entry['result'] = render(v, st, names)
        paths.append(entry)
    return paths


def reachable_params(st, root):
    """Indices of factory parameters stored anywhere in the object graph reachable from the result."""
    seen, acc = set(), set()

    def rec(t):
        if not isinstance(t, tuple) or not t:
            return
        if t[0] == 'param' and isinstance(t[1], int):
            acc.add(t[1])
            return
        if t[0] == 'obj':
            if t[1] in seen or t[1] not in st.heap:
                return
            seen.add(t[1])
            o = st.heap[t[1]]
            for v in o.fields.values():
                rec(v)
            if o.origin and o.origin[0] == 'copy':
                rec(o.origin[1])
            return
        for x in t:
            rec(x)
    rec(root)
    for c, _v in st.conds:
        rec(c)
    return acc


def origin_str(o, st, names):
    og = o.origin
    if not og:
        return 'unknown'
    if og[0] == 'emplace':
        return f'fresh:{render(og[2], st, names)}'
    if og[0] == 'tree':
        return f'unified:{render(og[1], st, names)}:key={render(og[2], st, names)}'
    if og[0] == 'ctor':
        return 'temporary'
    return og[0]
