"""Run another property's check for the sake of a few of its rules, registered under the borrowing property's name.

A clause of property X is often exactly what a rule of property Y decides (the store of substitutions must be reference-stable:
C05.STORE; a reserved spelling must be found by the table search: C03.reserved-words).  Borrow(ck, 'C05', 'C16', {...}) is handed to
c05.run in place of the checker: the rules named are registered as C16.<rule> (optionally only the instances a predicate selects),
every other rule of the lender is evaluated and dropped."""


class _Rules(dict):
    def __init__(self, real):
        super().__init__()
        self.real = real

    def __getitem__(self, k):
        if k in self.real:
            return self.real[k]
        return {}

    def get(self, k, d=None):
        return self.real.get(k, d)


class Borrow:
    def __init__(self, ck, lender, borrower, keep, only=None, floor=1):
        self.ck, self.lender, self.borrower, self.keep, self.only_inst, self.floor = ck, lender, borrower, dict.fromkeys(keep), only, floor
        self.extra = {}
        self.tier = getattr(ck, 'tier', 'quick')
        self.samples = getattr(ck, 'samples', [])
        self.rules = _Rules(ck.rules)
        self.only = getattr(ck, 'only', None)
        self.explanation = ''
        self.violations = []

    def __getattr__(self, name):
        return getattr(self.ck, name)

    def rule(self, rid, text, floor=0):
        pre, suffix = rid.split('.', 1)
        if suffix in self.keep and pre in (self.lender, self.borrower):
            return self.ck.rule(f'{self.borrower}.{suffix}', text, floor=self.floor)
        return None

    def _sel(self, inst):
        return self.only_inst is None or self.only_inst(inst)

    def check(self, R, inst, *a, **k):
        if R is not None and self._sel(inst):
            self.ck.check(R, inst, *a, **k)

    def fail(self, R, inst, *a, **k):
        if R is not None and self._sel(inst):
            self.ck.fail(R, inst, *a, **k)

    def ok(self, R, inst, *a, **k):
        if R is not None and self._sel(inst):
            self.ck.ok(R, inst, *a, **k)

    def note(self, *a, **k):
        pass

    def assume(self, *a, **k):
        pass


def borrow(ck, F, lender, borrower, keep, only=None, floor=1):
    import importlib
    mod = importlib.import_module(lender.lower())
    mod.run(Borrow(ck, lender, borrower, keep, only=only, floor=floor), F)
