"""What a later request may change: helpers shared by C05 (nothing observable changes) and C09 (the type a node reports)."""
from symex import Sym, Unsupported
import keyrule


def deep(t, st, d=0):
    """value of a term with the abstract value objects it designates expanded (an Optional is what it holds)"""
    if not isinstance(t, tuple):
        return t
    if t and t[0] == 'obj' and len(t) == 2 and t[1] in st.heap and d < 6:
        o = st.heap[t[1]]
        return ('val', o.cls, tuple((n, deep(v, st, d + 1)) for n, v in sorted(o.fields.items())))
    return tuple(deep(x, st, d) for x in t)


def rewrite(t, eqs):
    for a, b in eqs:
        if t == b:
            return a
    if isinstance(t, tuple):
        return tuple(rewrite(x, eqs) for x in t)
    return t


def found_equalities(F, SK, st2, base_eff):
    """what `the table found an equal element` means on this path: the component comparisons of the comparator Sema
    selected, evaluated on (found element, key), are all zero; for identity comparisons that is a = b"""
    eqs = []
    for c, val in st2.conds:
        if not (val and isinstance(c, tuple) and c and c[0] == 'found' and c[3] is not None):
            continue
        _f, recv, key, el = c
        for e in st2.effects[base_eff:]:
            if not (e[0] in ('tree_insert', 'tree_find', 'chain_insert', 'chain_find') and e[1] == recv and e[2] == key):
                continue
            comp, ifid, snap = e[3], e[5], e[6]
            try:
                outs = SK.run(keyrule.comparator_in(F, ifid), this=comp, args=[el, key], state=snap.fork())
            except Unsupported:
                continue
            for kind, a, b, _x in keyrule.LexShape().analyse(outs, len(snap.conds)):
                if kind == 'scalar':
                    da, db = deep(a, outs[0][0]), deep(b, outs[0][0])
                    eqs.append((da, db))
                    if isinstance(da, tuple) and isinstance(db, tuple) and da[:1] == ('addr',) and db[:1] == ('addr',):
                        eqs.append((da[1], db[1]))          # same address, same object
    return eqs
