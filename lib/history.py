"""What a later request may change: helpers shared by C05 (nothing observable changes) and C09 (the type a node reports)."""
from symex import Sym, Unsupported
import keyrule


def deep(t, st, d=0):
    """value of a term with the abstract value objects it designates expanded (an Optional is what it holds)"""
    if not isinstance(t, tuple):
        return t
    if t and t[0] == 'obj' and len(t) == 2 and t[1] in st.heap and d < 6:
        o = st.heap[t[1]]
        return ('val', o.cls, tuple((n, deep(v, st, d + 1)) for n, v in sorted(o.fields.items())))
    return tuple(deep(x, st, d) for x in t)


def rewrite(t, eqs):
    for a, b in eqs:
        if t == b:
            return a
    if isinstance(t, tuple):
        return tuple(rewrite(x, eqs) for x in t)
    return t


def found_equalities(F, SK, st2, base_eff):
    """what `the table found an equal element` means on this path: the component comparisons of the comparator Sema
    selected, evaluated on (found element, key), are all zero; for identity comparisons that is a = b"""
    eqs = []
    for c, val in st2.conds:
        if not (val and isinstance(c, tuple) and c and c[0] == 'found' and c[3] is not None):
            continue
        _f, recv, key, el = c
        for e in st2.effects[base_eff:]:
            if not (e[0] in ('tree_insert', 'tree_find', 'chain_insert', 'chain_find') and e[1] == recv and e[2] == key):
                continue
            comp, ifid, snap = e[3], e[5], e[6]
            try:
                outs = SK.run(keyrule.comparator_in(F, ifid), this=comp, args=[el, key], state=snap.fork())
            except Unsupported:
                continue
            for kind, a, b, _x in keyrule.LexShape().analyse(outs, len(snap.conds)):
                if kind == 'scalar':
                    da, db = deep(a, outs[0][0]), deep(b, outs[0][0])
                    eqs.append((da, db))
                    if isinstance(da, tuple) and isinstance(db, tuple) and da[:1] == ('addr',) and db[:1] == ('addr',):
                        eqs.append((da[1], db[1]))          # same address, same object
    return eqs


def call_storage_refs(F, S, f):
    """[(description)] for every reference / pointer member of an object that outlives the call (emplaced in a pool, inserted in a
    table, allocated) which designates storage of the call itself: a by-value parameter, or a local / temporary object."""
    import contracts
    out = []
    byval = set()
    for i, p in enumerate(f.get('params', [])):
        t = p['t'].strip()
        if not (t.endswith('&') or t.endswith('*') or t.endswith('&&')) and t.replace('const ', '') in F.rec:
            byval.add(i)
    try:
        paths = S.run(f['id'])
    except Unsupported:
        return None
    for st, k, v in paths:
        if k != 'return':
            continue
        persistent = {oid for oid, o in st.heap.items() if o.origin and o.origin[0] in ('emplace', 'tree', 'new')}
        # a table node built as a copy of its key is recorded among the table's contents
        for objs in st.contents.values():
            for ov in objs:
                if isinstance(ov, tuple) and ov[:1] == ('obj',) and ov[1] in st.heap:
                    persistent.add(ov[1])
        # sub-objects held by value inside persistent objects are persistent too
        grew = True
        while grew:
            grew = False
            for oid in list(persistent):
                cls = st.heap[oid].cls
                decl = {fl['name']: fl for c in [cls] + F.ancestors(cls) for fl in (F.rec.get(c) or {}).get('fields', [])}
                for fname, fv in st.heap[oid].fields.items():
                    fl = decl.get(fname)
                    if fl and (fl.get('ref') or fl['t'].rstrip().endswith('*')):
                        continue        # a reference / pointer member designates, it does not hold
                    if isinstance(fv, tuple) and fv and fv[0] == 'obj' and fv[1] in st.heap and fv[1] not in persistent:
                        persistent.add(fv[1]); grew = True
        for oid in sorted(persistent):
            o = st.heap[oid]
            r = F.rec.get(o.cls)
            if not r:
                continue
            flds = {fl['name']: fl for c in [o.cls] + F.ancestors(o.cls) for fl in (F.rec.get(c) or {}).get('fields', [])}
            for name, fv in o.fields.items():
                fl = flds.get(name)
                if not fl or not (fl.get('ref') or fl['t'].rstrip().endswith('*')):
                    continue
                t = fv
                while isinstance(t, tuple) and t and t[0] in ('addr', 'castto'):
                    t = t[1] if t[0] == 'addr' else t[2]
                if isinstance(t, tuple) and t[:1] == ('param',) and t[1] in byval:
                    out.append(f'{contracts.short(o.cls)}::{name} refers to the by-value parameter `{f["params"][t[1]]["name"] or t[1]}`, which ends with the call')
                elif isinstance(t, tuple) and t[:1] == ('obj',) and t[1] in st.heap and t[1] not in persistent \
                        and (st.heap[t[1]].origin or ('ctor',))[0] in ('ctor', 'copy', 'aggregate', 'temp'):
                    out.append(f'{contracts.short(o.cls)}::{name} refers to a local / temporary {contracts.short(st.heap[t[1]].cls)} object of the call')
    return sorted(set(out))


def call_storage_rule(ck, F, prefix, floor=200, only=None):
    """<prefix>.no-reference-to-call-storage over every factory (or those `only` selects)."""
    import contracts
    import wire as _wire
    from symex import Sym
    R_cs = ck.rule(f'{prefix}.no-reference-to-call-storage', 'no reference or pointer member of an object that outlives the factory call (a node in a pool or a '
                   'table) designates storage of the call itself -- a parameter taken by value, a local or a temporary: after the call '
                   'returns such a member dangles (it reads a dead stack slot, and two nodes built that way alias each other)', floor=floor)
    S2 = Sym(F, opaque=contracts.default_opaque(F), max_depth=64)
    for f in sorted(_wire.all_factories(F), key=lambda f: f['id']):
        if only is not None and not only(f):
            continue
        r = call_storage_refs(F, S2, f)
        sid = '::'.join(contracts.fn_qname(f['id']).split('::')[-2:]) + '/' + str(len(f['params']))
        if r is None:
            continue
        ck.check(R_cs, sid, not r, f'{f["id"]}: ' + '; '.join(r[:3]), loc=f['loc'], fn=f['id'])
