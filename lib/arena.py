"""Write footprint of the functions that fill a header obtained from string::arena::allocate (shared by C03 and C19).

allocate(A) guarantees room for the header and A bytes of data (C03.arena-bounds proves exactly that, for every A >= 0).
A caller may therefore write the length field and data[0 .. A) and nothing else.  Every write effect and every
recognised bulk copy through the returned header is placed as an affine function of the caller's length parameter and
compared with A in closed form (valid for every length, whatever the history of the arena): a write at data[n] after
allocate(n) lands in the padding of the last granule for most n and past the end of the pool for some."""
from facts import AnalysisBroken
from symex import Sym, Unsupported
import contracts

ALLOC = 'ipr::util::string::arena::allocate(long)'

COPY3 = ('copy', 'uninitialized_copy', 'move')          # (first, last, dest) -> dest + (last - first)
COPYN = ('copy_n', 'uninitialized_copy_n')               # (first, count, dest) -> dest + count
MEMCPY = ('memcpy', 'memmove', '__builtin_memcpy', '__builtin_memmove')   # (dest, src, count) -> dest
FILLN = ('fill_n', 'uninitialized_fill_n')              # (dest, count, value) -> dest + count
TRAITS_COPY = ('copy', 'move', 'assign')                # char_traits<C>::copy(dest, src, count)


def _lin(t, vars_):
    """t as {var: coeff, 1: const} over the given variable terms, or None."""
    if t in vars_:
        return {t: 1}
    if isinstance(t, tuple) and t:
        if t[0] == 'k' and isinstance(t[1], int):
            return {1: t[1]}
        if t[0] == 'castto':
            return _lin(t[2], vars_)
        if t[0] == 'op' and t[1] in ('+', '-') and len(t) == 4:
            a, b = _lin(t[2], vars_), _lin(t[3], vars_)
            if a is None or b is None:
                return None
            s = 1 if t[1] == '+' else -1
            out = dict(a)
            for k, v in b.items():
                out[k] = out.get(k, 0) + s * v
            return out
        if t[0] == 'op' and t[1] == '*' and len(t) == 4:
            a, b = _lin(t[2], vars_), _lin(t[3], vars_)
            if a is None or b is None:
                return None
            if set(a) <= {1}:
                return {k: a.get(1, 0) * v for k, v in b.items()}
            if set(b) <= {1}:
                return {k: b.get(1, 0) * v for k, v in a.items()}
    return None


def _add(a, b, s=1):
    out = dict(a)
    for k, v in b.items():
        out[k] = out.get(k, 0) + s * v
    return out


def _le_for_all_nonneg(a, b, strict):
    """a(n..) <= b(n..) (or <) for every valuation of the variables in the non-negative integers."""
    d = _add(b, a, -1)                  # b - a
    c = d.get(1, 0)
    coeffs = [v for k, v in d.items() if k != 1]
    return all(v >= 0 for v in coeffs) and (c > 0 if strict else c >= 0)


def _show(l):
    if l is None:
        return '?'
    parts = []
    for k, v in l.items():
        if k == 1 or v == 0:
            continue
        nm = f'p{k[1]}' if isinstance(k, tuple) and k[0] == 'param' else str(k)
        parts.append(('' if v == 1 else f'{v}*') + nm)
    c = l.get(1, 0)
    if c or not parts:
        parts.append(str(c))
    return ' + '.join(parts)


def footprint(F):
    """[(function id, loc, instance, ok, message)] for every function of the library that obtains a header from
    arena::allocate.  Raises AnalysisBroken for a write through the header that is outside the recognised forms."""
    srec = F.need_rec('ipr::util::string')
    fields = [(fl['name'], fl['t']) for fl in srec['fields']]
    if len(fields) != 2 or '[' not in fields[1][1]:
        raise AnalysisBroken(f'layout of util::string changed (a length followed by the inline bytes expected): {fields}')
    LEN, DATA = fields[0][0], fields[1][0]
    out = []
    callers = [g for g in F.fn.values() if g.get('body') is not None and g['id'] != ALLOC
               and any(n.get('k') == 'call' and (n.get('callee') or {}).get('id') == ALLOC for n in F_walk(g['body']))]
    if not callers:
        raise AnalysisBroken('no function of the library calls arena::allocate')
    for g in callers:
        S = Sym(F, opaque=lambda fid: F.fn.get(fid) is None or fid == ALLOC, max_depth=20)
        try:
            paths = S.run(g['id'])
        except Unsupported as e:
            raise AnalysisBroken(f'{g["id"]}: {e}')
        nparams = len(g.get('params', []))
        vars_ = {('param', i) for i in range(nparams)}
        for pi, (st, k, v) in enumerate(paths):
            hdrs = {e for e in st.effects if e[0] == 'call' and e[1] == ALLOC}
            for h in hdrs:
                H = ('call', h[1], h[2], h[3])
                A = _lin(h[3][0], vars_)
                if A is None:
                    raise AnalysisBroken(f'{g["id"]}: the size passed to allocate is not affine in the parameters: {h[3][0]}')

                def data_index(loc):
                    """index (affine) of a location inside H's data, 'hdr' for the length field, None when loc is not in H"""
                    if not _mentions(loc, H):
                        return None
                    if isinstance(loc, tuple) and loc[0] == 'fld' and loc[1] == ('deref', H):
                        return 'hdr' if loc[2] == LEN else ('whole-array' if loc[2] == DATA else 'unknown')
                    if isinstance(loc, tuple) and loc[0] == 'index' and loc[1] == ('fld', ('deref', H), DATA):
                        return _lin(loc[2], vars_) or 'unknown'
                    if isinstance(loc, tuple) and loc[0] == 'deref':
                        return ptr_index(loc[1])
                    return 'unknown'

                def ptr_index(p):
                    if isinstance(p, tuple) and p[0] == 'castto':
                        return ptr_index(p[2])
                    if isinstance(p, tuple) and p[0] == 'addr':
                        return data_index(p[1])
                    if p == ('fld', ('deref', H), DATA) or (isinstance(p, tuple) and p[0] in ('decay',) and p[1] == ('fld', ('deref', H), DATA)):
                        return {1: 0}
                    if isinstance(p, tuple) and p[0] == 'op' and p[1] in ('+', '-') and len(p) == 4:
                        base, off = ptr_index(p[2]), _lin(p[3], vars_)
                        if isinstance(base, dict) and off is not None:
                            return _add(base, off, 1 if p[1] == '+' else -1)
                        return 'unknown'
                    if isinstance(p, tuple) and p[0] in ('call', 'fcall') and len(p) >= 4:
                        r = bulk(p)
                        if r is not None:
                            return r[2]
                    return 'unknown'

                def count_of(first, last):
                    a, b = ptr_or_lin(first), ptr_or_lin(last)
                    if a is not None and b is not None:
                        return _add(b, a, -1)
                    return None

                def ptr_or_lin(t):
                    # pointers into the source are affine in the pointer parameter itself
                    return _lin(t, vars_)

                def bulk(c):
                    """(start index, end index (exclusive), index of the returned pointer) of a recognised bulk write, or None"""
                    name = contracts.fn_simple(c[1])
                    a = c[3]
                    q = c[1]
                    if name in COPY3 and len(a) == 3 and q.startswith('std::') and 'char_traits' not in q:
                        d0, cnt = ptr_index(a[2]), count_of(a[0], a[1])
                    elif name in COPYN and len(a) == 3 and q.startswith('std::'):
                        d0, cnt = ptr_index(a[2]), _lin(a[1], vars_)
                    elif name in MEMCPY and len(a) == 3:
                        d0, cnt = ptr_index(a[0]), _lin(a[2], vars_)
                        if isinstance(d0, dict) and cnt is not None:
                            return (d0, _add(d0, cnt), d0)
                    elif name in TRAITS_COPY and 'char_traits' in q and len(a) == 3:
                        d0, cnt = ptr_index(a[0]), _lin(a[2], vars_)
                        if isinstance(d0, dict) and cnt is not None:
                            return (d0, _add(d0, cnt), d0)
                    elif name in FILLN and len(a) == 3 and q.startswith('std::'):
                        d0, cnt = ptr_index(a[0]), _lin(a[1], vars_)
                    else:
                        return None
                    if not isinstance(d0, dict) or cnt is None:
                        return ('unknown', 'unknown', 'unknown')
                    return (d0, _add(d0, cnt), _add(d0, cnt))

                zero = {1: 0}
                for ei, e in enumerate(st.effects):
                    if e[0] == 'write':
                        ix = data_index(e[1])
                        if ix is None or ix == 'hdr':
                            continue
                        inst = f'{contracts.short(contracts.fn_qname(g["id"]))}#{pi}/write{ei}'
                        if not isinstance(ix, dict):
                            raise AnalysisBroken(f'{g["id"]}: a write through the allocated header is outside the recognised forms: {contracts.render(e[1], st, {})[:200]}')
                        ok = _le_for_all_nonneg(zero, ix, False) and _le_for_all_nonneg(ix, A, True)
                        out.append((g['id'], g['loc'], inst, ok,
                                    f'writes data[{_show(ix)}] of a header obtained from allocate({_show(A)}): the allocation guarantees '
                                    f'data[0 .. {_show(A)}) only'))
                    elif e[0] in ('fcall', 'call') and e[1] != ALLOC and len(e) >= 4 and any(_mentions(a, H) for a in e[3]):
                        c = ('call', e[1], e[2], e[3])
                        r = bulk(c)
                        inst = f'{contracts.short(contracts.fn_qname(g["id"]))}#{pi}/{contracts.fn_simple(e[1])}{ei}'
                        if r is None:
                            cal = F.fn.get(e[1])
                            if cal is not None:
                                continue        # a library function: evaluated inline, its writes appear as effects
                            # a const observer of the header is harmless; anything else is outside the language
                            if _readonly_use(F, e):
                                continue
                            raise AnalysisBroken(f'{g["id"]}: the allocated header is handed to {contracts.fn_qname(e[1])[:120]}, whose writes are not modelled')
                        if r[0] == 'unknown':
                            raise AnalysisBroken(f'{g["id"]}: extent of {contracts.fn_simple(e[1])} into the allocated header is not affine in the parameters')
                        lo, hi, _ret = r
                        ok = _le_for_all_nonneg(zero, lo, False) and _le_for_all_nonneg(hi, A, False)
                        out.append((g['id'], g['loc'], inst, ok,
                                    f'{contracts.fn_simple(e[1])} writes data[{_show(lo)} .. {_show(hi)}) of a header obtained from allocate({_show(A)})'))
    return out


def bulk_copies(F, g):
    """For the function g (a caller of arena::allocate): per returning path, the recognised bulk copies into the allocated
    header as (source start term, count, destination index), all affine in the parameters where they can be."""
    srec = F.need_rec('ipr::util::string')
    DATA = srec['fields'][1]['name']
    S = Sym(F, opaque=lambda fid: F.fn.get(fid) is None or fid == ALLOC, max_depth=20)
    try:
        paths = S.run(g['id'])
    except Unsupported as e:
        raise AnalysisBroken(f'{g["id"]}: {e}')
    vars_ = {('param', i) for i in range(len(g.get('params', [])))}
    res = []
    for st, k, v in paths:
        found = []
        hdrs = [('call', e[1], e[2], e[3]) for e in st.effects if e[0] == 'call' and e[1] == ALLOC]
        for H in hdrs:
            def ptr_index(p):
                if isinstance(p, tuple) and p[0] == 'castto':
                    return ptr_index(p[2])
                if isinstance(p, tuple) and p[0] == 'addr' and isinstance(p[1], tuple) and p[1][0] == 'index' and p[1][1] == ('fld', ('deref', H), DATA):
                    return _lin(p[1][2], vars_)
                if p == ('fld', ('deref', H), DATA) or (isinstance(p, tuple) and p[0] == 'decay' and p[1] == ('fld', ('deref', H), DATA)):
                    return {1: 0}
                if isinstance(p, tuple) and p[0] == 'op' and p[1] == '+' and len(p) == 4:
                    b, o = ptr_index(p[2]), _lin(p[3], vars_)
                    return _add(b, o) if isinstance(b, dict) and o is not None else None
                return None
            for e in st.effects:
                if e[0] not in ('fcall', 'call') or e[1] == ALLOC or len(e) < 4:
                    continue
                name, a, q = contracts.fn_simple(e[1]), e[3], e[1]
                src = cnt = dst = None
                if name in COPY3 and len(a) == 3 and q.startswith('std::') and 'char_traits' not in q:
                    f0, l0 = _lin(a[0], vars_), _lin(a[1], vars_)
                    src, dst = a[0], ptr_index(a[2])
                    cnt = _add(l0, f0, -1) if f0 is not None and l0 is not None else None
                elif name in COPYN and len(a) == 3 and q.startswith('std::'):
                    src, cnt, dst = a[0], _lin(a[1], vars_), ptr_index(a[2])
                elif (name in MEMCPY or (name in TRAITS_COPY and 'char_traits' in q)) and len(a) == 3:
                    src, cnt, dst = a[1], _lin(a[2], vars_), ptr_index(a[0])
                if dst is not None and cnt is not None:
                    found.append((src, {kk: vv for kk, vv in cnt.items() if vv != 0}, {kk: vv for kk, vv in dst.items() if vv != 0}))
        res.append((st, k, v, found))
    return res


def _readonly_use(F, e):
    return False


def _mentions(t, H):
    if t == H:
        return True
    if isinstance(t, tuple):
        return any(_mentions(x, H) for x in t)
    return False


def F_walk(body):
    from facts import walk
    return walk(body)


INTERN = 'ipr::util::string_pool::intern(std::basic_string_view<char8_t, std::char_traits<char8_t>>)'


def owned_bytes(F):
    """[(instance, ok, message, loc, fid)]: every String node that intern creates views bytes owned by the pool's arena
    (the data and the length of one header returned by make_string(word.data(), word.length())), never the caller's
    buffer: the spelling of a node cannot change or dangle when the caller's buffer is reused."""
    f = F.intern_fn()
    S = Sym(F, opaque=lambda fid: F.fn.get(fid) is None or F.fn[fid]['name'] in ('word_if_known', 'make_string'), max_depth=40)
    try:
        outs = S.run(f['id'])
    except Unsupported as e:
        raise AnalysisBroken(f'{INTERN}: {e}')
    W = ('param', 0)
    view_field = F.role_field('ipr::impl::String', lambda fl: 'basic_string_view' in fl['t'] or 'word_view' in fl['t'], 'view of the characters')

    def unc(t):
        while isinstance(t, tuple) and t and t[0] == 'castto':
            t = t[2]
        return t

    def ncall(t, name):
        return isinstance(t, tuple) and len(t) >= 4 and t[0] in ('call', 'vcall') and contracts.fn_simple(t[1]) == name

    res = []
    n = 0
    for st, k, v in outs:
        for e in st.effects:
            if e[0] != 'emplace':
                continue
            ref = e[3]
            if not (isinstance(ref, tuple) and ref[0] == 'obj' and ref[1] in st.heap and st.heap[ref[1]].cls == 'ipr::impl::String'):
                continue
            n += 1
            txt = st.heap[ref[1]].fields.get(view_field)
            ok, why = False, 'the view is not built from (data, length) of one arena header'
            if isinstance(txt, tuple) and txt[0] == 'call' and contracts.fn_simple(txt[1]) == 'basic_string_view' and len(txt[3]) == 2:
                a0, a1 = unc(txt[3][0]), unc(txt[3][1])
                if isinstance(a0, tuple) and a0[0] == 'addr' and isinstance(a0[1], tuple) and a0[1][0] == 'index' and a0[1][2] == ('k', 0, 'int'):
                    a0 = a0[1][1]            # &data[0]
                if isinstance(a0, tuple) and a0[0] == 'fld' and isinstance(a1, tuple) and a1[0] == 'fld' and a0[1] == a1[1] and a0[2] != a1[2]:
                    x = a0[1]
                    mk = x[1] if isinstance(x, tuple) and x[0] == 'deref' else None
                    if mk is not None and ncall(mk, 'make_string') and len(mk[3]) == 2 and ncall(mk[3][0], 'data') and mk[3][0][2] == W \
                            and (ncall(mk[3][1], 'length') or ncall(mk[3][1], 'size')) and mk[3][1][2] == W:
                        ok = True
                    else:
                        why = 'the header is not the result of make_string(word.data(), word.length())'
                else:
                    why = f'the characters viewed are {contracts.render(a0, st, {})[:80]}, the length {contracts.render(a1, st, {})[:60]}'
            res.append((f'intern/created#{n}', ok, 'a String node created by intern does not view the arena copy of the word: ' + why, f['loc'], f['id']))
    if not res:
        raise AnalysisBroken('intern creates no String node on any path')
    return res
