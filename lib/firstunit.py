"""Reads of the first code unit of a word (`*s.begin()`, `w.front()`, `w[0]`, `*w.data()`) that no emptiness test dominates.

Such a read is inside a live object for the empty word only as long as every String the library hands out answers characters()
with a view whose data pointer designates storage (the terminator of a literal, the inline units of an arena header) -- a
default-constructed view has a null data pointer, and the read goes through it.  The rule is conditional: with no unguarded site
in the library a null view of the empty word is harmless and nothing is demanded of the overriders."""
import json

import contracts
from facts import AnalysisBroken, walk, strip_casts, local_init
from symex import Sym, Unsupported, NULL

WORD_TYPES = ('ipr::String', 'std::basic_string_view<char8_t')
FIRST = ('begin', 'cbegin', 'data')
TESTS = ('empty', 'size', 'length', 'end', 'cend', 'ssize')


def _t(e):
    return (e.get('t') or '').replace('const ', '').strip()


def _is_word(e):
    return _t(e).startswith(WORD_TYPES)


def _key(e):
    """Shape of an expression without positions (two mentions of the same object have the same key)."""
    e = strip_casts(e) if isinstance(e, dict) else e
    if isinstance(e, dict):
        if e.get('k') == 'ref':
            return ('ref', e.get('kind'), e.get('id', e.get('idx')), e.get('name'))
        if e.get('k') == 'call' and e.get('callee'):
            return ('call', e['callee'].get('id'), _key(e.get('obj')), tuple(_key(a) for a in e.get('args', [])))
        if e.get('k') == 'ctor' and len(e.get('args', [])) == 1:      # a view copied / converted from the object
            return _key(e['args'][0])
        return tuple((k, _key(v)) for k, v in sorted(e.items()) if k not in ('ln', 't', 'col'))
    if isinstance(e, list):
        return tuple(_key(x) for x in e)
    return e


def _receiver(F, fn, e):
    """The word object a first-unit read goes to: (receiver expression, how) or None."""
    e = strip_casts(e)
    if e.get('k') == 'unop' and e.get('op') == '*':
        p = strip_casts(e['e'])
        if p.get('k') == 'ref' and p.get('kind') == 'local':
            init = local_init(fn, p)
            if init is not None:
                p = strip_casts(init)
        if p.get('k') == 'call' and p.get('callee') and p['callee'].get('name') in FIRST and p.get('obj') is not None and _is_word(p['obj']):
            return p['obj'], '*' + p['callee']['name'] + '()'
        return None
    if e.get('k') == 'call' and e.get('callee') and e.get('obj') is not None and _is_word(e['obj']):
        nm = e['callee'].get('name')
        if nm in ('front',):
            return e['obj'], 'front()'
        if nm in ('operator[]', 'at') and e.get('args'):
            a = strip_casts(e['args'][0])
            if a.get('k') == 'lit' and str(a.get('v')) in ('0',):
                return e['obj'], '[0]'
            if 'cv' in a and str(a['cv']) == '0':
                return e['obj'], '[0]'
    return None


def _mentions_test(cond, rkeys):
    for n in walk(cond):
        if n.get('k') == 'call' and n.get('callee') and n['callee'].get('name') in TESTS:
            if n.get('obj') is not None and _key(n['obj']) in rkeys:
                return True
            o = strip_casts(n['obj']) if n.get('obj') is not None else {}
            if o.get('k') == 'call' and (o.get('callee') or {}).get('name') == 'characters' and o.get('obj') is not None and _key(o['obj']) in rkeys:
                return True
            if any(_key(a) in rkeys for a in n.get('args', [])):
                return True
        # `if (auto p = word_if_known(w))`-like tests do not count: only the word's own extent does
    return False


def _exits(s):
    """The statement always leaves the enclosing block (return / throw / continue / break at its end)."""
    if not isinstance(s, dict):
        return False
    k = s.get('k')
    if k in ('return', 'throw', 'continue', 'break'):
        return True
    if k == 'compound':
        return bool(s.get('b')) and _exits(s['b'][-1])
    if k == 'if':
        return 'else' in s and _exits(s['then']) and _exits(s['else'])
    if k in ('call',) and (s.get('callee') or {}).get('noreturn'):
        return True
    return False


def sites(F):
    """[(fn, node, receiver, how, guarded)] for every first-unit read of a word in the library."""
    out = []

    def visit(fn, n, guards):
        if isinstance(n, list):
            g = list(guards)
            for s in n:
                visit(fn, s, g)
                if isinstance(s, dict) and s.get('k') == 'if' and 'else' not in s and _exits(s.get('then')):
                    g = g + [s['c']]
            return
        if not isinstance(n, dict):
            return
        k = n.get('k')
        r = _receiver(F, fn, n) if k in ('unop', 'call') else None
        if r is not None:
            recv, how = r
            rk = {_key(recv)}
            # the same word seen through a local (`auto w = s.characters()`) or through the String it came from
            rc = strip_casts(recv)
            if rc.get('k') == 'ref' and rc.get('kind') == 'local':
                init = local_init(fn, rc)
                if init is not None:
                    rk.add(_key(init))
                    ic = strip_casts(init)
                    if ic.get('k') == 'call' and ic.get('obj') is not None:
                        rk.add(_key(ic['obj']))
            if rc.get('k') == 'call' and rc.get('obj') is not None and (rc.get('callee') or {}).get('name') == 'characters':
                rk.add(_key(rc['obj']))
            out.append((fn, n, recv, how, any(_mentions_test(c, rk) for c in guards)))
        if k == 'compound':
            visit(fn, n.get('b', []), guards)
            return
        if k == 'if':
            visit(fn, n.get('init'), guards)
            visit(fn, n.get('c'), guards)
            visit(fn, n.get('then'), guards + [n['c']])
            visit(fn, n.get('else'), guards + [n['c']])
            return
        if k in ('while', 'for'):
            visit(fn, n.get('init'), guards)
            visit(fn, n.get('c'), guards)
            g = guards + ([n['c']] if n.get('c') is not None else [])
            visit(fn, n.get('inc'), g)
            visit(fn, n.get('b'), g)
            return
        if k == 'binop' and n.get('op') in ('&&', '||'):
            visit(fn, n.get('l'), guards)
            visit(fn, n.get('r'), guards + [n['l']])
            return
        if k == 'cond':
            visit(fn, n.get('c'), guards)
            visit(fn, n.get('then'), guards + [n['c']])
            visit(fn, n.get('else'), guards + [n['c']])
            return
        for kk, v in n.items():
            if kk in ('callee',):
                continue
            if isinstance(v, (dict, list)):
                visit(fn, v, guards)

    for f in F.fn.values():
        if not f['loc'].startswith(('src/', 'include/')) or f.get('body') is None:
            continue
        if f['id'].startswith('std::'):
            continue
        visit(f, f['body'], [])
    return out


def null_view(v, st):
    """The evaluated value is definitely a view without storage: a default-constructed view, or one built on a null pointer."""
    if isinstance(v, tuple) and v and v[0] == 'obj' and v[1] in st.heap:
        o = st.heap[v[1]]
        if o.origin and o.origin[0] == 'copy':
            return null_view(o.origin[1], st)
        return False
    if isinstance(v, tuple) and len(v) >= 4 and v[0] == 'call' and 'basic_string_view<char8_t' in v[1] and '::basic_string_view(' in v[1]:
        if not v[3]:
            return True
        return v[3][0] == NULL
    return False


def rule(ck, F, prefix):
    R = ck.rule(f'{prefix}.first-unit-readable', 'where the library reads the first code unit of a word without first asking whether the word is empty '
                '(`*s.begin()` in the printer of operator names), no String of the library answers characters() with a view that has no storage '
                '(a default-constructed view: null data pointer): the empty word then still has a readable unit at begin() -- the terminator of the '
                'literal it views', floor=2)
    ss = sites(F)
    unguarded = [(f, n, recv, how) for (f, n, recv, how, g) in ss if not g]
    ck.extra[f'{prefix}.first-unit-sites'] = [f'{f["loc"].split(":")[0]}:{n.get("ln")} {how} in {contracts.short(contracts.fn_qname(f["id"]))} '
                                               f'({"guarded" if g else "unguarded"})' for (f, n, recv, how, g) in ss]
    ck.check(R, 'sites', True, '', loc='src/io.cxx')
    over = [f for f in F.fn.values() if f['name'] == 'characters' and f.get('body') is not None and f.get('parent')
            and (f['parent'] == 'ipr::String' or F.derives_from(f['parent'], 'ipr::String'))]
    if not over:
        raise AnalysisBroken('no overrider of ipr::String::characters() with a body in the facts')
    for f in sorted(over, key=lambda f: f['id']):
        inst = contracts.short(f['parent']) + '::characters'
        try:
            outs = Sym(F, max_depth=12).run(f['id'])
        except Unsupported as e:
            ck.note(f'{inst}: not evaluated ({e}); not judged')
            ck.check(R, inst, True, '', loc=f['loc'], fn=f['id'])
            continue
        bad = [contracts.render(v, st, {}) for st, k, v in outs if k == 'return' and null_view(v, st)]
        where = [f'{g["loc"].split(":")[0]}:{n.get("ln")} ({how} in {contracts.short(contracts.fn_qname(g["id"]))})' for (g, n, _r, how) in unguarded]
        ck.check(R, inst, not (bad and unguarded),
                 f'{f["id"]} answers with a view that has no storage ({bad[:1]}): the unguarded first-unit read at {where[:3]} goes through a '
                 f'null pointer when this String reaches it', loc=f['loc'], fn=f['id'])
