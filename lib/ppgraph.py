"""Printer analyses shared by C17 / C18: symbolic execution of the XPR printer's entry points on every
concrete node class, with re-entrance detection (same function, same node => unbounded recursion)."""
from facts import AnalysisBroken, walk
from symex import Sym, State, Unsupported, RecursionDetected, NULL
import contracts
import wire

PRINTER = ('sym', 'printer')
ENTRY_KINDS = ('xpr_expr', 'xpr_type', 'xpr_stmt', 'xpr_decl')


def has_loop(f):
    return any(n.get('k') in ('for', 'while', 'do', 'switch', 'rangefor') for n in walk(f.get('body')))


def printer_opaque(F):
    base = contracts.default_opaque(F)
    cache = {}

    def op(fid):
        if fid in cache:
            return cache[fid]
        f = F.fn.get(fid)
        r = base(fid) or f is None or has_loop(f)
        cache[fid] = r
        return r
    return op


def entries(F):
    out = {}
    for f in F.fn.values():
        if f['name'] == 'operator<<' and not f.get('parent') and len(f['params']) == 2 and f['params'][0]['t'] == 'ipr::Printer &':
            t = f['params'][1]['t']
            if t.startswith('ipr::xpr_') and t[5:] in ENTRY_KINDS:
                out[t[5:]] = f
    missing = [k for k in ENTRY_KINDS if k not in out]
    if missing:
        raise AnalysisBroken(f'printer entry point(s) vanished: {missing}')
    return out


def iface_of(F, cls):
    for a in [cls] + F.ancestors(cls):
        r = F.rec.get(a)
        if r and a.startswith('ipr::') and not a.startswith(('ipr::impl::', 'ipr::util::', 'ipr::cxx_form::')) \
                and not r.get('template') and '(' not in a:
            if any(F.rec.get(x, {}).get('template') == 'ipr::Category' for x in F.ancestors(a)):
                return a
    return None


def wired_nodes(F, S=None):
    for c in F.rec:
        _NODE_CACHE[c] = F.derives_from(c, 'ipr::Node')
    """One fully constructed abstract object per concrete node class the factories (or the process-wide
    constants) can produce: list of (class, interface, state, object term, provenance)."""
    S = S or Sym(F, opaque=contracts.default_opaque(F), max_depth=64)
    seen = {}

    def shape(st, t, depth=0):
        """Which links of the object are unset: two objects of a class with different unset links are printed
        along different paths, so each shape is kept."""
        if not (isinstance(t, tuple) and t and t[0] == 'obj' and t[1] in st.heap) or depth > 3:
            return 'null' if t == NULL else ''
        o = st.heap[t[1]]
        if depth and F.derives_from(o.cls, 'ipr::Node'):
            return ''
        return '{' + ','.join(f'{n}:{shape(st, v, depth + 1)}' for n, v in sorted(o.fields.items()) if shape(st, v, depth + 1)) + '}'

    def harvest(st, prov):
        for oid, o in st.heap.items():
            r = F.rec.get(o.cls)
            if r is None or r['abstract'] or not F.derives_from(o.cls, 'ipr::Node'):
                continue
            if o.origin and o.origin[0] == 'copy':
                continue
            key = (o.cls, shape(st, ('obj', oid)))
            if key in seen:
                continue
            seen[key] = (st, ('obj', oid), prov)
    for f in sorted(wire.all_factories(F), key=lambda f: f['id']):
        try:
            outs = S.run(f['id'])
        except Unsupported as e:
            raise AnalysisBroken(f'{f["id"]}: {e}')
        for st, kind, v in outs:
            if kind == 'return':
                harvest(st, f['id'])
    for g in sorted(F.globals, key=lambda g: g['q']):
        if 'init' not in g or g.get('unit') == 'probe.cxx':
            continue
        t = g['t'].replace('const ', '').split('[')[0].strip()
        t2 = t if t in F.rec else t.replace('(anonymous namespace)', '(anon)')
        if t2 not in F.rec or not F.derives_from(t2, 'ipr::Node'):
            continue
        st = State()
        st.envs[-1]['this'] = ('sym', 'none')
        init = g['init']
        if init.get('k') == 'initlist' and init.get('elts'):
            init = init['elts'][0]
        try:
            res = S.ev(init, st)
        except Unsupported:
            continue
        if len(res) == 1 and res[0][1] and res[0][1][0] == 'obj':
            harvest(res[0][0], 'constant ' + g['q'])
    out = []
    nth = {}
    for (cls, _shape), (st, obj, prov) in sorted(seen.items()):
        k = nth[cls] = nth.get(cls, 0) + 1
        out.append((cls if k == 1 else f'{cls}', iface_of(F, cls), st, obj, prov + ('' if k == 1 else f' (variant {k})')))
    return out


def variant_tag(prov):
    return '#' + prov.rsplit('(variant ', 1)[1].rstrip(')') if '(variant ' in prov else ''


def completed(st, obj):
    """A copy of the state in which every unset link (util::ref / Optional member holding null) of the object
    designates an arbitrary operand: the fully built variant of a node the factory leaves to be filled in."""
    s2 = st.fork()
    changed = [False]
    if s2.heap.get(obj[1]) is None:
        return None

    def fill(t, path, depth):
        o = s2.heap.get(t[1])
        if o is None or depth > 3:
            return
        if depth and F_derives(o.cls):
            return
        for name, v in list(o.fields.items()):
            if isinstance(v, tuple) and v and v[0] == 'obj' and v[1] in s2.heap:
                w = s2.heap[v[1]]
                if (w.cls.startswith('ipr::util::ref<') or w.cls.startswith('ipr::Optional<')) and len(w.fields) == 1 and list(w.fields.values())[0] == NULL:
                    w.fields[list(w.fields)[0]] = ('addr', ('param', 900 + 20 * depth + len(name)))
                    changed[0] = True
                else:
                    fill(v, path + (name,), depth + 1)
    fill(obj, (), 0)
    return s2 if changed[0] else None


_NODE_CACHE = {}


def F_derives(cls):
    return _NODE_CACHE.get(cls, False)


def run_entry(F, S, entry_fn, st, obj, semicolon=0):
    """Execute `printer << xpr_X(node)`; returns ('ok', outs) | ('cycle', [function ids]) | ('unsupported', msg)."""
    s0 = st.fork()
    xt = entry_fn['params'][1]['t']
    x = s0.new_obj(xt, origin=('ctor', 'entry'))
    r = F.rec.get(xt)
    if r is None:
        raise AnalysisBroken(f'{xt} not in facts')
    fields = [fl['name'] for fl in r['fields']]
    s0.heap[x[1]].fields[fields[0]] = obj
    if len(fields) > 1:
        s0.heap[x[1]].fields[fields[1]] = ('k', semicolon, 'bool')
    S.active = []
    S.depth = 0
    try:
        outs = S.run(entry_fn['id'], args=[PRINTER, x], state=s0)
        return 'ok', outs
    except RecursionDetected as e:
        return 'cycle', e.cycle
    except Unsupported as e:
        return 'unsupported', str(e)
