"""Verdict bookkeeping: rule instances, known findings, evidence, exit codes."""
import json
import os
import sys
import time

from facts import VERIF, AnalysisBroken

EVIDENCE = os.environ.get('VERIF_EVIDENCE_DIR') or os.path.join(VERIF, 'evidence')
REPLAY = os.path.join(EVIDENCE, 'replay')
KNOWN = os.path.join(VERIF, 'known_findings.json')

TRUSTED_BASE = [
    'clang 14 front end (parsing, overload resolution, template instantiation, constant evaluation) '
    'as a faithful model of the shipping g++ 12 build of the same sources',
    '/verif/tools/iprscan.cc (fact extractor) and /verif/lib,/verif/rules (rule evaluators)',
    'C++ standard library semantics (containers, std::less on pointers, std::hash, iostream)',
]


def load_known():
    try:
        with open(KNOWN) as fh:
            d = json.load(fh)
    except FileNotFoundError:
        return []
    return d.get('findings', [])


class Check:
    def __init__(self, pid, tier, level, facts, title=''):
        self.pid = pid
        self.tier = tier
        self.level = level
        self.F = facts
        self.title = title
        self.t0 = time.time()
        self.rules = {}          # rule id -> dict(desc, floor, instances=[...])
        self.order = []
        self.violations = []
        self.notes = []
        self.assumptions = []
        self.samples = []
        self.explanation = ''
        self.extra = {}
        self.seed = int(os.environ.get('VERIF_SEED', '0') or 0)
        self.only = None         # (rule, instance) filter for `explain`

    # -- declaring rules and recording instances -----------------------------
    def rule(self, rid, desc, floor=1):
        if rid not in self.rules:
            self.rules[rid] = {'desc': desc, 'floor': floor, 'ok': 0, 'bad': 0, 'keys': set(), 'samples': []}
            self.order.append(rid)
        return rid

    def _inst(self, rid, instance):
        r = self.rules.get(rid)
        if r is None:
            raise AnalysisBroken(f'internal: rule {rid} not declared')
        return r

    def ok(self, rid, instance, detail=None, loc=None):
        r = self._inst(rid, instance)
        r['ok'] += 1
        r['keys'].add(instance)
        if len(r['samples']) < 3:
            s = {'rule': rid, 'instance': instance, 'verdict': 'holds'}
            if detail is not None:
                s['detail'] = detail
            if loc:
                s['at'] = loc
            r['samples'].append(s)

    def fail(self, rid, instance, what, loc=None, fn=None, detail=None):
        r = self._inst(rid, instance)
        r['bad'] += 1
        r['keys'].add(instance)
        self.violations.append({'property': self.pid, 'rule': rid, 'instance': instance, 'what': what,
                                'at': loc, 'function': fn, 'detail': detail,
                                'rule_text': r['desc']})

    def check(self, rid, instance, cond, what, loc=None, fn=None, detail=None):
        if cond:
            self.ok(rid, instance, detail=detail, loc=loc)
        else:
            self.fail(rid, instance, what, loc=loc, fn=fn, detail=detail)
        return cond

    def note(self, text):
        self.notes.append(text)

    def assume(self, text):
        if text not in self.assumptions:
            self.assumptions.append(text)

    def broken(self, msg):
        raise AnalysisBroken(msg)

    # -- finishing -----------------------------------------------------------
    def finish(self):
        # instance floors: a rule matching fewer sites than confirmed by hand is analysis-broken
        for rid in self.order:
            r = self.rules[rid]
            n = len(r['keys'])
            if n < r['floor'] and self.violations:
                # a violation is reported anyway; the thin rule is noted (it usually is a consequence of the same edit)
                self.notes.append(f'rule {rid} matched {n} instance(s), below its floor {r["floor"]}')
                continue
            if n < r['floor']:
                raise AnalysisBroken(
                    f'rule {rid} matched {n} instance(s), below the floor {r["floor"]} confirmed by hand '
                    f'({r["desc"]}): the rule would pass vacuously')
        known = [k for k in load_known() if k.get('property') == self.pid]
        known_open = [k for k in known if k.get('status') == 'known']
        unlisted, listed = [], []
        for v in self.violations:
            hit = None
            for k in known_open:
                if k.get('rule') == v['rule'] and k.get('instance') == v['instance']:
                    hit = k
                    break
            (listed if hit else unlisted).append((v, hit))
        wall = time.time() - self.t0
        total = sum(r['ok'] + r['bad'] for r in self.rules.values())
        distinct = sum(len(r['keys']) for r in self.rules.values())
        print(f'[{self.pid}] {self.title}')
        print(f'[{self.pid}] tier={self.tier} facts={self.F.key} units={len(self.F.units)} '
              f'functions={len(self.F.fn)} records={len(self.F.rec)} '
              f'({"cached scan" if self.F.cached else "scanned in %.1fs" % self.F.scan_s})')
        for rid in self.order:
            r = self.rules[rid]
            print(f'[{self.pid}]   rule {rid}: {len(r["keys"])} instance(s), {r["bad"]} failing  -- {r["desc"]}')
        for fid, why in getattr(self.F, 'unanalysed_factories', []) or []:
            self.notes.append(f'new factory not analysed (outside the evaluator language, not in the confirmed table): {fid}: {why}')
        for n in self.notes:
            print(f'[{self.pid}]   note: {n}')
        for v, k in listed:
            print(f'KNOWN-FINDING: property={self.pid} rule={v["rule"]} instance={v["instance"]} {v["what"]}'
                  + (f' [{v["at"]}]' if v.get('at') else ''))
        rc = 0
        if unlisted:
            os.makedirs(REPLAY, exist_ok=True)
            for i, (v, _k) in enumerate(unlisted):
                path = os.path.join(REPLAY, f'{self.pid}-{i:02d}.json')
                v = dict(v)
                v['explain_cmd'] = f'./check explain {path}'
                v['facts_key'] = self.F.key
                with open(path, 'w') as fh:
                    json.dump(v, fh, indent=1)
                print(f'  violated: rule={v["rule"]} instance={v["instance"]}: {v["what"]}'
                      + (f' [{v["at"]}]' if v.get('at') else ''))
                print(f'VIOLATION property={self.pid} replay={path}')
            rc = 1
        if rc == 0 and self.tier == 'thorough' and not os.environ.get('VERIF_CONTROL'):
            import controls as controlsmod
            res = controlsmod.run_controls(self.pid)
            self.extra['controls'] = res
            fired = [r for r in res if r['verdict'] == 'fired']
            quiet = [r for r in res if r['verdict'] == 'quiet']
            missed = [r for r in res if r['verdict'] in ('missed', 'false-alarm')]
            stale = [r for r in res if r['verdict'] not in ('fired', 'missed', 'quiet', 'false-alarm')]
            print(f'[{self.pid}]   controls: {len(fired)} seeded violation(s) fired, {len(quiet)} behaviour-preserving change(s) stayed quiet, '
                  f'{len(missed)} wrong, {len(stale)} stale/skipped (each applied to a scratch copy of the repository)')
            for r in missed:
                if r['verdict'] == 'false-alarm':
                    print(f'[{self.pid}]   CONTROL FALSE ALARM: {r["name"]}: {r.get("why")} -> the checker is broken')
                else:
                    print(f'[{self.pid}]   CONTROL MISSED: {r["name"]} (expected rule {r["expect"]}) -> the checker is broken')
            if missed:
                self._write_evidence(time.time() - self.t0, total, distinct, unlisted, listed)
                print(f'[{self.pid}] ANALYSIS BROKEN (exit 2): a seeded violation is no longer detected, or a behaviour-preserving change is reported')
                return 2
            wall = time.time() - self.t0
        self._write_evidence(wall, total, distinct, unlisted, listed)
        print(f'[{self.pid}] {total} rule instances ({distinct} distinct), {len(self.violations)} failing '
              f'({len(listed)} known finding(s)), {wall:.1f}s -> exit {rc}')
        return rc

    def _write_evidence(self, wall, total, distinct, unlisted, listed):
        os.makedirs(EVIDENCE, exist_ok=True)
        samples = []
        per_rule = {}
        for rid in self.order:
            r = self.rules[rid]
            samples.extend(r['samples'][:2])
            per_rule[rid] = {'description': r['desc'], 'instances': len(r['keys']),
                             'evaluations': r['ok'] + r['bad'], 'failing': r['bad'], 'floor': r['floor']}
        samples.extend(self.samples)
        for v, _ in (unlisted + listed)[:5]:
            samples.append({'rule': v['rule'], 'instance': v['instance'], 'verdict': 'violated',
                            'what': v['what'], 'at': v.get('at')})
        if not samples:
            samples = [{'note': 'no instance recorded'}]
        cov = {
            'evaluations': max(total, 1),
            'distinct_nontrivial': distinct,
            'rule': 'every instance of each listed rule over the current /repo tree (functions, classes, call '
                    'sites, table rows discovered from the type-checked AST); an instance is distinct by its '
                    'qualified construct name and non-trivial when the rule actually inspected a body, a '
                    'class or a table row (declarations without definitions are not counted)',
            'samples': samples[:24],
            'explanation': self.explanation or self.title,
            'trusted_base': TRUSTED_BASE,
            'checker_cmd': f'./check {self.pid} --tier {self.tier}',
            'units': [u['unit'] for u in self.F.units],
            'functions_in_facts': len(self.F.fn),
            'records_in_facts': len(self.F.rec),
            'facts_key': self.F.key,
            'rules': per_rule,
            'known_findings_reported': [f'{v["rule"]}::{v["instance"]}' for v, _ in listed],
            'notes': self.notes,
        }
        if self.level == 'proof':
            cov['obligations'] = max(total, 1)
            cov['discharged'] = total - len(self.violations)
            cov['exhaustive'] = True
        cov.update(self.extra)
        ev = {
            'property_id': self.pid,
            'tier': self.tier,
            'seed': self.seed,
            'level': self.level,
            'coverage': cov,
            'assumptions': self.assumptions + [
                'verdicts are computed from the sources without executing library code; VERIF_SEED is recorded but unused (no randomness)'],
            'wall_s': round(wall, 3),
            'violations': len(unlisted),
        }
        with open(os.path.join(EVIDENCE, f'{self.pid}.json'), 'w') as fh:
            json.dump(ev, fh, indent=1)
