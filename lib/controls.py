"""Thorough tier: both-ways self test.  Seeded single-instance violations (controls/controls.json and the
independently written regressions under seeded/) are applied to a scratch copy of the repository, outside /repo and
/verif; the check must report the expected rule.  Nothing is kept: the copy and its fact cache are removed."""
import json
import os
import shutil
import subprocess
import sys
import tempfile
from concurrent.futures import ThreadPoolExecutor

from facts import VERIF, REPO


def load_controls(pid):
    out = []
    try:
        with open(os.path.join(VERIF, 'controls', 'controls.json')) as fh:
            for c in json.load(fh)['controls']:
                if c['property'] == pid:
                    out.append(dict(c, kind='edit'))
    except FileNotFoundError:
        pass
    sd = os.path.join(VERIF, 'seeded')
    if os.path.isdir(sd):
        for d in sorted(os.listdir(sd)):
            mp = os.path.join(sd, d, 'meta.json')
            if not os.path.exists(mp):
                continue
            with open(mp) as fh:
                m = json.load(fh)
            if m.get('breaks_property') != pid:
                continue            # detections by other properties' checks are recorded, not required
            for det in m.get('detected_by', []):
                if det.get('property') == pid:
                    out.append({'kind': 'patch', 'name': 'seeded/' + d, 'patch': os.path.join(sd, d, 'patch.diff'),
                                'expect': det.get('rule', pid), 'property': pid})
    rd = os.path.join(VERIF, 'refactorings')
    if os.path.isdir(rd):
        for d in sorted(os.listdir(rd)):
            mp = os.path.join(rd, d, 'meta.json')
            if not os.path.exists(mp):
                continue
            with open(mp) as fh:
                m = json.load(fh)
            if pid in m.get('formerly_alarmed', []):
                # a behaviour-preserving change this check once alarmed on: it must stay quiet
                out.append({'kind': 'quiet', 'name': 'refactorings/' + d, 'patch': os.path.join(rd, d, 'patch.diff'),
                            'expect': 'exit 0', 'property': pid})
    return out


def _copy_repo(dst):
    os.makedirs(dst)
    for sub in ('include', 'src'):
        shutil.copytree(os.path.join(REPO, sub), os.path.join(dst, sub))
    shutil.copy(os.path.join(REPO, 'CMakeLists.txt'), os.path.join(dst, 'CMakeLists.txt'))


def _run_one(c):
    tmp = tempfile.mkdtemp(prefix='iprctl-')
    try:
        repo = os.path.join(tmp, 'repo')
        _copy_repo(repo)
        if c['kind'] == 'edit':
            path = os.path.join(repo, c['file'])
            text = open(path, encoding='utf-8', errors='replace').read()
            if text.count(c['old']) != 1:
                return dict(name=c['name'], expect=c['expect'], verdict='stale', why='edit site not found exactly once')
            with open(path, 'w', encoding='utf-8') as fh:
                fh.write(text.replace(c['old'], c['new']))
        else:
            p = subprocess.run(['patch', '-p1', '-s', '-d', repo, '-i', c['patch']], stdout=subprocess.PIPE, stderr=subprocess.STDOUT, text=True)
            if p.returncode != 0:
                return dict(name=c['name'], expect=c['expect'], verdict='stale', why='patch does not apply: ' + p.stdout[-200:])
        env = dict(os.environ, IPR_REPO=repo, VERIF_EVIDENCE_DIR=os.path.join(tmp, 'ev'), VERIF_CACHE_DIR=os.path.join(tmp, 'cache'),
                   VERIF_CONTROL='1')
        p = subprocess.run([sys.executable, os.path.join(VERIF, 'check'), c['property'], '--tier', 'quick'],
                           stdout=subprocess.PIPE, stderr=subprocess.STDOUT, text=True, env=env, cwd=VERIF)
        lines = [l for l in p.stdout.splitlines() if 'violated: rule=' in l]
        if c['kind'] == 'quiet':
            if p.returncode == 0:
                return dict(name=c['name'], expect=c['expect'], verdict='quiet')
            last = p.stdout.strip().splitlines()[-1][:200] if p.stdout.strip() else ''
            return dict(name=c['name'], expect=c['expect'], verdict='false-alarm',
                        why=f'exit {p.returncode} on a behaviour-preserving change: {[l.strip()[:160] for l in lines[:2]] or last}')
        hit = [l for l in lines if 'rule=' + c['expect'] in l]
        if p.returncode == 1 and hit:
            return dict(name=c['name'], expect=c['expect'], verdict='fired', report=hit[0].strip()[:240])
        if p.returncode == 2:
            return dict(name=c['name'], expect=c['expect'], verdict='stale', why='the modified tree is not analysable: ' + p.stdout.strip().splitlines()[-1][:200])
        return dict(name=c['name'], expect=c['expect'], verdict='missed', why=f'exit {p.returncode}; reported: {[l.strip()[:120] for l in lines[:3]]}')
    finally:
        shutil.rmtree(tmp, ignore_errors=True)


def run_controls(pid):
    cs = load_controls(pid)
    if not cs:
        return []
    with ThreadPoolExecutor(max_workers=4) as ex:
        return list(ex.map(_run_one, cs))
