"""Conditions that dominate a node of a function body, with their truth value there.

dominating(fn) -> {id(node): [(condition, truth)]}: `truth` is True when the condition is known to hold at the node (then-branch,
right operand of &&, loop body), False when it is known not to hold (else-branch, right operand of ||, statements after an
`if (c) { ...; return/throw/continue/break; }` without else).  Negations are peeled (`!c` true is `c` false)."""


def _exits(s):
    if not isinstance(s, dict):
        return False
    k = s.get('k')
    if k in ('return', 'throw', 'continue', 'break'):
        return True
    if k == 'compound':
        return bool(s.get('b')) and _exits(s['b'][-1])
    if k == 'if':
        return 'else' in s and _exits(s['then']) and _exits(s['else'])
    return False


def peel(c, truth):
    """Strip casts, parentheses and negations off a condition; the truth value follows the negations."""
    while isinstance(c, dict):
        if c.get('k') in ('cast', 'paren') and 'e' in c:
            c = c['e']
        elif c.get('k') == 'unop' and c.get('op') == '!':
            c = c['e']
            truth = not truth
        else:
            break
    return c, truth


def split(c, truth):
    """Conjuncts known at a point where `c` has the given truth value: (a && b) true gives both, (a || b) false gives both."""
    c, truth = peel(c, truth)
    if isinstance(c, dict) and c.get('k') == 'binop' and ((c.get('op') == '&&' and truth) or (c.get('op') == '||' and not truth)):
        return split(c['l'], truth) + split(c['r'], truth)
    return [(c, truth)] if isinstance(c, dict) else []


def dominating(fn):
    out = {}

    def visit(n, guards):
        if isinstance(n, list):
            g = guards
            for s in n:
                visit(s, g)
                if isinstance(s, dict) and s.get('k') == 'if' and 'else' not in s and _exits(s.get('then')):
                    g = g + split(s['c'], False)
                elif isinstance(s, dict) and s.get('k') == 'if' and 'else' in s and _exits(s.get('then')) and not _exits(s.get('else')):
                    g = g + split(s['c'], False)
                elif isinstance(s, dict) and s.get('k') == 'if' and 'else' in s and _exits(s.get('else')) and not _exits(s.get('then')):
                    g = g + split(s['c'], True)
            return
        if not isinstance(n, dict):
            return
        out[id(n)] = guards
        k = n.get('k')
        if k == 'compound':
            visit(n.get('b', []), guards)
        elif k == 'if':
            visit(n.get('init'), guards)
            visit(n.get('c'), guards)
            visit(n.get('then'), guards + split(n['c'], True))
            visit(n.get('else'), guards + split(n['c'], False))
        elif k in ('while', 'for'):
            visit(n.get('init'), guards)
            visit(n.get('c'), guards)
            g = guards + (split(n['c'], True) if n.get('c') is not None else [])
            visit(n.get('inc'), g)
            visit(n.get('b'), g)
        elif k == 'binop' and n.get('op') in ('&&', '||'):
            visit(n.get('l'), guards)
            visit(n.get('r'), guards + split(n['l'], n['op'] == '&&'))
        elif k == 'cond':
            visit(n.get('c'), guards)
            visit(n.get('then'), guards + split(n['c'], True))
            visit(n.get('else'), guards + split(n['c'], False))
        else:
            for kk, v in n.items():
                if kk != 'callee' and isinstance(v, (dict, list)):
                    visit(v, guards)

    visit(fn.get('body'), [])
    return out
