"""C07 -- scopes, overload sets and declaration sets are mutually consistent."""
from facts import AnalysisBroken, walk
from symex import Sym, Unsupported, NULL
import contracts
import keyrule

LEVEL = 'other'
TITLE = 'C07 scopes, overload sets and declaration sets are mutually consistent'

SCOPE = 'ipr::impl::Scope'
MAKERS = ['make_alias', 'make_var', 'make_field', 'make_bitfield', 'make_typedecl', 'make_fundecl',
          'make_primary_template', 'make_secondary_template']


def is_push_back(e, container_suffix):
    return (e[0] == 'call' and contracts.fn_qname(e[1]).endswith('::push_back')
            and isinstance(e[2], tuple))


def run(ck, F):
    ck.explanation = (
        'Each of the eight Scope::make_* entry points is evaluated symbolically for a first request P on an empty '
        'scope and then for a second request Q started from the state the first one left behind; the evaluator '
        'forks on `name found / not found` and `type found / not found`, which yields the three histories '
        '(redeclaration, new type under a known name, new name).  On every path the bookkeeping obligations of the '
        'property are checked on the resulting object graph (terms over P and Q, valid for all names and types). '
        'The comparators used by both lookups are checked by the KEY rule on the overload Sema selected.')
    ck.assume('the ordered-set utility is a valid search tree (C08)')
    F.need_rec(SCOPE)
    S = Sym(F, opaque=keyrule.key_opaque(F), max_depth=64)
    makers = []
    for n in MAKERS:
        fs = [f for f in F.fns_in(SCOPE) if f['name'] == n]
        if len(fs) != 1:
            raise AnalysisBroken(f'anchor vanished: Scope::{n}')
        makers.append(fs[0])

    R_once = ck.rule('C07.listed-once-in-order', 'every path of Scope::make_* appends the declaration it returns exactly '
                     'once to the scope\'s declaration sequence (entry order)', floor=8)
    R_keys = ck.rule('C07.lookup-keys', 'the overload set is found-or-created by the declared name, the entry is looked up '
                     'by the declared type (the initializer\'s type for an alias)', floor=8)
    R_redecl = ck.rule('C07.redeclare', 'a second declaration with the same name and type joins the decl-set of the first: '
                       'its master data is the first one\'s, it is appended after it, no new entry is created', floor=8)
    R_decl = ck.rule('C07.declare', 'a declaration with a new name or a new type creates one entry keyed by its type in the '
                     'overload set of its name and registers it there; its decl-set starts with itself', floor=16)
    R_master = ck.rule('C07.master', 'master() of a declaration is the first declaration of its decl-set (itself when it is '
                       'the first)', floor=24)
    R_factory = ck.rule('C07.own-factory', 'each make_* draws its declarations from its own decl_factory member', floor=8)
    factory_used = {}
    OVL = '$this.' + F.role_field('ipr::impl::Scope', lambda fl: fl['t'] == 'ipr::util::rb_tree::container<ipr::impl::Overload>', 'overload sets by name')

    seqname = None
    for f in makers:
        inst = 'Scope::' + f['name']
        try:
            runs1 = S.run(f['id'])
        except Unsupported as e:
            raise AnalysisBroken(f'{f["id"]}: outside the evaluator language: {e}')
        runs1 = [r for r in runs1 if r[1] == 'return']
        if not runs1:
            raise AnalysisBroken(f'{f["id"]}: no returning path on an empty scope')
        inst0 = inst
        for pi1, (st1, _k, v1) in enumerate(runs1):
            # every way the request can go on an empty scope is a first declaration and is judged as one
            inst = inst0 if len(runs1) == 1 else f'{inst0} [first path {pi1}: {contracts.render_conds(st1.conds, st1, {})[:60]}]'
            first = v1[1] if v1[0] == 'addr' else v1
            type_key = ('param', 1)
            # what is the declared type of request P?  Scope::make_alias keys on the initializer's type
            finds1 = [e for e in st1.effects if e[0] == 'chain_find']
            ins1 = [e for e in st1.effects if e[0] == 'tree_insert']
            ok_keys = (len(ins1) == 1 and ins1[0][2] == ('param', 0) and contracts.render(ins1[0][1], st1, {}) == OVL
                       and len(finds1) == 1)
            if ok_keys:
                k = finds1[0][2]
                if f['name'] == 'make_alias':
                    ok_keys = (k[0] in ('vcall', 'call') and 'type() const' in k[1] and k[2] == ('param', 1))
                else:
                    ok_keys = (k == ('param', 1))
            ck.check(R_keys, inst, ok_keys, f'{inst}: overload lookup key / entry lookup key are not (name, declared type): '
                     f'{[contracts.render(e[2], st1, {}) for e in ins1 + finds1]}', loc=f['loc'], fn=f['id'])
            self_check_path(ck, F, S, f, inst + '/first', st1, first, None, 'new-name', R_once, R_decl, R_master, 0)
            # which decl_factory member is used
            farms = sorted({contracts.render(e[2], st1, {}) for e in st1.effects if e[0] == 'emplace'})
            # its own factory: the Scope member of type decl_factory<T> for the class T it returns (the two template
            # factories share a type: each must keep to one member, and not the same one)
            T = f.get('ret', '').replace('*', '').replace('&', '').replace('const ', '').strip()
            cands = [fl['name'] for fl in F.rec['ipr::impl::Scope']['fields'] if fl['t'] == f'ipr::impl::decl_factory<{T}>']
            used = sorted({x.split('.')[1] for x in farms if x.startswith('$this.') and x.count('.') >= 2})
            good = len(farms) == 2 and len(used) == 1 and used[0] in cands and farms == [f'$this.{used[0]}.decls', f'$this.{used[0]}.master_info']
            if good and len(cands) > 1:
                other = factory_used.setdefault(T, {})
                other[f['name']] = used[0]
                good = len(set(other.values())) == len(other)
            ck.check(R_factory, inst, good,
                     f'{inst} allocates from {farms}, expected the two stores of its own decl_factory<{contracts.short(T)}> member ({cands})', loc=f['loc'], fn=f['id'])
            # second request from the state left by the first
            base_eff = len(st1.effects)
            base_c = len(st1.conds)
            try:
                runs2 = S.run(f['id'], args=keyrule.qparams(2), state=st1.fork())
            except Unsupported as e:
                raise AnalysisBroken(f'{f["id"]} (second request): outside the evaluator language: {e}')
            kinds = set()
            for st2, k2, v2 in runs2:
                if k2 != 'return':
                    ck.fail(R_decl, inst + '/second', f'{inst} may throw {v2} on a populated scope', loc=f['loc'], fn=f['id'])
                    continue
                conds = st2.conds[base_c:]
                found = [c for c, val in conds if isinstance(c, tuple) and c[0] == 'found']
                f_ovl = any(c[0] == 'found' and val and contracts.render(c[1], st2, {}) == OVL for c, val in conds)
                f_ent = any(c[0] == 'found' and val and contracts.render(c[1], st2, {}) != OVL for c, val in conds)
                root = v2[1] if v2[0] == 'addr' else v2
                if f_ovl and f_ent:
                    kind = 'redeclaration'
                elif f_ovl:
                    kind = 'new-type'
                else:
                    kind = 'new-name'
                kinds.add(kind)
                if kind == 'redeclaration':
                    check_redecl(ck, F, S, f, inst, st1, st2, first, root, base_eff, R_once, R_redecl, R_master)
                else:
                    self_check_path(ck, F, S, f, inst + '/' + kind, st2, root, first, kind, R_once, R_decl, R_master, base_eff)
            if kinds != {'redeclaration', 'new-type', 'new-name'}:
                ck.fail(R_redecl, inst, f'{inst}: second request explores {sorted(kinds)} instead of the three histories '
                        '(redeclaration / new type / new name)', loc=f['loc'], fn=f['id'])

    # ------------------------------------------------------------ a refused request leaves the scope as it was
    R_ref = ck.rule('C07.refusal-leaves-scope', 'a Scope::make_* request that is refused (it throws: an argument node refuses to give its '
                    'type, a consistency test of the request fails) has not yet entered anything into the scope: no overload set, entry, '
                    'master data or declaration was created on that path -- otherwise a name that was never declared looks up as an '
                    'overload set, or a decl-set holds a declaration the scope does not list', floor=8)
    Sr = Sym(F, opaque=keyrule.key_opaque(F), max_depth=64)

    def client_accessor_may_refuse(target, recv, args, st2):
        # a virtual accessor of a node the client handed in may refuse with std::logic_error (C14)
        if recv is not None and target.endswith(' const') and not args:
            t = recv
            while isinstance(t, tuple) and t and t[0] in ('deref', 'addr', 'castto', 'fld'):
                t = t[2] if t[0] == 'castto' else t[1]
            if isinstance(t, tuple) and t[:1] == ('param',):
                st2.throw = 'std::logic_error'
                return [st2]
        return []
    Sr.opaque_outcomes = client_accessor_may_refuse

    def entered(st, base):
        out = []
        for e in st.effects[base:]:
            if e[0] == 'tree_insert' and e[4] is not None:
                out.append('a new element of ' + contracts.render(e[1], st, {})[:50])
            elif e[0] in ('emplace', 'chain_insert'):
                out.append(('an element of ' if e[0] == 'emplace' else 'an entry in ') + contracts.render(e[2] if e[0] == 'emplace' else e[1], st, {})[:50])
            elif e[0] == 'call' and contracts.fn_simple(e[1]) in ('push_back', 'emplace_back'):
                out.append('an element appended to ' + contracts.render(e[2], st, {})[:50])
        return out
    for f in makers:
        inst = 'Scope::' + f['name']
        try:
            firsts = Sr.run(f['id'])
            allp = [(None, r) for r in firsts]
            # on a scope populated by any of the make_* functions (a decl-set may have been started by a sibling: a
            # specialization seen before its primary template, a variable redeclared as a field, ...)
            for g in makers:
                for st1, k1, _v1 in (firsts if g is f else Sr.run(g['id'])):
                    if k1 == 'return':
                        allp += [(st1, r) for r in Sr.run(f['id'], args=keyrule.qparams(len(f['params'])), state=st1.fork())]
        except Unsupported as e:
            raise AnalysisBroken(f'{f["id"]}: outside the evaluator language: {e}')
        bad = []
        for st1, (st, k, v) in allp:
            if k != 'throw':
                continue
            what = entered(st, len(st1.effects) if st1 is not None else 0)
            if what:
                when = contracts.render_conds(st.conds[(len(st1.conds) if st1 is not None else 0):], st, {})[:80]
                bad.append(f'refuses with {contracts.short(str(v))} ({"on a populated scope, " if st1 is not None else ""}when {when or "an argument refuses"}) '
                           f'after having created {sorted(set(what))[:3]}')
        ck.check(R_ref, inst, not bad, f'{f["id"]}: ' + '; '.join(sorted(set(bad))[:2]), loc=f['loc'], fn=f['id'])

    # ------------------------------------------------------------ comparators (KEY)
    K = keyrule.KeyChecker(ck, F, 'C07')
    tables = set()
    mv = [f for f in makers if f['name'] == 'make_var'][0]
    for f in makers:
        tables.update(K.factory(f))
    # Scope::operator[] (lookup by name) against an element entered by make_var
    sub = F.need_fn('ipr::impl::Scope::operator[](const ipr::Name &) const')
    tables.update(K.factory(mv, second=sub, this2=lambda st, v: ('sym', 'this')))
    K.finish_cover()
    K.finish_partial((('ipr::impl::Scope::make_alias(', 1, 'an alias is declared with the type of its initializer: the entry is keyed by that type'),))
    for r in (K.R_diag, K.R_lex):
        ck.rules[r]['floor'] = 9
    ck.rules[K.R_cover]['floor'] = 8
    ck.rules[K.R_atom]['floor'] = 1
    ck.rules[K.R_guard]['floor'] = 8
    ck.extra['tables'] = sorted(tables)

    # ------------------------------------------------------------ Overload::operator[] / elements / type
    R_sel = ck.rule('C07.select-first', 'Overload::operator[](type) yields the first declaration of the entry found for '
                    'that type and nothing when there is none; Scope::elements() is the entry-order sequence and '
                    'Scope::type() its on-demand product', floor=3)
    ov = F.need_fn('ipr::impl::Overload::operator[](const ipr::Type &) const')
    outs = S.run(ov['id'])
    good = False
    rets = [(st, v) for st, k, v in outs if k == 'return']
    if len(rets) == 1:
        st, v = rets[0]
        # empty overload set: only the not-found path exists -> absent
        good = contracts.render(v, st, {}) == 'absent'
    # with one registered entry
    st1, _k, v1 = [r for r in S.run(mv['id']) if r[1] == 'return'][0]
    first = v1[1]
    ovl_obj = [e[4] for e in st1.effects if e[0] == 'tree_insert'][0]
    outs = S.run(ov['id'], this=ovl_obj, args=[('param', 100)], state=st1.fork())
    sel = []
    first_of_set = 0
    for st, k, v in outs:
        if k != 'return':
            sel.append('throw')
            continue
        sel.append(contracts.render(v, st, {}))
        # the held declaration: element 0 of a sequence (the entry's decl-set), read by position
        if isinstance(v, tuple) and v[0] == 'obj' and v[1] in st.heap and len(st.heap[v[1]].fields) == 1:
            t = list(st.heap[v[1]].fields.values())[0]
            while isinstance(t, tuple) and t and t[0] in ('addr', 'deref', 'after', 'castto'):
                t = t[2] if t[0] in ('after', 'castto') else t[1]
            if isinstance(t, tuple) and t and t[0] in ('call', 'vcall') and contracts.fn_simple(t[1]) in ('get', 'at', 'operator[]') \
                    and len(t[3]) == 1 and t[3][0][0] == 'k' and t[3][0][1] == 0:
                first_of_set += 1
    good2 = len(sel) == 2 and 'absent' in sel and first_of_set == 1
    ck.check(R_sel, 'Overload::operator[]', good and good2,
             f'Overload::operator[] yields {sel} for (entry found, no entry); expected the decl-set element 0 / absent',
             loc=ov['loc'], fn=ov['id'], detail=sel)
    sc = contracts.observe(S, F, st1, ('sym', 'this'), {}, None) if False else None
    el = F.need_fn('ipr::impl::Scope::elements() const')
    ty = F.need_fn('ipr::impl::Scope::type() const')
    r_el = [contracts.render(v, st, {}) for st, k, v in S.run(el['id'])]
    r_ty = [contracts.render(v, st, {}) for st, k, v in S.run(ty['id'])]
    ck.check(R_sel, 'Scope::elements', r_el == ['$this.decls.seq'], f'Scope::elements() returns {r_el}', loc=el['loc'], fn=el['id'])
    ck.check(R_sel, 'Scope::type', r_ty == ['$this.decls'], f'Scope::type() returns {r_ty}', loc=ty['loc'], fn=ty['id'])
    check_homogeneous(ck, F, S)


def pushes_to(st, effects, target_render):
    out = []
    for e in effects:
        if e[0] == 'call' and contracts.fn_qname(e[1]).endswith('::push_back') and contracts.render(e[2], st, {}) == target_render:
            out.append(e[3][0])
    return out


def self_check_path(ck, F, S, f, inst, st, root, first, kind, R_once, R_decl, R_master, base_eff):
    """A path that declares a new master (new name, or new type under a known name)."""
    eff = st.effects[base_eff:]
    listed = pushes_to(st, eff, '$this.decls.seq')
    ck.check(R_once, inst, listed == [('addr', root)],
             f'{inst}: the declaration sequence receives {len(listed)} append(s) of the returned declaration', loc=f['loc'], fn=f['id'])
    names = contracts.name_paths(st, root)
    o = st.heap[root[1]]
    dd = o.fields.get('decl_data')
    md = st.heap[dd[1]].fields.get('master_data') if dd and dd[0] == 'obj' else None
    problems = []
    if not (md and md[0] == 'addr' and md[1][0] == 'obj'):
        problems.append('no master data attached')
    else:
        mdo = st.heap[md[1][1]]
        new_md = [e for e in eff if e[0] == 'emplace' and e[3] == md[1]]
        if len(new_md) != 1:
            problems.append('master data is not freshly created for a new (name, type)')
        P = ('param', 100) if kind != 'new-name' or first is not None else ('param', 0)
        T = ('param', 101) if first is not None else ('param', 1)
        want_t = T
        got_t = mdo.fields.get('type')
        if f['name'] == 'make_alias':
            if not (isinstance(got_t, tuple) and got_t[0] in ('vcall', 'call') and got_t[2] == T):
                problems.append('entry is not typed by the initializer\'s type')
        elif got_t != want_t:
            problems.append(f'entry is typed {contracts.render(got_t, st, {})}, not by the declared type')
        ovl = mdo.fields.get('overload')
        ci = [e for e in eff if e[0] == 'chain_insert']
        if len(ci) != 1 or ci[0][2] != md[1]:
            problems.append('the new entry is not registered in the overload set exactly once')
        elif not (ovl and ovl[0] == 'addr' and ci[0][1] == ('fld', ovl[1], 'entries') or
                  (ovl and ovl[0] == 'addr' and ovl[1][0] == 'obj' and st.heap[ovl[1][1]].fields.get('entries') == ci[0][1])):
            problems.append('the entry is registered in another overload set than the one it points to')
        if ovl and ovl[0] == 'addr' and ovl[1][0] == 'obj':
            oname = st.heap[ovl[1][1]].fields.get('name')
            if kind == 'new-name' and oname != (('param', 100) if first is not None else ('param', 0)):
                problems.append('the overload set is not named by the declared name')
        ds = mdo.fields.get('declset')
        dpush = [e for e in eff if e[0] == 'call' and contracts.fn_qname(e[1]).endswith('::push_back') and e[2] == ds]
        if len(dpush) != 1 or dpush[0][3][0] != ('addr', root):
            problems.append('the decl-set of the new entry does not start with the declaration')
    ck.check(R_decl, inst, not problems, f'{inst}: ' + '; '.join(problems), loc=f['loc'], fn=f['id'])
    acc = contracts.observe(S, F, st, root, names, accessor_filter=lambda n: n == 'master')
    ck.check(R_master, inst, acc.get('master') == 'R',
             f'{inst}: master() of a first declaration is `{acc.get("master")}`, expected the declaration itself',
             loc=f['loc'], fn=f['id'])


def check_redecl(ck, F, S, f, inst, st1, st2, first, root, base_eff, R_once, R_redecl, R_master):
    inst = inst + '/redeclaration'
    eff = st2.effects[base_eff:]
    listed = pushes_to(st2, eff, '$this.decls.seq')
    ck.check(R_once, inst, listed == [('addr', root)],
             f'{inst}: the declaration sequence receives {len(listed)} append(s) of the returned declaration', loc=f['loc'], fn=f['id'])
    problems = []
    if not (isinstance(root, tuple) and root[:1] == ('obj',) and root[1] in st2.heap and root[1] not in st1.heap):
        ck.fail(R_redecl, inst, f'{inst}: a second declaration with the same name and type returns `{contracts.render(root, st2, {})[:80]}`, '
                'not a declaration of its own: the scope lists one node twice and the decl-set does not grow', loc=f['loc'], fn=f['id'])
        return
    fo = st2.heap[first[1]]
    fmd = st2.heap[fo.fields['decl_data'][1]].fields.get('master_data')
    o = st2.heap[root[1]]
    md = st2.heap[o.fields['decl_data'][1]].fields.get('master_data')
    if md != fmd:
        problems.append('the redeclaration is not attached to the master data of the first declaration')
    if any(e[0] == 'chain_insert' for e in eff):
        problems.append('a redeclaration registers a second entry')
    if any(e[0] == 'emplace' and 'master_info' in contracts.render(e[2], st2, {}) for e in eff):
        problems.append('a redeclaration allocates new master data')
    if fmd and fmd[0] == 'addr':
        ds = st2.heap[fmd[1][1]].fields.get('declset')
        order = [e[3][0] for e in st2.effects if e[0] == 'call' and contracts.fn_qname(e[1]).endswith('::push_back') and e[2] == ds]
        if order != [('addr', first), ('addr', root)]:
            problems.append('the decl-set is not [first declaration, redeclaration] in entry order')
    ck.check(R_redecl, inst, not problems, f'{inst}: ' + '; '.join(problems), loc=f['loc'], fn=f['id'])
    names = {first[1]: 'FIRST'}
    for k, v in contracts.name_paths(st2, root).items():
        names.setdefault(k, v)
    acc = contracts.observe(S, F, st2, root, names, accessor_filter=lambda n: n == 'master')
    ck.check(R_master, inst, acc.get('master') == 'FIRST',
             f'{inst}: master() of a redeclaration is `{acc.get("master")}`, expected the first declaration',
             loc=f['loc'], fn=f['id'])
    names1 = contracts.name_paths(st2, first, 'FIRST')
    acc1 = contracts.observe(S, F, st2, first, names1, accessor_filter=lambda n: n == 'master')
    ck.check(R_master, inst + '/first-seen-again', acc1.get('master') == 'FIRST',
             f'{inst}: master() of the first declaration is `{acc1.get("master")}`', loc=f['loc'], fn=f['id'])


def check_tree_lookup(ck, F):
    """The two ordered indexes a scope is looked up through (overload sets by name: the owning tree; entries by type: the
    intrusive chain) are searched the way they are filled."""
    import c08
    R = ck.rule('C07.index-agrees', 'the ordered indexes of a scope (overload sets by name, entries of an overload set by type) are '
                'searched the way they are filled: on explicit trees of 0, 1 and 3 nodes with an uninterpreted comparator, find and '
                'insert take the same branch for the same comparison result and find reports exactly the node whose comparison was '
                'zero -- otherwise a declared name or type is not found again and a redeclaration becomes a second master', floor=6)
    by_name = F.rec['ipr::impl::Scope']['fields']
    picks = []
    for cls, what in (('ipr::impl::Scope', 'overload sets by name'), ('ipr::impl::Overload', 'entries by type')):
        for fl in F.need_rec(cls)['fields']:
            t = fl['t']
            if t.startswith(('ipr::util::rb_tree::container<', 'ipr::util::rb_tree::chain<')) and t in F.rec:
                picks.append((t, what))
    if len(picks) < 2:
        raise AnalysisBroken(f'the ordered indexes of Scope / Overload were not found (got {picks})')
    for tcls, what in picks:
        for n_nodes, problems, find0, insert0, _nd in c08.descent_check(F, tcls):
            ck.check(R, f'{what}: {contracts.short(tcls)}/{n_nodes}-node tree', not problems[0],
                     f'{tcls} ({what}): ' + '; '.join(problems[0]), loc=find0['loc'], fn=find0['id'])


def check_homogeneous_lookup(ck, F, S):
    """Looking a name up in a parameter list / enumeration / base list / handler region answers from the members entered so far."""
    R = ck.rule('C07.homogeneous-lookup', 'looking a name up in a homogeneous scope (parameters, enumerators, bases, exception '
                'parameter) yields the member whose name is that very name when the search of the member sequence finds one, and '
                'nothing only after the whole sequence was searched in vain; an answer taken from anything else (a remembered '
                'earlier answer) is accepted only if every function that enters a member resets what the shortcut reads', floor=3)
    ops = [f for f in F.fn.values() if f['name'] == 'operator[]' and (f.get('parent') or '').startswith('ipr::impl::homogeneous_scope<')
           and len(f['params']) == 1 and 'ipr::Name' in f['params'][0]['t']]
    if not ops:
        raise AnalysisBroken('no homogeneous_scope<...>::operator[](const Name&) instantiation found')
    P0 = ('param', 0)

    def has(t, pred):
        if isinstance(t, tuple):
            if pred(t):
                return True
            return any(has(x, pred) for x in t)
        return False
    for f in sorted(ops, key=lambda f: f['id']):
        inst = contracts.short(f['parent']) + '::operator[]'
        try:
            outs = S.run(f['id'])
        except Unsupported as e:
            raise AnalysisBroken(f'{f["id"]}: outside the evaluator language: {e}')
        problems = []
        kinds = set()
        for st, k, v in outs:
            if k != 'return':
                problems.append(f'may throw {v}')
                continue
            shown = contracts.render(v, st, {})
            searched_in_vain = any(isinstance(c, tuple) and c and c[0] == 'noelem' and val for c, val in st.conds)
            by_identity = [c for c, val in st.conds if val and isinstance(c, tuple) and c[0] == 'op' and c[1] == '==' and ('addr', P0) in (c[2], c[3])
                           and has(c, lambda t: isinstance(t, tuple) and len(t) == 2 and t[0] == 'elem')]
            if shown.startswith('some(elem(') and by_identity:
                kinds.add('found')
                continue
            if shown == 'absent' and searched_in_vain:
                kinds.add('absent')
                continue
            # a shortcut: which members of the scope object does it consult?
            reads = sorted({t[2] for c, _val in st.conds for t in _subterms(c) if isinstance(t, tuple) and len(t) == 3 and t[0] == 'fld' and t[1] == ('sym', 'this')})
            growers = [g for g in F.fns_in(f['parent']) if not g.get('const') and g.get('body') is not None and not g.get('ctor') and not g.get('dtor')
                       and any(n.get('k') == 'call' and (n.get('callee') or {}).get('name') in ('push_back', 'emplace_back', 'emplace_front', 'push_front', 'insert')
                               for n in walk(g['body']))]
            unreset = []
            for g in growers:
                written = {strip_member(n['l']) for n in walk(g['body']) if n.get('k') == 'binop' and n.get('op') == '=' and strip_member(n['l'])}
                for x in reads:
                    if x not in written:
                        unreset.append(f'{g["name"]} does not reset {x}')
            if not reads or unreset:
                problems.append(f'answers `{shown}` without searching the members, from {reads or "nothing"} '
                                f'({"; ".join(sorted(set(unreset))) or "no state of the scope is consulted"}): a name entered after that '
                                'state was recorded is not found')
            else:
                ck.note(f'{inst}: a shortcut consults {reads}; ' + ('every function that enters a member resets it' if growers else 'no function enters a member after construction'))
        for need in ('found', 'absent'):
            if need not in kinds:
                problems.append(f'no `{need}` outcome')
        ck.check(R, inst, not problems, f'{f["id"]}: ' + '; '.join(problems), loc=f['loc'], fn=f['id'])


def strip_member(n):
    from facts import strip_casts
    n = strip_casts(n)
    if n.get('k') == 'member' and strip_casts(n.get('e') or n.get('base') or {}).get('k') in ('this', None):
        return n.get('name')
    return None


def _subterms(t):
    if isinstance(t, tuple):
        yield t
        for x in t:
            yield from _subterms(x)


def check_scope_lookup(ck, F, S):
    """Scope::operator[](name) answers from the table of overload sets, for every name."""
    R = ck.rule('C07.scope-lookup', 'looking a name up in a scope that holds a declaration searches the table of overload sets with that '
                'very name on every path, and yields the set found, or nothing when the search fails: no name is answered without the '
                'search (evaluated on the state a first declaration left, with a second, unrelated name)', floor=2)
    op = F.need_fn('ipr::impl::Scope::operator[](const ipr::Name &) const')
    mk = F.need_fn([f['id'] for f in F.fns_in(SCOPE) if f['name'] == 'make_var'][0])
    try:
        firsts = [r for r in S.run(mk['id']) if r[1] == 'return']
    except Unsupported as e:
        raise AnalysisBroken(f'{mk["id"]}: {e}')
    if not firsts:
        raise AnalysisBroken(f'{mk["id"]}: no returning path on an empty scope')
    Qn = ('param', 100)
    kinds = set()
    problems = []
    outs_all = []
    for st1_, _k1, _v1 in firsts:          # every way the first declaration can go leaves a scope to look names up in
        try:
            outs_all += [(st1_, o) for o in S.run(op['id'], args=[Qn], state=st1_.fork())]
        except Unsupported as e:
            raise AnalysisBroken(f'{op["id"]}: {e}')
    for st1, (st, k, v) in outs_all:
        base = len(st1.effects)
        if k != 'return':
            problems.append(f'may throw {v}')
            continue
        finds = [e for e in st.effects[base:] if e[0] == 'tree_find' and e[2] == Qn]
        shown = contracts.render(v, st, {})
        found = [c for c, val in st.conds if isinstance(c, tuple) and c and c[0] == 'found' and c[2] == Qn]
        if not finds or not found:
            problems.append(f'answers `{shown}` under ({contracts.render_conds(st.conds[len(st1.conds):], st, {})[:120]}) without searching the overload '
                            'sets for the name: a declaration entered under such a name is not found')
            continue
        hit = [c for c, val in st.conds if isinstance(c, tuple) and c and c[0] == 'found' and c[2] == Qn and val]
        if hit:
            el = hit[0][3]
            good = shown.startswith('some(') and isinstance(el, tuple) and any(t == el for t in _subterms(st.heap[v[1]].fields if False else v)) or \
                (isinstance(v, tuple) and v[0] == 'obj' and any(fv == ('addr', el) or fv == el for fv in st.heap[v[1]].fields.values()))
            kinds.add('found')
            if not good:
                problems.append(f'the search finds an overload set but the answer is `{shown}`')
        else:
            kinds.add('absent')
            if shown != 'absent':
                problems.append(f'the search fails but the answer is `{shown}`')
    for need in ('found', 'absent'):
        if need not in kinds:
            problems.append(f'no `{need}` outcome')
    ck.check(R, 'Scope::operator[]/found', not [p for p in problems if 'fails' not in p and 'absent' not in p.split(':')[0]], f'{op["id"]}: ' + '; '.join(problems), loc=op['loc'], fn=op['id'])
    ck.check(R, 'Scope::operator[]/absent', not problems, f'{op["id"]}: ' + '; '.join(problems), loc=op['loc'], fn=op['id'])


def check_homogeneous(ck, F, S):
    """Parameter lists, enumerations, base lists, handler regions: singleton sets."""
    check_scope_lookup(ck, F, S)
    check_tree_lookup(ck, F)
    check_homogeneous_lookup(ck, F, S)
    import c17 as _c17
    _c17.insertion_order(ck, F, 'C07')          # the stores behind the homogeneous scopes keep entry order (first match = first entered)
    import c12 as _c12
    from symex import Sym as _Sym
    _c12.positions_rule(ck, F, _Sym(F, opaque=contracts.default_opaque(F), max_depth=64), prefix='C07')
    # `the scope lists every declaration`: what size() / elements() report is the store of declarations, however it was filled
    import c09 as _c09
    _c09.scope_size_rule(ck, F, 'C07')
    R = ck.rule('C07.singleton-sets', 'parameters, enumerators, bases and exception parameters are their own master, their '
                'decl-set is the singleton of themselves, and their overload set selects them exactly for their own type', floor=4)
    cases = [
        ('Parameter_list::add_member', 'ipr::impl::Parameter_list::add_member(const ipr::Name &, const ipr::Type &)'),
        ('Enum::add_member', 'ipr::impl::Enum::add_member(const ipr::Name &)'),
        ('Class::declare_base', 'ipr::impl::Class::declare_base(const ipr::Type &)'),
        ('Block::new_handler', 'ipr::impl::Block::new_handler(const ipr::Name &, const ipr::Type &)'),
    ]
    for inst, fid in cases:
        f = F.need_fn(fid)
        try:
            outs = [r for r in S.run(fid) if r[1] == 'return']
        except Unsupported as e:
            raise AnalysisBroken(f'{fid}: outside the evaluator language: {e}')
        if not outs:
            raise AnalysisBroken(f'{fid}: no returning path')
        inst0 = inst
        for pi, (st, _k, v) in enumerate(outs):
            inst = inst0 if len(outs) == 1 else f'{inst0} [path {pi}: {contracts.render_conds(st.conds, st, {})[:90]}]'
            root = v[1] if v[0] == 'addr' else v
            if not (isinstance(root, tuple) and root[:1] == ('obj',) and root[1] in st.heap):
                ck.fail(R, inst, f'{inst}: answers with `{contracts.render(v, st, {})[:80]}`, a member that was already there, instead of entering a new one',
                        loc=f['loc'], fn=fid)
                continue
            if inst0 == 'Block::new_handler':
                # the declaration is the handler's exception parameter
                ehs = [oid for oid, o in st.heap.items() if o.cls == 'ipr::impl::EH_parameter']
                names = contracts.name_paths(st, root)
                for oid in ehs:
                    names[oid] = 'EH'
                acc = contracts.observe(S, F, st, root, names, accessor_filter=lambda n: n == 'exception')
                if len(ehs) != 1 or acc.get('exception') != 'EH':
                    ck.fail(R, inst, f'exception() of a new handler is `{acc.get("exception")}`', loc=f['loc'], fn=fid)
                    continue
                root = ('obj', ehs[0])
            names = contracts.name_paths(st, root)
            acc = contracts.observe(S, F, st, root, names, accessor_filter=lambda n: n in ('master', 'decl_set'))
            dsok = False
            ds = acc.get('decl_set')
            dsobj = [oid for oid, nm in names.items() if nm == ds]
            if dsobj:
                d = st.heap[dsobj[0]]
                dsok = d.cls.startswith('ipr::impl::singleton_ref<') and d.fields.get('datum') == root
            ck.check(R, inst, acc.get('master') == 'R' and dsok,
                     f'{inst}: master()={acc.get("master")}, decl_set()={ds} (singleton of itself expected)', loc=f['loc'], fn=fid)
    # singleton_overload::operator[]
    ops = [f for f in F.fn.values() if f['name'] == 'operator[]' and (f.get('parent') or '').startswith('ipr::impl::singleton_overload<')]
    if not ops:
        raise AnalysisBroken('no singleton_overload<T>::operator[] instantiation found')
    for f in sorted(ops, key=lambda f: f['id']):
        outs = S.run(f['id'])
        rs = sorted(contracts.render(v, st, {}) + ' if ' + contracts.render_conds(st.conds, st, {}) for st, k, v in outs if k == 'return')
        # decided on the paths: one identity test between the requested type and the held declaration's type; the declaration
        # when they are the same object, nothing when they are not (whichever way round the test is written)
        seen_cases = set()
        good = len(outs) == 2
        for st, k, v in outs:
            if k != 'return' or len(st.conds) != 1:
                good = False
                continue
            c, b = st.conds[0]
            if not (isinstance(c, tuple) and c[:1] == ('op',) and len(c) == 4 and c[1] in ('==', '!=')):
                good = False
                continue
            same = (c[1] == '==') == bool(b)
            sides = [contracts.render(x, st, {}) for x in c[2:]]
            good = good and any(x == '&P0' for x in sides) and any(x.startswith('&$this.decl') for x in sides)
            res = contracts.render(v, st, {})
            good = good and (res.startswith('some($this.decl)') if same else res == 'absent')
            seen_cases.add(same)
        good = good and seen_cases == {True, False}
        ck.check(R, contracts.short(f['parent']) + '::operator[]', good,
                 f'singleton overload selects {rs}', loc=f['loc'], fn=f['id'])


def scope_keys(ck, F, prefix):
    """The KEY obligations of the tables a scope keeps (overload sets by name, entries by type), for a property that needs what a
    scope answered once to be answered again."""
    makers = [f for f in F.fns_in('ipr::impl::Scope') if f['name'].startswith('make_') and f.get('body') is not None]
    if len(makers) < 8:
        raise AnalysisBroken(f'only {len(makers)} Scope::make_* functions found')
    K = keyrule.KeyChecker(ck, F, prefix)
    mv = [f for f in makers if f['name'] == 'make_var'][0]
    for f in sorted(makers, key=lambda f: f['id']):
        K.factory(f)
    sub = F.need_fn('ipr::impl::Scope::operator[](const ipr::Name &) const')
    K.factory(mv, second=sub, this2=lambda st, v: ('sym', 'this'))
    K.finish_cover()
    K.finish_partial((('ipr::impl::Scope::make_alias(', 1, 'an alias is declared with the type of its initializer: the entry is keyed by that type'),))
    for r in (K.R_diag, K.R_lex):
        ck.rules[r]['floor'] = 9
    ck.rules[K.R_cover]['floor'] = 8
    ck.rules[K.R_atom]['floor'] = 1
    ck.rules[K.R_guard]['floor'] = 8
