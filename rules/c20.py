"""C20 -- Lexicons are isolated: independent instances can be used from different threads."""
from facts import AnalysisBroken, walk

LEVEL = 'other'
TITLE = 'C20 Lexicons are isolated: independent instances can be used from different threads'

# writable globals every unit that includes <iostream> carries (static init of the standard streams)
ALLOWED_WRITABLE = {'_ZStL8__ioinit': 'std::__ioinit of <iostream> (libstdc++ stream initialisation object)',
                    'llvm.global_ctors': 'constructor list for std::__ioinit',
                    '__dso_handle': 'DSO handle used to register the destructor of std::__ioinit'}
ALLOWED_EXTERNAL_PREFIX = ('_ZTVN10__cxxabiv1', '_ZTI', '_ZTS', '_ZTV')
NON_REENTRANT = {'rand', 'srand', 'strtok', 'localtime', 'gmtime', 'asctime', 'ctime', 'setlocale', 'tmpnam', 'strerror',
                 'getenv', 'putenv', 'setenv', 'readdir', 'getpwnam', 'getpwuid', 'gethostbyname', 'drand48', 'lrand48',
                 'mrand48', 'ttyname', 'ecvt', 'fcvt', 'gcvt', 'basename', 'dirname', 'getlogin', 'wcstok', 'random',
                 'srandom', 'l64a', 'crypt', 'ptsname', 'std::rand', 'std::srand', 'std::strtok', 'std::localtime',
                 'std::gmtime', 'std::asctime', 'std::ctime', 'std::setlocale', 'std::getenv', 'std::strerror', 'std::tmpnam'}
MBSTATE_LAST_ARG = ('c8rtomb', 'mbrtoc8', 'c16rtomb', 'mbrtoc16', 'c32rtomb', 'mbrtoc32', 'mbrtowc', 'wcrtomb', 'mbrlen', 'mbsrtowcs', 'wcsrtombs',
                    'mbsnrtowcs', 'wcsnrtombs')
LIB_NS = ('ipr::',)


def run(ck, F):
    ck.explanation = (
        'Two threads working on different Lexicons can only share memory through objects of static storage duration. '
        'The LLVM IR of every library unit is scanned for global definitions that are not `constant` (E7) and the '
        'type-checked AST for every variable of static storage duration: each must be constexpr/const, constant '
        'initialised, without mutable members and not thread_local; no call reaches a non-reentrant C library function.')
    if not F.ir:
        raise AnalysisBroken('no LLVM IR facts')
    R1 = ck.rule('C20.ir-no-writable-global', 'the objects compiled from the library define no writable global, no guard '
                 'variable and no thread-local (allow-list: the <iostream> initialiser)', floor=5)
    for unit, ir in sorted(F.ir.items()):
        bad = []
        for g in ir['writable']:
            n = g['name']
            if g['external']:
                if n.startswith(ALLOWED_EXTERNAL_PREFIX) or n in ALLOWED_WRITABLE:
                    continue
                bad.append(f'uses external mutable global {g.get("demangled", n)}')
                continue
            if n in ALLOWED_WRITABLE:
                continue
            what = 'guard variable (dynamic initialisation of a function-local static)' if n.startswith('_ZGV') else 'writable global'
            bad.append(f'{what} {g.get("demangled", n)}' + (' [thread_local]' if g['tls'] else ''))
        ck.check(R1, unit, not bad, f'{unit}: ' + '; '.join(bad), loc='src/' + unit,
                 detail={'globals_in_ir': ir['total'], 'constant': ir['constants'],
                         'allowed_writable': [g['name'] for g in ir['writable'] if g['name'] in ALLOWED_WRITABLE]})
    R2 = ck.rule('C20.static-storage-const', 'every variable of static storage duration declared by the library is constexpr or '
                 'const with constant initialisation, has no mutable member and is not thread_local', floor=15)
    for g in sorted(F.globals, key=lambda g: g['q'] + g['loc']):
        if g.get('unit') == 'probe.cxx' and not g['loc'].startswith(('include/', 'src/')):
            continue
        bad = []
        if not (g['constexpr'] or g['const']):
            bad.append('is neither constexpr nor const')
        if g.get('init') is not None and not g.get('constant_init', False):
            bad.append('is dynamically initialised')
        if g.get('init') is None and g.get('is_definition') and not g['constexpr']:
            bad.append('has no initialiser')
        if g['mutable_member']:
            bad.append('has a mutable member')
        if g['tls']:
            bad.append('is thread_local')
        ck.check(R2, g['q'], not bad, f'{g["storage"]} variable {g["q"]} of type {g["t"]} ' + ', '.join(bad), loc=g['loc'])
    R3 = ck.rule('C20.no-nonreentrant-call', 'no library function calls a non-reentrant C library function', floor=1000)
    n = 0
    for f in F.fn.values():
        for c in walk(f.get('body')):
            if c.get('k') != 'call':
                continue
            cal = c.get('callee') or {}
            q = cal.get('q', '')
            if q in NON_REENTRANT:
                ck.fail(R3, f['id'] + ' -> ' + q, f'{f["id"]} calls {q}, which keeps hidden static state', loc=f['loc'], fn=f['id'])
            # the restartable conversion functions use one hidden static conversion state when they are given a null state pointer
            qn = q.split('::')[-1]
            if qn in MBSTATE_LAST_ARG and (q == qn or q == 'std::' + qn) and c.get('args'):
                a = c['args'][-1]
                while isinstance(a, dict) and a.get('k') in ('cast', 'paren') and 'e' in a:
                    a = a['e']
                null = isinstance(a, dict) and (a.get('k') in ('nullptr', 'null') or (a.get('k') == 'lit' and str(a.get('v', a.get('cv'))) in ('0', 'nullptr'))
                                                or str(a.get('cv')) == '0' or a.get('lt') in ('nullptr', 'null'))
                if null:
                    ck.fail(R3, f['id'] + ' -> ' + q, f'{f["id"]} calls {q} with a null conversion state: the function then uses its own static state, '
                            'shared by every Lexicon, Printer and thread of the process', loc=f['loc'], fn=f['id'])
        n += 1
        ck.ok(R3, f['id'])
    R3b = ck.rule('C20.no-process-wide-setting', 'no library function changes a setting of the whole process (the default memory resource, the '
                  'global locale, the terminate / new handlers, the C locale, the synchronisation of the standard streams): such a setting is '
                  'state shared by every Lexicon and every thread, whatever object the call is made from', floor=1000)
    PROCESS_SETTERS = ('std::pmr::set_default_resource', 'std::locale::global', 'std::set_terminate', 'std::set_new_handler', 'std::setlocale',
                       'setlocale', 'std::ios_base::sync_with_stdio', 'std::signal', 'signal', 'std::atexit', 'atexit', 'std::at_quick_exit',
                       'std::srand', 'srand', 'putenv', 'setenv')
    for f in F.fn.values():
        hits = sorted({(c.get('callee') or {}).get('q', '').split('<')[0] for c in walk(f.get('body'))
                       if c.get('k') == 'call' and (c.get('callee') or {}).get('q', '').split('<')[0] in PROCESS_SETTERS})
        ck.check(R3b, f['id'], not hits, f'{f["id"]} calls {hits}: a process-wide setting that every other Lexicon and thread then lives with',
                 loc=f['loc'], fn=f['id'])
    R4 = ck.rule('C20.tables-are-members', 'the factory classes and the Lexicon have no static data member: every table belongs to '
                 'one Lexicon instance', floor=9)
    import contracts
    for cls in contracts.FACTORY_CLASSES + ['ipr::util::string_pool', 'ipr::util::string::arena', 'ipr::impl::Scope', 'ipr::impl::Region']:
        r = F.need_rec(cls)
        st = [s for s in r.get('static_members', []) if not s['constexpr']]
        ck.check(R4, cls, not st, f'{cls} has non-constexpr static data member(s) {[s["name"] for s in st]}', loc=r['loc'])
