"""C17 -- printed text depends only on graph structure and printer options (necessary conditions)."""
from facts import AnalysisBroken, walk, strip_casts, stmts
from symex import Sym, State, Unsupported
import contracts
import ppgraph

LEVEL = 'other'
TITLE = 'C17 printed text depends only on graph structure and printer options'

PRINTER_FILES = ('src/io.cxx', 'include/ipr/io')
UNORDERED = ('std::map<', 'std::multimap<', 'std::set<', 'std::multiset<', 'std::unordered_map<', 'std::unordered_set<',
             'std::unordered_multimap<', 'std::unordered_multiset<', 'ipr::disambiguation_map_type')
ADDRESS_ORDER = ('ipr::impl::compare', 'ipr::util::rb_tree::', 'std::less<', 'std::hash<', 'std::greater<', 'std::sort', 'std::stable_sort')
LOCATION_READERS = ('source_location', 'unit_location', 'span')


def printer_functions(F):
    return {f['id']: f for f in F.fn.values() if f['loc'].split(':')[0] in PRINTER_FILES}


def reachable(F, roots):
    """Repository functions reachable from the roots; virtual calls expanded to every overrider in the facts."""
    overriders = {}
    for r in F.rec.values():
        for m in r['methods']:
            for o in m.get('overrides', []):
                overriders.setdefault(o, set()).add(m['id'])
    seen, todo = set(), list(roots)
    edges = {}
    while todo:
        fid = todo.pop()
        if fid in seen:
            continue
        seen.add(fid)
        f = F.fn.get(fid)
        if f is None:
            continue
        for n in walk(f.get('body')):
            tgt = []
            if n.get('k') in ('call', 'ctor') and n.get('callee'):
                tgt.append(n['callee']['id'])
                if n.get('dyn'):
                    stack = [n['callee']['id']]
                    while stack:
                        x = stack.pop()
                        for o in overriders.get(x, ()):
                            if o not in tgt:
                                tgt.append(o)
                                stack.append(o)
            if n.get('k') == 'lambda':
                for g in F.fn.values():
                    if g.get('parent') == n.get('cls'):
                        tgt.append(g['id'])
            for t in tgt:
                edges.setdefault(fid, set()).add(t)
                if t not in seen:
                    todo.append(t)
    return seen, edges


def insertion_order(ck, F, prefix):
    """Sequence implementations append at the end and index from the beginning; borrowed by C07 (entry order of a scope)."""
    # ---------------------------------------------------------------- sequences in insertion order
    R4 = ck.rule(f'{prefix}.insertion-order', 'sequence implementations append at the end and index from the beginning', floor=4)
    for tmpl, grow in (('ipr::impl::obj_list', 'emplace_after'), ('ipr::impl::obj_sequence', 'emplace_back'), ('ipr::impl::ref_sequence', None)):
        insts = [n for n, r in F.rec.items() if r.get('template') == tmpl]
        if not insts:
            raise AnalysisBroken(f'no instantiation of {tmpl}')
        for cls in sorted(insts)[:40]:
            pbs = [f for f in F.fns_in(cls) if f['name'] == 'push_back']
            # the insertion point of obj_list: its own data member of the list's iterator type (whatever it is called)
            marks = {fl['name'] for fl in F.rec[cls]['fields'] if 'iterator' in fl['t']}
            for f in pbs:
                names = [(n.get('callee') or {}).get('name') for n in walk(f['body']) if n.get('k') == 'call']
                good = grow in names and not any(x in names for x in ('emplace_front', 'push_front', 'insert', 'emplace'))
                if grow == 'emplace_after':
                    # mark = emplace_after(mark, ...): the insertion point is the last element inserted
                    def mentions_mark(x):
                        return any(m.get('k') == 'member' and m.get('name') in marks for m in walk(x))
                    asg = [n for n in walk(f['body']) if (n.get('k') == 'call' and (n.get('callee') or {}).get('name') == 'operator='
                                                          and mentions_mark(n.get('obj'))) or (n.get('k') == 'binop' and n.get('op') == '=' and mentions_mark(n.get('l')))]
                    ea = [n for n in walk(f['body']) if n.get('k') == 'call' and (n.get('callee') or {}).get('name') == 'emplace_after']
                    good = good and bool(asg) and len(ea) == 1 and mentions_mark((ea[0].get('args') or [{}])[0])
                ck.check(R4, contracts.short(cls) + '::push_back/' + str(len(f['params'])), good,
                         f'{f["id"]} does not append at the end ({names})', loc=f['loc'], fn=f['id'])
    for cls in [n for n, r in F.rec.items() if r.get('template') == 'ipr::impl::obj_list']:
        ctor = [f for f in F.fns_in(cls) if f.get('ctor') and not f.get('copy')]
        marks = {fl['name'] for fl in F.rec[cls]['fields'] if 'iterator' in fl['t']}
        for f in ctor:
            good = any(i['kind'] == 'member' and i['name'] in marks and 'before_begin' in str(i['e']) for i in f.get('inits', [])) \
                or any(n.get('k') == 'binop' and n.get('op') == '=' and strip_casts(n.get('l') or {}).get('name') in marks and 'before_begin' in str(n.get('r'))
                       for n in walk(f.get('body'))) \
                or any(fl['name'] in marks and 'before_begin' in str(fl.get('init')) for fl in F.rec[cls]['fields'])
            ck.check(R4, contracts.short(cls) + '::ctor', good, f'{f["id"]} does not start the insertion mark before the first element', loc=f['loc'], fn=f['id'])
    # ref_sequence exposes vector::push_back (append) and at()
    rs = F.need_rec('ipr::impl::ref_sequence<ipr::Expr>')
    ck.check(R4, 'ref_sequence storage', any(b['name'].startswith('std::vector<const void *') for b in rs['bases']),
             'ref_sequence is no longer backed by a vector (append + positional at)', loc=rs['loc'])



def run(ck, F):
    ck.explanation = (
        'Byte identity of two runs is a statement about pairs of executions and is not decided.  Decided: the '
        'necessary conditions a realistic regression would break -- no address-dependent value can flow to the stream '
        '(no pointer insertion, no pointer-to-integer conversion, no address-ordered or hashed container iterated, no '
        'address-ordering primitive reachable from the printer), all sequences are walked in insertion order, the '
        'printer starts from a fully initialised state and never writes to the graph, and source locations are read '
        'only under the print_locations guard.')
    pf = printer_functions(F)
    if len(pf) < 150:
        raise AnalysisBroken(f'only {len(pf)} printer functions found')
    ents = ppgraph.entries(F)
    roots = [f['id'] for f in ents.values()] + [fid for fid, f in pf.items() if f['name'] == 'operator<<' and not f.get('parent')]
    reach, edges = reachable(F, roots)
    ck.extra['reachable_functions'] = len(reach)

    # which node a request yields must not depend on what unrelated requests came before it: a table that finds `equal` what is
    # not equal hands the first requester's node to the second, and the two Lexicons' histories then show in the text
    import keyrule
    import wire
    K = keyrule.KeyChecker(ck, F, 'C17')
    for r in (K.R_diag, K.R_lex, K.R_atom):
        ck.rules[r]['desc'] = ('(the node a unifying factory returns depends on the request only, not on which other requests an '
                               'unrelated part of the program made earlier in that Lexicon) ' + ck.rules[r]['desc'])
    cur = wire.compute(F)
    for fid in sorted(cur):
        if any((p.get('origin') or '').startswith('unified') for p in cur[fid]) and F.fn[fid].get('parent') in contracts.FACTORY_CLASSES:
            K.factory(F.fn[fid])
    K.finish_cover()
    K.finish_partial(())
    for r in (K.R_diag, K.R_lex):
        ck.rules[r]['floor'] = 30
    ck.rules[K.R_atom]['floor'] = 2

    # the bytes of a spelling are what the printer writes: a write past what was allocated for a word lands in the next word's header
    # (or is overwritten by it), and what is printed then depends on which unrelated words were interned, and in which order
    R_fp = ck.rule('C17.arena-writes-in-bounds', 'a function that fills a header obtained from arena::allocate(A) writes the length field and '
                   'data[0 .. A) only (affine comparison, valid for every length): a terminator written after the last byte belongs to the '
                   'neighbouring word, and text that relies on it changes with the interning history', floor=1)
    import arena as _arena
    for fid_, loc_, inst_, ok_, msg_ in _arena.footprint(F):
        ck.check(R_fp, inst_, ok_, msg_, loc=loc_, fn=fid_)

    R1 = ck.rule('C17.no-address-text', 'no function reachable from the printer inserts a pointer into the stream, converts a '
                 'pointer to an integer or prints type_info text', floor=300)
    R2 = ck.rule('C17.ordered-iteration', 'no iteration reachable from the printer ranges over a hashed container, an ordered container keyed '
                 'by a pointer, or one of the library\'s address-ordered trees: every walk is in an order the program determined', floor=5)
    R3 = ck.rule('C17.no-address-order', 'no address-ordering primitive (node comparison, tree lookup, std::less/hash/sort on '
                 'pointers) is reachable from the printer', floor=300)
    nloops = 0
    for fid in sorted(reach):
        f = F.fn.get(fid)
        if f is None or not f['loc'].startswith(('src/', 'include/')):
            continue
        bad = []
        for n in walk(f.get('body')):
            if n.get('k') == 'call':
                c = n.get('callee') or {}
                if c.get('name') == 'operator<<' and (c.get('parent') or '').startswith('std::basic_ostream<') and n.get('args'):
                    at = n['args'][0].get('t', '')
                    if at.endswith('*') and 'char' not in at:
                        bad.append(f'inserts a pointer ({at}) into the stream')
            if n.get('k') == 'cast' and n.get('ck') in ('PointerToIntegral',):
                bad.append('converts a pointer to an integer')
            if n.get('k') == 'typeid' and fid in pf:
                bad.append('uses typeid in printed text')
        ck.check(R1, fid, not bad, f'{fid}: ' + '; '.join(sorted(set(bad))), loc=f['loc'], fn=fid)
        ao = []
        for t in edges.get(fid, ()):
            if t.startswith(ADDRESS_ORDER) and not t.startswith('ipr::util::rb_tree::link'):
                ao.append(t.split('(')[0])
        ck.check(R3, fid, not ao, f'{fid} (reachable from the printer) calls address-ordering primitive(s) {sorted(set(ao))[:3]}',
                 loc=f['loc'], fn=fid)
        # loops
        for n in walk(f.get('body')):
            rng_t = None
            if n.get('k') == 'rangefor':
                rng_t = (n.get('range') or {}).get('t', '')
            elif n.get('k') == 'call' and (n.get('callee') or {}).get('q', '').startswith(('std::for_each', 'std::copy', 'std::transform', 'std::accumulate')):
                a0 = n['args'][0] if n.get('args') else {}
                rng_t = a0.get('t', '')
            if rng_t is None:
                continue
            nloops += 1
            okr = rng_t.startswith(('ipr::Sequence<', 'const ipr::Sequence<', 'std::vector<ipr::Basic_', 'const std::vector<ipr::Basic_',
                                    'const char8_t *', 'const ipr::impl::(anonymous namespace)::', 'ipr::Sequence<', 'const ipr::Basic_',
                                    'const std::forward_list<', 'std::forward_list<')) or 'Sequence<' in rng_t and 'Iterator' in rng_t
            # the order of an iteration depends on addresses only for hashed containers, for ordered containers keyed by a
            # pointer, and for the library's own address-ordered trees; arrays, vectors, lists, strings and ipr::Sequence
            # are walked in the order the program put their elements
            bare = rng_t.replace('const ', '')
            import re as _re
            keyed = _re.match(r'std::(?:multi)?(?:map|set)<\s*([^,>]*)', bare)
            badr = bare.startswith(('std::unordered_', 'ipr::disambiguation_map_type', 'ipr::util::rb_tree::')) or \
                (keyed is not None and keyed.group(1).rstrip().endswith('*'))
            inst = f'{contracts.short(contracts.fn_qname(fid))}@{rng_t[:60]}'
            ck.check(R2, inst, not badr, f'{fid} iterates over {rng_t}: the order of the elements depends on addresses / hash values', loc=f['loc'], fn=fid)
    ck.extra['iterations'] = nloops

    # ---------------------------------------------------------------- what is printed does not depend on earlier prints
    R2b = ck.rule('C17.stream-state-untouched', 'no function of the printer inserts a sticky manipulator or alters the formatting state of the '
                  'caller\'s stream: the text of a print does not depend on what was printed through the same stream before (a unit printed '
                  'again, or a twin graph printed next, gives the same bytes)', floor=150)
    import c18
    for f in sorted(pf.values(), key=lambda f: f['id']):
        sticky = c18.sticky_in(f)
        ck.check(R2b, f['id'], not sticky, f'{f["id"]} alters the stream state with {sorted(set(sticky))} and never restores it: numbers printed '
                 'later through the same stream (positions, file / line / column of locations) come out in that base / format', loc=f['loc'], fn=f['id'])

    # ---------------------------------------------------------------- values compared whole
    R2d = ck.rule('C17.sink-not-observed', 'no function of the printer asks the stream where it stands or how it fares (tellp, rdstate, good, eof, '
                  'fail, bad, width(), precision(), getloc, rdbuf()->in_avail ...): what is written for a graph does not depend on what the sink '
                  'already holds or can report -- the same unit printed again, to a fresh or to a used stream, gives the same text', floor=150)
    OBSERVERS = ('tellp', 'tellg', 'rdstate', 'good', 'eof', 'fail', 'bad', 'operator bool', 'operator!', 'getloc', 'in_avail', 'pubseekoff', 'seekp')
    for f in sorted(pf.values(), key=lambda f: f['id']):
        seen_obs = sorted({(n.get('callee') or {}).get('name') for n in walk(f.get('body'))
                           if n.get('k') == 'call' and (n.get('callee') or {}).get('name') in OBSERVERS
                           and ((n['callee'].get('parent') or '').startswith(('std::basic_ostream', 'std::basic_ios', 'std::ios_base', 'std::basic_streambuf', 'std::basic_istream')))})
        ck.check(R2d, f['id'], not seen_obs, f'{f["id"]} reads {seen_obs} of the stream: the text then depends on the state of the sink, not only on the graph '
                 'and the options', loc=f['loc'], fn=f['id'])
    R2c = ck.rule('C17.whole-value-compared', 'a comparison in the printer that decides what is printed compares whole objects: an operator== / != '
                  'inherited from a base class is not applied to objects of a derived class that adds data members (the comparison would '
                  'silently ignore them: a location known by its file only would count as no location)', floor=150)
    for f in sorted(pf.values(), key=lambda f: f['id']):
        bad = []
        for n in walk(f.get('body')):
            if n.get('k') != 'call':
                continue
            c = n.get('callee') or {}
            if c.get('name') not in ('operator==', 'operator!=', 'operator<=>') or not c.get('parent') or c['parent'] not in F.rec:
                continue
            for opnd in [n.get('obj')] + list(n.get('args', [])):
                x = opnd
                while isinstance(x, dict) and x.get('k') == 'cast' and x.get('ck') in ('NoOp', 'LValueToRValue'):
                    x = x.get('e')
                if isinstance(x, dict) and x.get('k') == 'cast' and x.get('ck') in ('DerivedToBase', 'UncheckedDerivedToBase'):
                    inner = x.get('e') or {}
                    while isinstance(inner, dict) and inner.get('k') == 'cast' and inner.get('ck') in ('NoOp', 'LValueToRValue'):
                        inner = inner.get('e')
                    dt = (inner.get('t') or '').replace('const ', '').replace('&', '').strip()
                    if dt in F.rec and dt != c['parent'] and F.rec[dt]['fields']:
                        bad.append(f'{contracts.short(c["parent"])}::{c["name"]} applied to a {contracts.short(dt)} (line {n.get("ln")}): its member(s) '
                                   f'{[fl["name"] for fl in F.rec[dt]["fields"]]} are ignored')
        ck.check(R2c, f['id'], not bad, f'{f["id"]}: ' + '; '.join(sorted(set(bad))), loc=f['loc'], fn=f['id'])

    insertion_order(ck, F, 'C17')
    # a statement carries the location the client gave *it*: statement nodes are made afresh by every request (a unified statement
    # would share one location among all its uses, and an unrelated request could rewrite what a unit prints)
    import borrow as _borrow
    _borrow.borrow(ck, F, 'C05', 'C17', {'make-is-fresh'})
    # the location printer is a visitor that overrides the Stmt / Decl hooks only: it sees a node that carries a location because the
    # default hook of the node's own class hands *that node* to the hook of its super-category
    _borrow.borrow(ck, F, 'C06', 'C17', {'4-default-hook'})
    # what is printed for a word is the word (not the bytes that happen to follow it in the arena)
    import c18 as _c18
    _c18.c_string_insertions(ck, F, 'C17')

    # ---------------------------------------------------------------- printer state / graph untouched
    R5 = ck.rule('C17.printer-state', 'the Printer constructor initialises every data member; printer functions never cast away '
                 'const and never write to the graph', floor=300)
    pr = F.need_rec('ipr::Printer')
    ctors = [f for f in F.fns_in('ipr::Printer') if f.get('ctor') and not f.get('copy')]
    if not ctors:
        raise AnalysisBroken('Printer constructor not found')
    for c in ctors:
        inited = {i['name'] for i in c.get('inits', []) if i['kind'] == 'member'}
        fields = [fl for fl in pr['fields']]
        missing = [fl['name'] for fl in fields if fl['name'] not in inited and 'init' not in fl]
        ck.check(R5, 'Printer::Printer', not missing, f'Printer constructor leaves {missing} uninitialised', loc=c['loc'], fn=c['id'])
    ck.check(R5, 'Printer mutable members', not any(fl['mutable'] for fl in pr['fields']), 'Printer has mutable members', loc=pr['loc'])
    for fid, f in sorted(pf.items()):
        cc = [n for n in walk(f.get('body')) if n.get('k') == 'cast' and n.get('explicit') == 'const']
        ck.check(R5, fid, not cc, f'{fid} uses const_cast', loc=f['loc'], fn=fid)
    # no write to the graph during the symbolic executions of the entries
    S = Sym(F, opaque=ppgraph.printer_opaque(F), max_depth=160, max_paths=400)
    S.recursion_guard = True
    R5b = ck.rule('C17.graph-untouched', 'executing a printer entry on a node writes only to the printer, its visitors and the stream', floor=300)
    for cls, ifc, st, obj, prov in ppgraph.wired_nodes(F):
        if not F.derives_from(cls, 'ipr::Expr'):
            continue
        for kind, fn in sorted(ents.items()):
            if kind == 'xpr_type' and not F.derives_from(cls, 'ipr::Type'):
                continue
            base_objs = set(st.heap)
            status, res = ppgraph.run_entry(F, S, fn, st, obj)
            inst = f'{kind}({contracts.short(cls)}{ppgraph.variant_tag(prov)})'
            if status != 'ok':
                if status == 'cycle':
                    ck.note(f'{inst}: dispatch cycle (reported by C18)')
                    continue
                raise AnalysisBroken(f'{inst}: {res}')
            bad = []
            for s2, k, v in res:
                for e in s2.effects[len(st.effects):]:
                    if e[0] == 'write':
                        root = e[1]
                        root = storage_root(F, root)
                        if root == ppgraph.PRINTER or (root[0] == 'obj' and root[1] not in base_objs):
                            continue
                        bad.append(contracts.render(e[1], s2, {}))
                for oid in base_objs:
                    if oid in s2.heap and s2.heap[oid].fields != st.heap[oid].fields:
                        bad.append('fields of ' + contracts.short(s2.heap[oid].cls))
            ck.check(R5b, inst, not bad, f'{inst} writes to the graph: {sorted(set(bad))[:3]}', loc=fn['loc'], fn=fn['id'])

    # ---------------------------------------------------------------- nothing is left indeterminate by a constructor
    import initrule as _initrule
    R_ind = ck.rule('C17.locations-initialised', 'every user-provided constructor of a statement / declaration class leaves the source and unit location of the new node determinate (the location structs initialise their own members, or the constructor does): a node that was given no location prints none, not whatever the storage held before -- which would differ between two Lexicons with different allocation histories', floor=200)
    _SINGULAR = {'ipr::Sequence<': 'a default-constructed Sequence<T>::Iterator is a singular iterator (it may only be assigned to), as the '
                 'iterator requirements allow; the library never reads one'}
    for name_, r_ in sorted(F.rec.items()):
        if not name_.startswith('ipr::') or r_.get('lambda'):
            continue
        for m_ in r_['methods']:
            c_ = F.fn.get(m_['id']) if m_.get('ctor') else None
            if c_ is None or c_.get('implicit') or c_.get('defaulted') or c_.get('body') is None or c_.get('copy'):
                continue
            leaves = _initrule.ctor_leaves(F, c_)
            leaves = [l for l in leaves if any(x in l for x in ('locus', 'location', 'line', 'column', 'file', 'unit'))]
            why = next((w for k_, w in _SINGULAR.items() if name_.startswith(k_) and name_.endswith('::Iterator')), None)
            if leaves and why:
                ck.note(f'{contracts.short(name_)}: {why}')
                leaves = []
            ck.check(R_ind, contracts.short(contracts.fn_qname(c_['id'])) + '/' + str(len(c_['params'])), not leaves,
                     f'{c_["id"]} leaves {leaves[:4]} of the {contracts.short(name_)} it constructs indeterminate (no initialiser in the constructor, no default '
                     'member initialiser, and default-initialisation of that member does nothing)', loc=c_['loc'], fn=c_['id'])

    # ---------------------------------------------------------------- locations are printed for every statement printed
    R6b = ck.rule('C17.locations-printed', 'every dispatch of a node that may be a statement (its static type derives from ipr::Stmt, or is a '
                  'base of it) into one of the visitors that print statements and declarations is preceded, in the same function, by '
                  'a call of the location printer on that same node: a statement printed by re-using the current visitor skips its location', floor=2)

    def bare(x):
        # the expression without conversions, line numbers and types: two mentions of the same node compare equal
        if isinstance(x, dict):
            if x.get('k') == 'cast' and x.get('ck') in ('DerivedToBase', 'UncheckedDerivedToBase', 'NoOp', 'LValueToRValue'):
                return bare(x.get('e'))
            return tuple(sorted((k, bare(v)) for k, v in x.items() if k not in ('ln', 't', 'col')))
        if isinstance(x, list):
            return tuple(bare(v) for v in x)
        return x

    def stripc(x):
        while isinstance(x, dict) and x.get('k') == 'cast' and x.get('ck') in ('DerivedToBase', 'UncheckedDerivedToBase', 'NoOp'):
            x = x.get('e')
        return x or {}

    def cls_of(t):
        return (t or '').replace('const ', '').rstrip('&* ').strip()
    # the functions that print the location of a node handed to them: Location_printer::print(printer, node), and any helper that
    # passes one of its own parameters on to such a function (a shared prologue of the statement and declaration printers)
    loc_fns = {}
    for fid, f in F.fn.items():
        if (f.get('q') or '').endswith('Location_printer::print') and len(f.get('params', [])) == 2:
            loc_fns[fid] = 1
    if not loc_fns:
        raise AnalysisBroken('anchor vanished: Location_printer::print(printer, node)')
    grew = True
    while grew:
        grew = False
        for fid, f in pf.items():
            if fid in loc_fns:
                continue
            for n in walk(f.get('body')):
                cid = (n.get('callee') or {}).get('id') if n.get('k') == 'call' else None
                if cid in loc_fns and len(n.get('args') or []) > loc_fns[cid]:
                    a = stripc(n['args'][loc_fns[cid]])
                    if a.get('k') == 'ref' and a.get('kind') == 'parm' and a.get('idx') is not None:
                        loc_fns[fid] = a['idx']
                        grew = True
                        break
    sites = []
    for fid, f in pf.items():
        prints = [(n.get('ln', 0), bare(n['args'][loc_fns[n['callee']['id']]])) for n in walk(f.get('body'))
                  if n.get('k') == 'call' and (n.get('callee') or {}).get('id') in loc_fns and len(n.get('args') or []) > loc_fns[n['callee']['id']]]
        for n in walk(f.get('body')):
            if n.get('k') == 'call' and (n.get('callee') or {}).get('name') == 'accept' and n.get('obj') is not None and n.get('args'):
                sites.append((f, n, cls_of(stripc(n['obj']).get('t')), cls_of(stripc(n['args'][0]).get('t')), prints))
    located = {v for f, n, rt, v, prints in sites if prints and v in F.rec}
    if len(located) < 2:
        raise AnalysisBroken(f'visitors dispatched into next to a location-printer call: {sorted(located)} (the statement and the declaration printers expected)')
    for f, n, rt, v, prints in sorted(sites, key=lambda x: (x[0]['id'], x[1].get('ln', 0))):
        if v not in located or rt not in F.rec:
            continue
        if not (rt == 'ipr::Stmt' or F.derives_from(rt, 'ipr::Stmt') or F.derives_from('ipr::Stmt', rt)):
            continue
        me = bare(n['obj'])
        ok = any(ln <= n.get('ln', 0) and b == me for ln, b in prints)
        ck.check(R6b, f'{contracts.short(contracts.fn_qname(f["id"]))}:{contracts.short(rt)}->{contracts.short(v)}', ok,
                 f'{f["id"]} (line {n.get("ln")}) dispatches a {contracts.short(rt)} into {contracts.short(v)} without printing its location first: '
                 'with print_locations enabled the location of that node never appears', loc=f['loc'], fn=f['id'])

    # ---------------------------------------------------------------- whether a location is printed is decided by the node alone
    R6c = ck.rule('C17.location-decided-by-node', 'once location printing is on, whether and how the location of a node is written is '
                  'decided by that node\'s own location: no path condition of the location printer reads the printer (a remembered '
                  '`last location written`, a counter): two nodes that carry the same location both get it', floor=1)
    lps = [f for f in F.fn.values() if (f.get('parent') or '').endswith('xpr::Location_printer') and f['name'] == 'operator()' and f.get('body')
           and any('ipr::Stmt' in p['t'] for p in f['params'])]
    if not lps:
        raise AnalysisBroken('anchor vanished: Location_printer::operator()(const Stmt&)')
    Slp = Sym(F, opaque=ppgraph.printer_opaque(F), max_depth=32)
    for f in lps:
        st0 = State()
        o = st0.new_obj(f['parent'])
        for fl in F.rec[f['parent']]['fields']:
            if 'ipr::Printer' in fl['t']:
                st0.heap[o[1]].fields[fl['name']] = ('addr', ppgraph.PRINTER) if fl['t'].rstrip().endswith('*') else ppgraph.PRINTER
        try:
            outs = Slp.run(f['id'], this=o, args=[('param', 0)], state=st0)
        except Unsupported as e:
            raise AnalysisBroken(f'{f["id"]}: {e}')

        def mentions_printer(t):
            return t == ppgraph.PRINTER or (isinstance(t, tuple) and any(mentions_printer(x) for x in t))
        bad = sorted({contracts.render(c, s2, {})[:100] for s2, k, v in outs for c, b in s2.conds if mentions_printer(c)})
        ck.check(R6c, contracts.short(contracts.fn_qname(f['id'])), not bad, f'{f["id"]}: what is written for a node depends on the printer\'s own state: '
                 f'{bad[:3]} -- a node whose location equals one written earlier loses it', loc=f['loc'], fn=f['id'])

    # ---------------------------------------------------------------- locations
    R6 = ck.rule('C17.locations-gated', 'source / unit locations are read only by the location printer, which is created only under '
                 'the print_locations test', floor=2)
    readers = set()
    for fid in sorted(reach):
        f = F.fn.get(fid)
        if f is None or fid not in pf:
            continue
        for n in walk(f.get('body')):
            if n.get('k') == 'call' and (n.get('callee') or {}).get('name') in LOCATION_READERS \
                    and (n['callee'].get('parent') or '').startswith(('ipr::Stmt', 'ipr::Region', 'ipr::impl::')):
                readers.add(fid)
    ok_readers = all('Location_printer::operator()' in r for r in readers)
    ck.check(R6, 'readers', bool(readers) and ok_readers, f'locations are read in {sorted(readers)}', loc='src/io.cxx')
    # the visitor that carries the location printer is constructed only inside an `if (printer.print_locations)`
    sites = []
    for fid, f in pf.items():
        found = [n for n in walk(f.get('body')) if n.get('k') in ('ctor', 'decl') and 'Constant_visitor<ipr::xpr::Location_printer>' in str(n.get('cls') or n.get('vars') or '')]
        if found:
            sites.append(fid)
            guarded = guarded_by_flag(f['body'], 'print_locations') or flag_on_every_path(F, f, 'print_locations')
            ck.check(R6, 'guard in ' + contracts.short(contracts.fn_qname(fid)), guarded,
                     f'{fid} creates the location printer outside an `if (print_locations)` test', loc=f['loc'], fn=fid)
    ck.check(R6, 'construction sites', len(sites) == 1, f'the location printer is created in {sites}', loc='src/io.cxx')
    callers = [fid for fid in pf if any((n.get('callee') or {}).get('id', '').startswith('ipr::xpr::Location_printer::print') for n in walk(pf[fid].get('body')) if n.get('k') == 'call')]
    ck.extra['location_print_callers'] = sorted(callers)

    # ---------------------------------------------------------------- client options stay the client's
    R7 = ck.rule('C17.options-client-only', 'the public switches of Printer (print_locations) are read, never written, by the '
                 'library: what is printed depends on the value the client set, throughout a print and after it', floor=1)
    options = [fl['name'] for fl in pr['fields'] if fl['access'] == 'public' and fl['t'] in ('bool', 'int', 'unsigned int')]
    if 'print_locations' not in options:
        raise AnalysisBroken('anchor vanished: public switch Printer::print_locations')
    ASSIGN = ('=', '+=', '-=', '|=', '&=', '^=', '*=', '/=', '<<=', '>>=')
    for opt in options:
        writers, readers_n = [], 0
        for fid, f in F.fn.items():
            for n in walk(f.get('body')):
                if n.get('k') == 'member' and n.get('name') == opt and n.get('cls') == 'ipr::Printer':
                    readers_n += 1
                tgt = None
                if n.get('k') == 'binop' and n.get('op') in ASSIGN:
                    tgt = strip_casts(n.get('l') or {})
                elif n.get('k') == 'unop' and n.get('op') in ('++', '--', 'post++', 'post--', '++pre', '--pre'):
                    tgt = strip_casts(n.get('e') or {})
                if tgt and tgt.get('k') == 'member' and tgt.get('name') == opt and tgt.get('cls') == 'ipr::Printer':
                    writers.append(f'{fid} [{f["loc"].split(":")[0]}:{n.get("ln")}]')
        if not any(n.get('k') == 'member' and n.get('cls') == 'ipr::Printer' for f in pf.values() for n in walk(f.get('body'))):
            raise AnalysisBroken('no member of Printer is referenced by any printer function: the member matcher is broken')
        ck.check(R7, 'Printer::' + opt, not writers, f'Printer::{opt} is assigned by the library in {writers[:3]}: locations are then '
                 f'printed (or withheld) against the client\'s setting', loc=pr['loc'],
                 detail={'uses': readers_n})


def storage_root(F, t):
    """The object a written location belongs to.  A member call on X designates X's storage (operator<< returns its
    printer); a free helper that takes the printer first and returns Printer& hands the same printer back."""
    while isinstance(t, tuple) and t:
        if t[0] in ('fld', 'deref', 'addr', 'index'):
            t = t[1]
        elif t[0] in ('call', 'after') and t[2] is not None:
            t = t[2]
        elif t[0] == 'call' and t[2] is None and t[3] and storage_root(F, t[3][0]) == ppgraph.PRINTER \
                and (F.fn.get(t[1]) or {}).get('ret', '').replace('const ', '').strip() == 'ipr::Printer &':
            t = ppgraph.PRINTER
        else:
            break
    return t


def flag_on_every_path(F, f, flag):
    """The same question asked of the evaluated paths (whichever way the test is written: if-form, early return, a local copy of
    the switch): on every path that creates a location visitor the switch was read and found set."""
    S = Sym(F, opaque=ppgraph.printer_opaque(F), max_depth=32)
    try:
        outs = S.run(f['id'], args=[ppgraph.PRINTER] + [('param', i) for i in range(1, len(f['params']))])
    except Unsupported:
        return False

    def reads_flag_set(c, b):
        # the condition, with negations folded into the outcome
        while isinstance(c, tuple) and c[:2] in (('un', '!'), ('op', '!')) and len(c) == 3:
            c, b = c[2], not b
        if isinstance(c, tuple) and c[:1] == ('op',) and len(c) == 4 and c[1] in ('==', '!=') and any(x[:1] == ('k',) for x in c[2:] if isinstance(x, tuple)):
            k = next(x for x in c[2:] if isinstance(x, tuple) and x[:1] == ('k',))
            other = c[3] if c[2] is k else c[2]
            return reads_flag_set(other, (bool(k[1]) == b) if c[1] == '==' else (bool(k[1]) != b))
        return isinstance(c, tuple) and c[:1] == ('fld',) and c[2] == flag and bool(b)
    made = 0
    for st, k, v in outs:
        if any('Location_printer' in o.cls for o in st.heap.values()):
            made += 1
            if not any(reads_flag_set(c, b) for c, b in st.conds):
                return False
    return made > 0


def guarded_by_flag(body, flag):
    """Is every construction of the location visitor inside the then-branch of `if (<...>.flag)`?"""
    ok = True
    found = False

    def rec(n, guarded):
        nonlocal ok, found
        if isinstance(n, dict):
            if n.get('k') == 'if':
                c = strip_casts(n.get('c') or {})
                is_flag = c.get('k') == 'member' and c.get('name') == flag
                rec(n.get('then'), guarded or is_flag)
                rec(n.get('else'), guarded)
                rec(n.get('c'), guarded)
                return
            if n.get('k') == 'decl' and 'Location_printer' in str(n.get('vars')):
                found = True
                if not guarded:
                    ok = False
            for v in n.values():
                if isinstance(v, (dict, list)):
                    rec(v, guarded)
        elif isinstance(n, list):
            for v in n:
                rec(v, guarded)
    rec(body, False)
    return ok and found
