"""C04 -- names and atoms are unified; a spelling has a single Identifier everywhere."""
from facts import AnalysisBroken, walk
from symex import Sym, Unsupported
import contracts
import keyrule
import eqrule

LEVEL = 'other'
TITLE = 'C04 names and atoms are unified; a spelling has a single Identifier everywhere'

NF = 'ipr::impl::name_factory'
EF = 'ipr::impl::expr_factory'

UNIFYING = {
    NF: ['get_identifier', 'get_suffix', 'get_operator', 'get_conversion', 'get_ctor_name', 'get_dtor_name',
         'get_guide_name', 'get_logogram'],
    EF: ['get_linkage', 'get_calling_convention', 'get_symbol', 'get_label', 'get_this', 'make_literal',
         'make_template_id'],
}


def run(ck, F):
    ck.explanation = (
        'Name and atom constructors are evaluated symbolically; the comparator selected by overload resolution '
        'inside each instantiated insert is evaluated on (element of request P, key of request Q).  Sibling rule: '
        'every constructor that maps a spelling to an Identifier/Logogram must resolve the reserved words (which '
        'are themselves Identifier/Logogram nodes) before inserting a dynamic node.  Value equality of the atom '
        'classes is evaluated to a conjunction of identity comparisons over all components.')
    ck.assume('words are interned: one String node per content (property C03)')
    ck.assume('the tree is a valid search tree for a total-order comparator (property C08)')
    S = Sym(F, opaque=contracts.default_opaque(F), max_depth=48)
    fns = []
    for cls, names in UNIFYING.items():
        F.need_rec(cls)
        got = [f for f in F.fns_in(cls) if f['name'] in names]
        missing = set(names) - {f['name'] for f in got}
        if missing:
            raise AnalysisBroken(f'anchor(s) vanished from {cls}: {sorted(missing)}')
        fns.extend(got)
    cons = {}
    for f in fns:
        try:
            cons[f['id']] = contracts.factory_contract(F, f, S)
        except Unsupported as e:
            raise AnalysisBroken(f'{f["id"]}: outside the evaluator language: {e}')

    RN = ck.rule('C04.NAMING', 'every name/atom constructor yields, on every path, an element of an insert-or-find '
                 'table or a process-wide constant; never a fresh allocation', floor=18)
    for f in sorted(fns, key=lambda f: f['id']):
        inst = contracts.short(contracts.fn_qname(f['id'])) + '(' + ', '.join(contracts.short(p['t']) for p in f['params']) + ')'
        bad = []
        for p in cons[f['id']]:
            og = p.get('origin', '')
            if 'accessors' in p and not og.startswith('unified'):
                bad.append(f'path [{p["when"][:60]}] returns a {contracts.short(p["class"])} of origin {og}')
        ck.check(RN, inst, not bad, '; '.join(bad), loc=f['loc'], fn=f['id'])

    K = keyrule.KeyChecker(ck, F, 'C04')
    tables = set()
    for f in sorted(fns, key=lambda f: f['id']):
        tables.update(K.factory(f))
    K.finish_cover()
    R_sp = ck.rule('C04.spelling-by-content', 'a table keyed by a spelling that is handed in as a String compares the characters, not the '
                   'address of the String: a String with the same characters from another pool (another Lexicon, a free-standing String) '
                   'denotes the same spelling and must find the same node', floor=2)
    flagged = {x[0] for x in K.string_identity}
    for inst, f, pi, ra, rb, loc, cmp_fid in K.string_identity:
        ck.fail(R_sp, inst, f'{f["id"]}: the String parameter `{f["params"][pi]["name"] or pi}` is compared by address ({ra} <=> {rb}) in '
                f'{contracts.short(contracts.fn_qname(cmp_fid))}: equal spellings held in different String objects get different nodes', loc=loc, fn=cmp_fid)
    for inst in sorted(K.tables_seen):
        if inst not in flagged and 'String' in inst:
            ck.ok(R_sp, inst)
    K.finish_partial(())
    # the tables the names and atoms are unified in find what they hold only as long as they stay valid search trees: an entry cut off by a wrong rotation is
    # built a second time -- `same arguments, same node` then depends on what was requested in between
    import c08 as _c08
    import c11 as _c11
    _c08.run(_c11._Only(ck, {'fixup-step', 'descent', 'count-and-reuse'}), F, prefix='C04')
    for r in (K.R_diag, K.R_cover, K.R_lex):
        ck.rules[r]['floor'] = 13
    ck.rules[K.R_atom]['floor'] = 2
    ck.rules[K.R_guard]['floor'] = 15
    ck.extra['tables'] = sorted(tables)
    # names are unified by the characters of their String: two spellings are one name exactly when their Strings are one, and a
    # String stands for its spelling only if it views every byte of it (a view cut at the first NUL makes `ab\\0cd` and `ab` one name)
    R_sc = ck.rule('C04.string-content', 'the String a spelling is interned as views the data and the length of the one arena header made from '
                   '(word.data(), word.length()): every byte of the request, embedded NULs included, and no other', floor=1)
    import c03 as _c03
    _c03.one_pool(ck, F, 'C04')
    # values spelled alike compare equal only if equal spellings are one String (the empty spelling included), and only while what a
    # value node refers to outlives the call that built it
    import c15 as _c15
    _c15.one_string_rule(ck, F, 'C04')
    import history as _history
    _history.call_storage_rule(ck, F, 'C04')
    # transfer values compare equal exactly when spelled the same: the constructors of transfers tell requests apart by both
    # components on every path (a shortcut that looks at the linkage only gives one value to several spellings)
    import borrow as _borrow
    _borrow.borrow(ck, F, 'C01', 'C04', {'KEY-guard'}, only=lambda inst: 'get_transfer' in inst)
    # names recognise a reserved spelling by the identity of the String it is interned as: a reserved spelling must come out of the
    # pool as the reserved-word node, whatever it looks like (the table also holds `C`, `C++`, `...` and `=0`)
    import words as _words2
    R_ri = ck.rule('C04.reserved-spellings-interned', 'string_pool::intern answers every row of the reserved-word table with the reserved-word '
                   'node: each path that creates a dynamic String follows a failed search of the table or is taken for no row (guards '
                   'evaluated row by row) -- otherwise get_linkage(get_string("C")) builds a second "C" linkage', floor=1)
    _fi = F.intern_fn()
    _rts = _words2.spelling_routes(F, _fi['id'], lambda fid: F.fn.get(fid) is None or F.fn[fid]['name'] in ('word_if_known', 'make_string'))
    _bad = [(w_, [x_.decode('utf-8', 'replace') for x_ in ps_[:4]]) for w_, ps_, _s in _rts if ps_]
    ck.check(R_ri, 'intern(word)', bool(_rts) and not _bad, f'{_fi["id"]}: the reserved spelling(s) {[b_[1] for b_ in _bad]} get a second, dynamic String',
             loc=_fi['loc'], fn=_fi['id'])
    import arena as _arena
    for inst_, ok_, msg_, loc_, fid_ in _arena.owned_bytes(F):
        ck.check(R_sc, inst_, ok_, msg_ + ' -- two different spellings can then be one Identifier / Logogram, or one spelling two', loc=loc_, fn=fid_)
    import words as _words
    _W, _kw, _strays = _words.static_words_outside_table(F)
    R_tab_only = ck.rule('C04.static-words-in-the-table', 'every statically allocated word (an object of the class of the reserved-word table\'s '
                         'elements) is an element of that table: interning recognises a reserved spelling by searching the table, so a word '
                         'kept anywhere else -- a constant of its own, a data member -- is a second Identifier / Logogram / String for its spelling', floor=1)
    ck.check(R_tab_only, 'known_words', not _strays, f'object(s) of {contracts.short(_W)} outside {_kw["q"]}: ' + '; '.join(f'{w} [{l}]' for w, l in _strays[:4]),
             loc=(_strays[0][1] if _strays else _kw['loc']))
    RT = ck.rule('C04.tables-used', 'every ordered table of name_factory / expr_factory is reached by an analysed request', floor=13)
    for cls in (NF, EF):
        rec = F.rec[cls]
        for fl in rec['fields']:
            if fl['t'].startswith('ipr::util::rb_tree::container<'):
                ck.check(RT, fl['name'], fl['name'] in tables, f'table {cls}::{fl["name"]} is never the target of an analysed insert', loc=rec['loc'])

    # ---------------------------------------------------------------- reserved-word sibling rule
    RS = ck.rule('C04.reserved-words-first', 'a constructor mapping a spelling to an Identifier or a Logogram (the two '
                 'interfaces the reserved-word constants implement) resolves the reserved words before inserting '
                 'a dynamic node -- its siblings do', floor=2)
    # which interfaces do the reserved-word constants implement?  (computed, not listed)
    kw = [g for g in F.globals if g['name'] == 'known_words']
    if not kw:
        raise AnalysisBroken('reserved-word table known_words not found')
    elem = kw[0]['t'].replace('const ', '').split('[')[0].strip()
    erec = F.rec.get(elem) or F.rec.get(elem.replace('(anonymous namespace)', '(anon)'))
    if erec is None:
        raise AnalysisBroken(f'element class of known_words ({elem}) not found')
    ifaces = [a for a in [erec['name']] + F.ancestors(erec['name']) if a in ('ipr::Identifier', 'ipr::Logogram', 'ipr::String')]
    ck.extra['reserved_word_interfaces'] = ifaces
    for f in sorted(fns, key=lambda f: f['id']):
        ret = f['ret'].replace('const ', '').replace(' &', '').strip()
        if ret not in ifaces or ret == 'ipr::String':
            continue
        if not f['params'] or 'ipr::String' not in f['params'][0]['t']:
            continue
        # every path that inserts a dynamic node either follows a failed search of the reserved-word table, or is taken for no
        # reserved word (its guards on the spelling are evaluated on every row of the table)
        import words
        routes = words.spelling_routes(F, f['id'], keyrule.key_opaque(F))
        bad = [(w, [x.decode('utf-8', 'replace') for x in ps[:3]]) for w, ps, _searched in routes if ps]
        inst = contracts.short(contracts.fn_qname(f['id'])) + '(const String &)'
        ck.check(RS, inst, bool(routes) and not bad,
                 f'{f["id"]} inserts a dynamic {contracts.short(ret)} for the reserved spelling(s) {[b[1] for b in bad]} without first looking '
                 f'the spelling up among the reserved words, which are themselves {contracts.short(ret)} nodes (path: {[b[0][:100] for b in bad]}): '
                 'the spelling of a built-in gets a second node', loc=f['loc'], fn=f['id'],
                 detail=[w[:120] for w, _ps, _s in routes])

    # ---------------------------------------------------------------- special constants
    RK = ck.rule('C04.constants', 'get_linkage("C"/"C++"), get_label(default) and get_this resolve to the process-wide '
                 'constants / reserved words', floor=4)

    def results(fid):
        return [(p['when'], p.get('result')) for p in cons[fid] if 'result' in p]
    for f in fns:
        if f['name'] == 'get_linkage':
            rs = [r for _w, r in results(f['id'])]
            ck.check(RK, contracts.short(contracts.fn_qname(f['id'])) + '(' + contracts.short(f['params'][0]['t']) + ')',
                     any('c_link' in (r or '') for r in rs) and any('cxx_link' in (r or '') for r in rs),
                     'get_linkage does not return the two standard linkage constants', loc=f['loc'], fn=f['id'])
        if f['name'] == 'get_label':
            rs = results(f['id'])
            ck.check(RK, 'get_label', any('default_cst' in (r or '') and 'known_word("default")' in w for w, r in rs),
                     'get_label(default identifier) does not yield the default constant', loc=f['loc'], fn=f['id'])
        if f['name'] == 'get_this':
            acc = [p['accessors'].get('name') for p in cons[f['id']] if 'accessors' in p]
            ck.check(RK, 'get_this', acc == ['ipr::impl::(anon)known_word("this")'],
                     f'get_this is not named by the reserved word `this`: {acc}', loc=f['loc'], fn=f['id'])

    eqrule.check_equalities(ck, F, 'C04')
