"""C11 -- qualified types are in normal form."""
from facts import AnalysisBroken, walk
from symex import Sym, State, Unsupported
import contracts
import keyrule

LEVEL = 'other'
TITLE = 'C11 qualified types are in normal form'

GQ = 'ipr::impl::type_factory::get_qualified(ipr::Qualifiers, const ipr::Type &)'
LOGIC = 'std::logic_error'
# exception classes of the standard library derived from std::logic_error
LOGIC_DERIVED = {'std::logic_error', 'std::domain_error', 'std::invalid_argument', 'std::length_error', 'std::out_of_range'}


def is_qualified_impl(F, cls):
    """is `cls` (possibly written with const / pointer decoration) a class that implements ipr::Qualified?"""
    c = (cls or '').replace('const ', '').rstrip('*& ').strip()
    return c in F.rec and F.derives_from(c, 'ipr::Qualified')


def union_of(t, a, b):
    return t in (('op', '|', a, b), ('op', '|', b, a))


def says_subset(c, is_small, is_big):
    """c states small <= big as sets of bits: (small & big) == small or (small | big) == big, either way round."""
    if not (isinstance(c, tuple) and len(c) == 4 and c[0] == 'op' and c[1] == '=='):
        return False
    for a, b in ((c[2], c[3]), (c[3], c[2])):
        a, b = strip_value(a), strip_value(b)
        if isinstance(a, tuple) and a[0] == 'op' and len(a) == 4:
            x, y = strip_value(a[2]), strip_value(a[3])
            pair = (is_small(x) and is_big(y)) or (is_small(y) and is_big(x))
            if pair and a[1] == '&' and is_small(b):
                return True
            if pair and a[1] == '|' and is_big(b):
                return True
    return False


def node_key_ok(S, F, st, v, want_quals, want_main):
    """Is the node handed out on this path the node of (want_quals, want_main)?  A node built (or found in the table) on this
    path is read through its accessors; a node that existed before (a remembered earlier answer) must be tied to the key by the
    path condition: its qualifiers equal want_quals and its main variant is want_main.  Returns (ok, description)."""
    node = v[1] if isinstance(v, tuple) and v and v[0] == 'addr' else v
    if isinstance(node, tuple) and node and node[0] == 'obj' and node[1] in st.heap:
        cls = st.heap[node[1]].cls
        try:
            mv = S.run(F.final_overrider(cls, [e['method'] for e in F.rec[cls]['final_overriders'] if e['name'] == 'second'][0]), this=node, args=[], state=st.fork())
            qv = S.run(F.final_overrider(cls, [e['method'] for e in F.rec[cls]['final_overriders'] if e['name'] == 'first'][0]), this=node, args=[], state=st.fork())
        except (Unsupported, IndexError, KeyError):
            return False, 'a node whose key cannot be read'
        main = mv[0][2] if len(mv) == 1 else None
        quals = strip_value(qv[0][2]) if len(qv) == 1 else None
        ok = S.same(main, want_main, st) is True and (quals == want_quals or (isinstance(quals, tuple) and isinstance(want_quals, tuple) and quals[:2] == ('op', '|')
                                                                               and want_quals[:2] == ('op', '|') and set(quals[2:]) == set(want_quals[2:])))
        return ok, f'a node with qualifiers {contracts.render(quals, st, {})} over {contracts.render(main, st, {})}'
    # a pre-existing node X: what does the path condition say about it?
    x = node
    try:
        qf = [k for k in F.fn if k.startswith('ipr::Basic_binary<ipr::Qualifiers, const ipr::Type &>::first() const')][0]
        sf = [k for k in F.fn if k.startswith('ipr::Basic_binary<ipr::Qualifiers, const ipr::Type &>::second() const')][0]
    except IndexError:
        qf = 'ipr::Basic_binary<ipr::Qualifiers, const ipr::Type &>::first() const'
        sf = 'ipr::Basic_binary<ipr::Qualifiers, const ipr::Type &>::second() const'
    tq = S.truth(('op', '==', ('vcall', qf, x, ()), want_quals), st)
    if tq is None:
        tq = S.truth(('op', '==', strip_value(('vcall', qf, x, ())), want_quals), st)
    tm = S.truth(('op', '==', ('addr', ('vcall', sf, x, ())), ('addr', want_main)), st)
    return (tq is True and tm is True), f'the earlier node {contracts.render(x, st, {})[:60]}, which the path condition ties to qualifiers={tq}, main variant={tm}'


def strip_value(t):
    while isinstance(t, tuple) and t and t[0] == 'castto':
        t = t[2]
    return t


class _Only:
    """View of a checker that keeps the instances of some rules only (used when another property borrows one rule)."""

    def __init__(self, ck, keep):
        self.ck, self.keep, self.extra = ck, keep, ck.extra
        self.tier = getattr(ck, 'tier', 'quick')
        self.samples = getattr(ck, 'samples', [])

    def rule(self, rid, text, floor=0):
        return self.ck.rule(rid, text, floor=floor) if rid.split('.', 1)[1] in self.keep else None

    def check(self, R, *a, **k):
        if R is not None:
            self.ck.check(R, *a, **k)

    def fail(self, R, *a, **k):
        if R is not None:
            self.ck.fail(R, *a, **k)

    def ok(self, R, *a, **k):
        if R is not None:
            self.ck.ok(R, *a, **k)

    def note(self, *a, **k):
        pass

    def assume(self, *a, **k):
        pass


def merge_rule_for(ck, F, prefix):
    """The merge rule under another property's name (C01: the qualified constructor maps a request to the node of its
    normal form -- same union, same node; a different union, a different node)."""
    run(_Only(ck, {'merge'}), F, prefix=prefix)


def run(ck, F, prefix='C11'):
    ck.explanation = (
        'get_qualified is evaluated symbolically three ways: on an empty qualifier set (must be refused), on an operand '
        'of unknown category, and -- the inductive step -- on the Qualified node that a previous request (q1, T) returned, '
        'with a second set q2: the node reached must carry q1|q2 over T itself (terms valid for every q1, q2, T), so by '
        'induction no stored main variant is ever Qualified and the result is independent of order and grouping '
        '(union is commutative and associative).')
    f = F.need_fn(GQ)
    S = Sym(F, opaque=contracts.default_opaque(F), max_depth=48)
    R1 = ck.rule(prefix + '.empty-refused', 'asking for a qualified type with the empty qualifier set is refused with a logic error '
                 'before anything is inserted', floor=1)
    R2 = ck.rule(prefix + '.merge', 'qualifying a Qualified node yields the node for the union of both sets over the inner main '
                 'variant; the main variant of a stored Qualified is never Qualified', floor=2)
    R3 = ck.rule(prefix + '.only-constructor', 'impl::Qualified nodes are created only by get_qualified', floor=1)
    try:
        outs = S.run(f['id'])
    except Unsupported as e:
        raise AnalysisBroken(f'{GQ}: {e}')
    # the request with the empty set itself (a constant first argument decides every test on it)
    try:
        empty = S.run(f['id'], args=[('k', 0, 'zero'), ('param', 1)])
    except Unsupported as e:
        raise AnalysisBroken(f'{GQ} (empty set): {e}')
    ok = bool(empty) and all(k == 'throw' and v in LOGIC_DERIVED and not any(e[0] == 'tree_insert' for e in st.effects)
                             for st, k, v in empty)
    ck.check(R1, 'get_qualified(empty set)', ok,
             f'get_qualified with an empty qualifier set: {[(k, v if k == "throw" else "node") for st, k, v in empty] or "no such path"}',
             loc=f['loc'], fn=f['id'])
    rets_all = [(st, v) for st, k, v in outs if k == 'return']
    ISA = ('isa', 'ipr::Qualified', ('param', 1))
    # induction hypothesis: the operand satisfies the invariant (the main variant of a Qualified operand is not Qualified);
    # paths on which the operand is nested deeper are the same code applied to the next layer and are not judged here
    def inner_main(t):
        # T.main_variant(), T.main_variant().main_variant(), ...
        n = 0
        while isinstance(t, tuple) and len(t) >= 4 and t[0] in ('vcall', 'call') and contracts.fn_simple(t[1]) in ('second', 'main_variant') and not t[3]:
            t, n = t[2], n + 1
        return n > 0 and t == ('param', 1)

    def deeper(st):
        return any(val and isinstance(c, tuple) and len(c) == 3 and c[0] == 'isa' and c[1] == 'ipr::Qualified' and inner_main(c[2])
                   for c, val in st.conds)
    rets_all = [(st, v) for st, v in rets_all if not deeper(st)]
    # a test of one implementation class (dynamic_cast<const impl::Qualified*>) recognises fewer operands than the interface
    # category does: a Qualified node of another implementation of ipr::Qualified is then stored as a main variant
    narrow = sorted({c[1] for st, v in rets_all for c, _val in st.conds
                     if isinstance(c, tuple) and len(c) == 3 and c[0] == 'castto' and 'Qualified' in str(c[1]) and c[2] == ('addr', ('param', 1))})
    if narrow and not any(c == ISA for st, v in rets_all for c, _val in st.conds):
        ck.fail(R2, 'operand recognised by interface category', f'get_qualified recognises an already-qualified operand by a cast to {narrow} only: '
                'a Qualified node that is not of that implementation class is not flattened and becomes a main variant that is itself Qualified',
                loc=f['loc'], fn=f['id'])
        # continue the analysis with that test in the role of the category test
        ISA = [c for st, v in rets_all for c, _val in st.conds if isinstance(c, tuple) and len(c) == 3 and c[0] == 'castto' and c[1] in narrow][0]
    else:
        ck.ok(R2, 'operand recognised by interface category')
    # (a) operand of unknown class that turns out to be Qualified: the request must be re-issued on the union of the
    #     two sets over the operand's own main variant (and nothing else may be returned on that branch)
    for i, (st, v) in enumerate([(st, v) for st, v in rets_all if (ISA, True) in st.conds]):
        good = isinstance(v, tuple) and v[0] == 'call' and v[1] == GQ and len(v[3]) == 2
        what = 'yields ' + contracts.render(v, st, {}) + ' instead of re-issuing the request on the merged set'
        if v == ('param', 1) or v == ('deref', ('addr', ('param', 1))):
            # the operand itself is the answer exactly when the requested set adds nothing: q is a subset of T.qualifiers()
            def quals_of_operand(t):
                t = strip_value(t)
                return isinstance(t, tuple) and t[0] == 'vcall' and t[2] == ('param', 1) and contracts.fn_simple(t[1]) in ('first', 'qualifiers')

            def subset(c):
                return says_subset(c, lambda t: t == ('param', 0), quals_of_operand)
            ok_short = any(val and subset(c) for c, val in st.conds) and not any(e[0] == 'tree_insert' for e in st.effects)
            ck.check(R2, f'operand that is Qualified/path{i}', ok_short, 'get_qualified(q, T) for a Qualified T answers T itself on a path '
                     'whose condition (' + contracts.render_conds(st.conds, st, {})[:160] + ') does not say that q is contained in T.qualifiers(): '
                     'the union q | T.qualifiers() is a different set, hence a different node', loc=f['loc'], fn=f['id'])
            continue
        if not good and not (v == ('param', 1)):
            # the merged request answered directly (iterative form, a remembered answer): the node must be the node of
            # (q | T.qualifiers(), T.main_variant())
            QF = 'ipr::Basic_binary<ipr::Qualifiers, const ipr::Type &>::first() const'
            SF = 'ipr::Basic_binary<ipr::Qualifiers, const ipr::Type &>::second() const'
            ok2, desc = node_key_ok(S, F, st, v, ('op', '|', ('param', 0), ('vcall', QF, ('param', 1), ())), ('vcall', SF, ('param', 1), ()))
            ck.check(R2, f'operand that is Qualified/path{i}', ok2, 'get_qualified(q, T) for a Qualified T hands out ' + desc +
                     ' instead of the node of (q | T.qualifiers(), T.main_variant())', loc=f['loc'], fn=f['id'])
            continue
        if good:
            q, mv = strip_value(v[3][0]), v[3][1]
            qs = [x for x in (q[2], q[3])] if q[0] == 'op' and q[1] == '|' else []
            other = [x for x in qs if x != ('param', 0)]
            okq = len(qs) == 2 and len(other) == 1 and other[0][0] == 'vcall' and other[0][2] == ('param', 1) \
                and contracts.fn_simple(other[0][1]) in ('first', 'qualifiers')
            okm = mv[0] == 'vcall' and mv[2] == ('param', 1) and contracts.fn_simple(mv[1]) in ('second', 'main_variant')
            good = okq and okm and not any(e[0] == 'tree_insert' for e in st.effects)
            what = f're-issues the request on ({contracts.render(q, st, {})}, {contracts.render(mv, st, {})}) instead of (q | T.qualifiers(), T.main_variant())'
        ck.check(R2, f'operand that is Qualified/path{i}', good, 'get_qualified(q, T) for a Qualified T ' + what,
                 loc=f['loc'], fn=f['id'])
    if not any((ISA, True) in st.conds for st, v in rets_all):
        ck.fail(R2, 'operand that is Qualified/path0', 'get_qualified never examines whether its operand is itself Qualified',
                loc=f['loc'], fn=f['id'])
    examined = any(c == ISA for st, v in rets_all for c, _val in st.conds)
    rets = [(st, v) for st, v in rets_all if (ISA, False) in st.conds or not examined]
    built = [(st, v) for st, v in rets if isinstance(v if v[0] == 'obj' else v[1], tuple) and (v if v[0] == 'obj' else v[1])[0] == 'obj']
    for j, (stx, vx) in enumerate(rets):
        if (stx, vx) in built[:1]:
            continue
        ok2, desc = node_key_ok(S, F, stx, vx, ('param', 0), ('param', 1))
        ck.check(R2, f'operand that is not Qualified/other path {j}', ok2, 'get_qualified(q, T) on an unqualified T hands out ' + desc +
                 ' instead of the node of (q, T)', loc=f['loc'], fn=f['id'])
    if len(built) < 1:
        raise AnalysisBroken(f'{GQ}: no path builds the node of (q, T) for an operand that is not Qualified')
    st1, v1 = built[0]
    node1 = v1 if v1[0] == 'obj' else v1[1]
    a1 = contracts.observe(S, F, st1, node1, {node1[1]: 'R'}, accessor_filter=lambda n: n in ('qualifiers', 'main_variant'))
    ck.check(R2, 'operand that is not Qualified', a1 == {'qualifiers': 'P0', 'main_variant': 'P1'},
             f'get_qualified(q, T) on an unqualified T reports {a1}', loc=f['loc'], fn=f['id'])
    # inductive step: qualify the node just obtained
    Q0 = ('param', 100)
    try:
        outs2 = S.run(f['id'], args=[Q0, node1], state=st1.fork())
    except Unsupported as e:
        raise AnalysisBroken(f'{GQ} (second request): {e}')
    rets2 = [(st, v) for st, k, v in outs2 if k == 'return']
    # a request re-issued by get_qualified on itself is summarised by the evaluator: follow it
    for _round in range(3):
        nxt, again = [], False
        for st, v in rets2:
            if isinstance(v, tuple) and v[0] == 'call' and v[1] == GQ:
                again = True
                try:
                    nxt.extend((s3, v3) for s3, k3, v3 in S.run(f['id'], this=v[2], args=list(v[3]), state=st.fork()) if k3 == 'return')
                except Unsupported as e:
                    raise AnalysisBroken(f'{GQ} (re-issued request): {e}')
            else:
                nxt.append((st, v))
        rets2 = nxt
        if not again:
            break
    if not rets2:
        raise AnalysisBroken('second request never returns')
    for i, (st2, v2) in enumerate(rets2):
        node2 = v2 if v2[0] == 'obj' else v2[1]
        o2 = st2.heap[node2[1]]
        # read the key the node was built from
        S2 = Sym(F, opaque=contracts.default_opaque(F), max_depth=48)
        mv = S2.run(F.final_overrider(o2.cls, [e['method'] for e in F.rec[o2.cls]['final_overriders'] if e['name'] == 'second'][0]),
                    this=node2, args=[], state=st2.fork())
        qv = S2.run(F.final_overrider(o2.cls, [e['method'] for e in F.rec[o2.cls]['final_overriders'] if e['name'] == 'first'][0]),
                    this=node2, args=[], state=st2.fork())
        main = mv[0][2] if len(mv) == 1 else None
        quals = strip_value(qv[0][2]) if len(qv) == 1 else None
        found_cond = [c for c, val in st2.conds[len(st1.conds):] if isinstance(c, tuple) and c[0] == 'found' and val]
        what = []
        if main != ('param', 1):
            what.append(f'its main variant is {contracts.render(main, st2, {node1[1]: "Qualified(q1,T)"})} instead of T')
        absorbed = quals == ('param', 0) and (any(val and says_subset(c, lambda t: t == Q0, lambda t: t == ('param', 0)) for c, val in st2.conds)
                                              or S.truth(('op', '==', ('param', 0), ('op', '|', Q0, ('param', 0))), st2) is True
                                              or S.truth(('op', '==', ('param', 0), ('op', '|', ('param', 0), Q0)), st2) is True)
        if not found_cond and not union_of(quals, Q0, ('param', 0)) and not absorbed:
            what.append(f'its qualifiers are {contracts.render(quals, st2, {})} instead of q1|q2')
        ck.check(R2, f'Qualified operand/path{i}', not what,
                 'get_qualified(q2, get_qualified(q1, T)): ' + '; '.join(what) + ' (the documented invariant '
                 'Qualified(cv2, Qualified(cv1, T)) = Qualified(cv1|cv2, T) is not maintained)', loc=f['loc'], fn=f['id'])
    # the node for (set, type) is the node of that key only if the table of qualified types finds equal what is equal:
    # the comparator Sema selected for (stored Qualified, (qualifiers, type)) is judged by the KEY rules
    if prefix == 'C11':
        K = keyrule.KeyChecker(ck, F, 'C11')
        K.factory(f)
        K.finish_cover()
        K.finish_partial()
    # what the client calls is the name as found in the most derived class: a member of the same name declared further
    # down hides the factory's, and is then the entry point
    if prefix == 'C11':
        R0 = ck.rule('C11.entry-points', 'in type_factory and in every class derived from it (the Lexicon the client holds), a member '
                     'named like the qualified-type constructor is that constructor, or hands its own qualifier set and type, unchanged, '
                     'to it on every path: no wrapper filters the set or judges the operand before the constructor has normalised it', floor=2)
        TF = 'ipr::impl::type_factory'
        S0 = Sym(F, opaque=lambda fid: fid == GQ or contracts.default_opaque(F)(fid), max_depth=48)
        for cls in sorted(c for c in F.rec if c == TF or F.derives_from(c, TF)):
            bad = []
            mine = [g for g in F.fns_in(cls) if g['name'] == f['name'] and g['id'] != GQ]
            for g in mine:
                if not g.get('body'):
                    continue
                qi = [i for i, p in enumerate(g['params']) if p['t'].replace('const ', '').strip() == 'ipr::Qualifiers']
                ti = [i for i, p in enumerate(g['params']) if p['t'].replace(' ', '') == 'constipr::Type&']
                try:
                    paths = S0.run(g['id'])
                except Unsupported as e:
                    raise AnalysisBroken(f'{g["id"]}: {e}')
                for st, k, v in paths:
                    t = v
                    while isinstance(t, tuple) and t and t[0] in ('deref', 'addr'):
                        t = t[1]
                    if k == 'return' and isinstance(t, tuple) and t[:2] == ('call', GQ) and len(qi) == 1 and len(ti) == 1 \
                            and list(t[3]) == [('param', qi[0]), ('param', ti[0])]:
                        continue
                    what = f'throws {v}' if k == 'throw' else 'answers `' + contracts.render(v, st, {})[:110] + '`'
                    bad.append(f'{contracts.short(g["id"])} {what} when {contracts.render_conds(st.conds, st, {})[:90] or "called"}')
            ck.check(R0, contracts.short(cls), not bad, f'{cls} declares its own {f["name"]}, which is what a client holding a {contracts.short(cls)} '
                     'calls, and it does not simply hand the request on: ' + '; '.join(bad[:3]), loc=(mine[0]['loc'] if mine else F.rec[cls]['loc']))

    import c05 as _c05
    _c05.const_handles(ck, F, prefix, only={'get_qualified'})
    # who may construct
    makers = set()
    for g in F.fn.values():
        for n in walk(g.get('body')):
            if n.get('k') in ('ctor', 'new') and is_qualified_impl(F, n.get('cls') or n.get('type') or ''):
                if not (n.get('k') == 'ctor' and n.get('copy')):
                    makers.add(g['id'])
    for c in F.constructs.values():
        if is_qualified_impl(F, c.get('cls', '')) and not c.get('copy'):
            # who asks the standard library to construct one: the callers of this construct_at instantiation
            callers = {g['id'] for g in F.fn.values() for n in walk(g.get('body'))
                       if n.get('k') == 'call' and (n.get('callee') or {}).get('id', '').startswith(c['fn'] + '(')}
            makers.update(callers or {c['fn']})
    import re as _re_q
    _elem_q = lambda t: _re_q.sub(r'\s*\[\d+\]$', '', t)          # one table, or an array of tables selected by a value of the request
    QTAB = F.role_field('ipr::impl::type_factory', lambda fl: _elem_q(fl['t']).startswith('ipr::util::rb_tree::container<') and is_qualified_impl(F, _elem_q(fl['t'])[len('ipr::util::rb_tree::container<'):-1]), 'table of qualified types')
    tab_users = {g['id'] for g in F.fn.values() for n in walk(g.get('body'))
                 if n.get('k') == 'member' and n.get('name') == QTAB and n.get('cls') == 'ipr::impl::type_factory'}
    only_node = all('rb_tree::container<' in m and 'make_node' in m for m in makers)
    ck.check(R3, 'impl::Qualified', only_node and tab_users == {GQ},
             f'Qualified nodes are built in {sorted(makers)}; the table is used by {sorted(tab_users)}', loc=f['loc'])
    # the table of qualified types finds what it holds only as long as it stays a valid search tree (order and grouping independence
    # rests on finding the node of the union again)
    if prefix == 'C11':
        import c08 as _c08
        _c08.run(_Only(ck, {'fixup-step', 'descent', 'count-and-reuse'}), F, prefix='C11')
