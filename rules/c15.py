"""C15 -- derived interface operations agree with the primitives they are defined from."""
from facts import AnalysisBroken
from symex import Sym, State, Unsupported, NULL
import contracts
import eqrule

LEVEL = 'other'
TITLE = 'C15 derived interface operations agree with the primitives they are defined from'

THIS = ('sym', 'this')


def mname(t):
    """Render a term with method *names* only (declaring class and template arguments erased)."""
    if t is None:
        return 'void'
    if not isinstance(t, tuple):
        return str(t)
    k = t[0]
    if k == 'sym':
        return t[1]
    if k == 'param':
        return f'P{t[1]}'
    if k == 'k':
        return 'nullptr' if t[2] == 'null' else str(t[1])
    if k in ('call', 'vcall'):
        n = contracts.fn_qname(t[1]).split('<')[0].split('::')[-1] if not contracts.fn_qname(t[1]).split('::')[-1].startswith('operator') \
            else contracts.fn_qname(t[1]).split('::')[-1]
        n = contracts.fn_qname(t[1]).split('::')[-1].split('<')[0] if not n.startswith('operator') else n
        recv = (mname(t[2]) + '.') if t[2] is not None else ''
        return f'{recv}{n}({", ".join(mname(a) for a in t[3])})'
    if k == 'fld':
        return f'{mname(t[1])}.{t[2]}'
    if k == 'addr':
        return '&' + mname(t[1])
    if k == 'deref':
        return '*' + mname(t[1])
    if k == 'op':
        return f'({mname(t[2])} {t[1]} {mname(t[3])})'
    if k == 'un':
        return f'{t[1]}{mname(t[2])}'
    if k == 'val':
        return t[1].split('::')[-1] + '{' + ', '.join(f'{n}={mname(v)}' for n, v in t[2]) + '}'
    return str(t)


def value_of(t, st, d=0):
    """Expand temporaries (iterators, Optional) by value."""
    if isinstance(t, tuple) and t and t[0] == 'obj' and t[1] in st.heap and d < 5:
        o = st.heap[t[1]]
        return ('val', o.cls, tuple((n, value_of(v, st, d + 1)) for n, v in sorted(o.fields.items())))
    if isinstance(t, tuple):
        return tuple(value_of(x, st, d) if isinstance(x, tuple) else x for x in t)
    return t


def eval_bool(t, size_term, size_value):
    """E1 on the sign domain: evaluate a predicate over `size` for size = 0 / positive."""
    if t == size_term:
        return size_value
    if not isinstance(t, tuple):
        return None
    if t[0] == 'k':
        return t[1]
    if t[0] == 'un' and t[1] == '!':
        v = eval_bool(t[2], size_term, size_value)
        return None if v is None else (0 if v else 1)
    if t[0] == 'op':
        a, b = eval_bool(t[2], size_term, size_value), eval_bool(t[3], size_term, size_value)
        if a is None or b is None:
            return None
        return {'==': int(a == b), '!=': int(a != b), '>': int(a > b), '<': int(a < b), '>=': int(a >= b),
                '<=': int(a <= b), '&&': int(bool(a) and bool(b)), '||': int(bool(a) or bool(b))}.get(t[1])
    return None


def iterator_rule(ck, F, S, R):
    """Sequence<T>::Iterator: stepping, dereference and equality agree with positional access; borrowed by C14."""
    # ---- Iterator
    it = 'ipr::Sequence'
    for f in [f for f in F.fn.values() if (f.get('parent') or '').startswith('ipr::Sequence<') and f['parent'].endswith('::Iterator')
              and not f.get('implicit') and not f.get('ctor')]:
        name = f['name']
        nparams = len(f['params'])
        inst = contracts.short(f['parent']) + '::' + name + ('(int)' if nparams == 1 and name in ('operator++', 'operator--') else '')
        try:
            outs = S.run(f['id'], this=THIS)
        except Unsupported as e:
            raise AnalysisBroken(f'{f["id"]}: {e}')
        if len(outs) != 1 or outs[0][1] != 'return':
            ck.fail(R, inst, 'iterator operation is not straight-line', loc=f['loc'], fn=f['id'])
            continue
        st, _k, v = outs[0]
        got = mname(value_of(v, st))
        idx_after = st.symstore.get(('fld', THIS, 'index'))
        eff = mname(idx_after) if idx_after is not None else 'unchanged'
        want = {
            'operator*': ('*this.seq.get(this.index)', 'unchanged'),
            'operator->': ('&*this.seq.get(this.index)', 'unchanged'),
            'operator++': (('this', '(this.index + 1)') if nparams == 0 else ('this#copy', '(this.index + 1)')),
            'operator--': (('this', '(this.index - 1)') if nparams == 0 else ('this#copy', '(this.index - 1)')),
            'operator==': ('((this.seq == P0.seq) && (this.index == P0.index))', 'unchanged'),
            'operator!=': ('!((this.seq == P0.seq) && (this.index == P0.index))', 'unchanged'),
        }.get(name)
        if want is None:
            continue
        if want[0] == 'this#copy':
            # the copy made before the step: the object itself (a copy aliases its source here), or a fresh iterator holding the
            # values the members had before the step
            vv = value_of(v, st)
            okv = got in ('this',) or (isinstance(vv, tuple) and vv[:1] == ('val',) and
                                       dict(vv[2]) == {'index': ('fld', THIS, 'index'), 'seq': ('fld', THIS, 'seq')})
        else:
            okv = got == want[0] or (name in ('operator*', 'operator->') and got.replace('&*', '&') == want[0].replace('&*', '&'))
        if not okv and name in ('operator==', 'operator!='):
            # the same truth table over the two member comparisons, however the conjunction is ordered or negated
            import itertools
            import eqrule as _eqr
            paths = [(list(s_.conds), v_) for s_, k_, v_ in outs]
            seq_eq = ('eq',) + tuple(sorted((('fld', THIS, 'seq'), ('fld', ('param', 0), 'seq')), key=repr))
            idx_eq = ('eq',) + tuple(sorted((('fld', THIS, 'index'), ('fld', ('param', 0), 'index')), key=repr))
            atoms = set()
            for conds_, v_ in paths:
                for c_, _b in conds_:
                    _eqr._atoms(c_, atoms)
                _eqr._atoms(v_, atoms)
            if atoms <= {seq_eq, idx_eq} and atoms:
                good_tt = True
                for bits in itertools.product((False, True), repeat=2):
                    env = {seq_eq: bits[0], idx_eq: bits[1]}
                    vals = {_eqr._value(v_, env) for conds_, v_ in paths if all(_eqr._value(c_, env) == b_ for c_, b_ in conds_)}
                    wanted = (bits[0] and bits[1]) if name == 'operator==' else not (bits[0] and bits[1])
                    good_tt = good_tt and vals == {wanted}
                okv = good_tt
        okeff = eff == want[1]
        if not okeff and name in ('operator++', 'operator--') and idx_after is not None:
            # the same value however the step is written (x + 1, x - -1, 1 + x)
            from symex import linear_form
            okeff = linear_form(idx_after) == {('fld', THIS, 'index'): 1, None: 1 if name == 'operator++' else -1}
        ck.check(R, inst, okv and okeff, f'{f["id"]}: yields `{got}`, index becomes `{eff}`; defined as `{want[0]}` / `{want[1]}`',
                 loc=f['loc'], fn=f['id'])



def run(ck, F):
    # a value is spelled by the word the client gave: no route to a convention / linkage / logogram looks up or interns an edited copy
    # (judged first: code that edits the word is usually outside the evaluator's language, and the violation stands on its own)
    import words as _words_w
    if _words_w.word_passed_whole(ck, F, 'C15'):
        return
    ck.explanation = (
        'Every convenience operation of the interface is evaluated symbolically on an arbitrary object (virtual '
        'primitives stay symbolic) and compared with its defining term; boolean predicates over a size are decided '
        'by finite-case evaluation over the sign domain {0, positive}, so any spelling of `non-empty` is accepted '
        'and only the truth table matters.  Equalities are evaluated to conjunctions of identity comparisons.')
    S = Sym(F, opaque=contracts.default_opaque(F), max_depth=24)
    R = ck.rule('C15.derived-term', 'a derived operation evaluates to its defining term over the primitive accessors', floor=40)
    R_tt = ck.rule('C15.truth-table', 'size predicates have the documented truth table (E1 over size = 0 / positive)', floor=2)

    def fns(cls_prefix, name, nparams=None, const=True):
        out = []
        for f in F.fn.values():
            par = f.get('parent') or ''
            if f['name'] == name and (par == cls_prefix or par.startswith(cls_prefix + '<')) and not f.get('implicit'):
                if nparams is not None and len(f['params']) != nparams:
                    continue
                out.append(f)
        return sorted(out, key=lambda f: f['id'])

    def single(f, args=None):
        try:
            outs = S.run(f['id'], this=THIS, args=args)
        except Unsupported as e:
            raise AnalysisBroken(f'{f["id"]}: outside the evaluator language: {e}')
        rets = [(st, v) for st, k, v in outs if k == 'return']
        if len(outs) != 1 or len(rets) != 1:
            return None, None
        return rets[0]

    def expect(cls, name, want, nparams=0, floor_one=True, transform=None):
        fl = fns(cls, name, nparams)
        if not fl and floor_one:
            raise AnalysisBroken(f'anchor vanished: {cls}::{name}')
        for f in fl:
            st, v = single(f)
            got = None
            if st is not None:
                got = mname(value_of(v, st))
            inst = contracts.short(f['parent']) + '::' + name
            ck.check(R, inst, got == want, f'{f["id"]} evaluates to `{got}`; it is defined as `{want}`', loc=f['loc'], fn=f['id'],
                     detail={'term': got})

    # ---- Sequence<T>
    expect('ipr::Sequence', 'begin', 'Iterator{index=0, seq=&this}')
    expect('ipr::Sequence', 'end', 'Iterator{index=this.size(), seq=&this}')
    expect('ipr::Sequence', 'position', 'Iterator{index=P0, seq=&this}', nparams=1)
    for f in fns('ipr::Sequence', 'empty', 0):
        st, v = single(f)
        inst = contracts.short(f['parent']) + '::empty'
        if st is None:
            ck.fail(R_tt, inst, 'empty() is not a single expression', loc=f['loc'], fn=f['id'])
            continue
        size = ('vcall', [x for x in [v] if True] and None, None, None)
        # find the size() call inside the term
        sz = find_call(v, 'size')
        tt = None if sz is None else (eval_bool(v, sz, 0), eval_bool(v, sz, 1))
        ck.check(R_tt, inst, tt == (1, 0), f'{f["id"]}: truth table over size()=0/positive is {tt}, expected (true, false)',
                 loc=f['loc'], fn=f['id'], detail={'term': mname(v)})
    iterator_rule(ck, F, S, R)

    # ---- helpers over elements()
    for cls in ('ipr::Product', 'ipr::Sum', 'ipr::Expr_list', 'ipr::Scope', 'ipr::Parameter_list'):
        F.need_rec(cls)
        expect(cls, 'size', 'this.elements().size()' if cls in ('ipr::Scope', 'ipr::Parameter_list') else 'this.operand().size()')
    for cls in ('ipr::Product', 'ipr::Sum'):
        expect(cls, 'operator[]', 'this.operand().get(P0)', nparams=1, floor_one=False)
        for f in fns(cls, 'operator[]', 1):
            pass
    for cls in ('ipr::Scope', 'ipr::Parameter_list'):
        expect(cls, 'begin', 'Iterator{index=0, seq=&this.elements()}', floor_one=False)
        expect(cls, 'end', 'Iterator{index=this.elements().size(), seq=&this.elements()}', floor_one=False)
    for cls in ('ipr::Product', 'ipr::Sum', 'ipr::Expr_list'):
        expect(cls, 'elements', 'this.operand()')
    # ---- user-defined types
    expect('ipr::Udt', 'scope', 'this.region().bindings()')
    for cls in ('ipr::Namespace', 'ipr::Class', 'ipr::Union'):
        expect(cls, 'members', 'this.region().bindings().elements()')
    # every implementation: the members of a user-defined type whose members are declarations (classes, unions, namespaces,
    # enumerations) are the declarations of the region the type itself reports -- scope() is defined as region().bindings()
    R_mr = ck.rule('C15.members-in-region', 'for every concrete user-defined type whose members are declarations, members() designates '
                   'storage inside the very object region() returns, on every path of both: scope() (= region().bindings()) and '
                   'members() then speak of the same declarations, and the region\'s owner is the type', floor=4)

    def subterm(t, x):
        return t == x or (isinstance(t, tuple) and any(subterm(y, x) for y in t))
    for cls in sorted(n for n, r in F.rec.items() if not r['abstract'] and n.startswith('ipr::impl::')
                      and any(a.startswith('ipr::Udt<') for a in F.ancestors(n))):
        udt = [a for a in F.ancestors(cls) if a.startswith('ipr::Udt<')][0]
        member_t = udt[len('ipr::Udt<'):-1]
        if not (member_t == 'ipr::Decl' or (member_t in F.rec and F.derives_from(member_t, 'ipr::Decl'))):
            ck.note(f'{contracts.short(cls)}: members are {contracts.short(member_t)}, not declarations of its region (not compared)')
            continue
        st0 = State()
        o = st0.new_obj(cls)
        try:
            mem = S.run(F.final_overrider_by_name(cls, 'members')[0], this=o, args=[], state=st0.fork())
            reg = S.run(F.final_overrider_by_name(cls, 'region')[0], this=o, args=[], state=st0.fork())
        except (Unsupported, IndexError) as e:
            raise AnalysisBroken(f'{cls}: members() / region(): {e}')
        bad = []
        for sr, kr, vr in reg:
            if kr != 'return':
                continue
            rv = vr[1] if isinstance(vr, tuple) and vr[:1] == ('addr',) else vr
            inside = isinstance(rv, tuple) and rv[:1] == ('fld',) and rv[1] == o
            for sm, km, vm in mem:
                if km != 'return':
                    continue
                if not inside or not subterm(vm, rv):
                    bad.append(f'region() is `{contracts.render(vr, sr, {o[1]: "R"})[:60]}`' +
                               (f' when {contracts.render_conds(sr.conds, sr, {o[1]: "R"})[:60]}' if sr.conds else '') +
                               f' but members() is `{contracts.render(vm, sm, {o[1]: "R"})[:60]}`')
        ck.check(R_mr, contracts.short(cls), bool(reg) and bool(mem) and not bad, f'{cls}: ' + '; '.join(sorted(set(bad))[:2]) +
                 ': scope() and members() do not speak of the same declarations', loc=F.rec[cls]['loc'])

    # a convenience member is non-virtual: a member of the same name further down hides it for that static type, and the two answers
    # can then differ for one node depending on the type it is looked at through
    R_hid = ck.rule('C15.conveniences-not-hidden', 'no class derived from an interface class declares a member named like one of that class\'s '
                    'non-virtual convenience members (which would hide it for that static type), except the confirmed pairs whose hiding '
                    'member is the primitive the convenience is defined by', floor=100)
    CONFIRMED_HIDING = {('ipr::Product', 'size'): 'the implementations\' size() is the size of the element sequence itself',
                        ('ipr::Scope', 'size'): 'the implementations\' size() is the size of the element sequence itself'}
    for n_, r_ in sorted(F.rec.items()):
        if not n_.startswith('ipr::') or n_.startswith(('ipr::impl::', 'ipr::util::', 'ipr::cxx_form::impl::', 'ipr::xpr')) or r_.get('lambda'):
            continue
        conv = [m for m in r_['methods'] if not m['virtual'] and not m['static'] and not m['implicit'] and not m.get('ctor') and not m.get('dtor')
                and not m.get('conv') and m['access'] == 'public' and not m['name'].startswith('operator')
                and m['id'] in F.fn and F.fn[m['id']].get('body')]
        for m in conv:
            hiders = sorted({d_ for d_, rd_ in F.rec.items() if d_ != n_ and F.derives_from(d_, n_)
                             and any(x['name'] == m['name'] and not x['implicit'] for x in rd_['methods'])})
            if hiders and (n_, m['name']) in CONFIRMED_HIDING:
                hiders = []
            ck.check(R_hid, f'{contracts.short(n_)}::{m["name"]}', not hiders,
                     f'{n_}::{m["name"]} (a non-virtual convenience) is hidden by a member of the same name in {[contracts.short(h) for h in hiders[:3]]}: '
                     'through that static type the node answers with the hiding member, through the interface with the convenience',
                     loc=(F.rec[hiders[0]]['loc'] if hiders else r_['loc']))

    # ---- Block
    expect('ipr::Block', 'body', 'this.region().body()')
    for f in fns('ipr::Block', 'try_block', 0):
        st, v = single(f)
        inst = 'Block::try_block'
        if st is None:
            ck.fail(R_tt, inst, 'try_block() is not a single expression', loc=f['loc'], fn=f['id'])
            continue
        sz = find_call(v, 'size')
        on_handlers = sz is not None and mname(sz) == 'this.handlers().size()'
        tt = None if sz is None else (eval_bool(v, sz, 0), eval_bool(v, sz, 1))
        ck.check(R_tt, inst, on_handlers and tt == (0, 1),
                 f'{f["id"]}: truth table over handlers().size()=0/positive is {tt}; a block is a try-block exactly when it has '
                 f'handlers, i.e. (false, true)', loc=f['loc'], fn=f['id'], detail={'term': mname(v)})
    # ---- Template / Parameter / Type
    expect('ipr::Template', 'parameters', 'this.mapping().parameters()')
    expect('ipr::Template', 'result', 'this.mapping().result()')
    expect('ipr::Parameter', 'default_value', 'this.initializer()')
    expect('ipr::Type', 'linkage', 'this.transfer().first()')
    expect('ipr::Transfer', 'linkage', 'this.first()')
    expect('ipr::Transfer', 'convention', 'this.second()')
    eqrule.check_equalities(ck, F, 'C15')
    eqrule.check_inequalities(ck, F, 'C15')
    one_string_rule(ck, F, 'C15')
    # size / emptiness / begin-end of a scope are those of its store of declarations
    import c09 as _c09
    _c09.scope_size_rule(ck, F, 'C15')
    # equality of basic specifiers / qualifiers is identity of their logogram: it holds exactly for equal spellings only if equal
    # spellings are one Logogram node (the constructor of logograms finds before it inserts)
    import borrow as _borrow
    _borrow.borrow(ck, F, 'C04', 'C15', {'NAMING'}, only=lambda inst: 'logogram' in inst.lower())
    _borrow.borrow(ck, F, 'C04', 'C15', {'spelling-by-content'})
    import words as _words
    _W, _kw, _strays = _words.static_words_outside_table(F)
    R_tab_only = ck.rule('C15.static-words-in-the-table', 'every statically allocated word (an object of the class of the reserved-word table\'s '
                         'elements) is an element of that table: interning recognises a reserved spelling by searching the table, so a word '
                         'kept anywhere else -- a constant of its own, a data member -- is a second Identifier / Logogram / String for its spelling', floor=1)
    ck.check(R_tab_only, 'known_words', not _strays, f'object(s) of {contracts.short(_W)} outside {_kw["q"]}: ' + '; '.join(f'{w} [{l}]' for w, l in _strays[:4]),
             loc=(_strays[0][1] if _strays else _kw['loc']))
    # named aliases of the interface: each forwards to a slot accessor (recorded; judged in C02 through contracts)


def one_string_rule(ck, F, prefix):
    # equality of logograms / conventions / linkages / transfers is identity of the String spelled: it holds exactly for equal
    # spellings only if equal spellings are one String -- including the empty spelling, which the built-in natural convention uses
    import words
    R_sp = ck.rule(f'{prefix}.one-string-per-spelling', 'the value equalities bottom out in the identity of a String: interning answers the '
                   'empty spelling with the one process-wide empty String and a reserved spelling with its reserved-word node, so that '
                   'values spelled alike by the library and by the client compare equal', floor=2)
    ok, why, fi = words.empty_word_outcome(F)
    ck.check(R_sp, 'intern(empty word)', ok, f'{fi["id"]}: {why}: a logogram / convention spelled "" by the client is not equal to the '
             'library\'s own ""-spelled constant', loc=fi['loc'], fn=fi['id'])
    rts = words.spelling_routes(F, fi['id'], lambda fid: F.fn.get(fid) is None or F.fn[fid]['name'] in ('word_if_known', 'make_string'))
    bad = [(w, [x.decode('utf-8', 'replace') for x in ps[:3]]) for w, ps, _s in rts if ps]
    ck.check(R_sp, 'intern(reserved word)', bool(rts) and not bad, f'{fi["id"]}: the reserved spelling(s) {[b[1] for b in bad]} get a second String',
             loc=fi['loc'], fn=fi['id'])


def find_call(t, name):
    if isinstance(t, tuple):
        if t and t[0] in ('call', 'vcall') and contracts.fn_qname(t[1]).split('::')[-1].split('<')[0] == name:
            return t
        for x in t:
            r = find_call(x, name)
            if r is not None:
                return r
    return None
