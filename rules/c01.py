"""C01 -- types are unified: same constructor arguments give the same node, and only then."""
from facts import AnalysisBroken
from symex import Sym, Unsupported
import contracts
import keyrule

LEVEL = 'other'
TITLE = 'C01 types are unified: same constructor arguments give the same node, and only then'

TF = 'ipr::impl::type_factory'

# type constructors named by the property statement -> they must be insert-or-find on a table
UNIFYING = ['get_pointer', 'get_reference', 'get_rvalue_reference', 'get_array', 'get_qualified', 'get_function',
            'get_product', 'get_sum', 'get_forall', 'get_ptr_to_member', 'get_tor', 'get_as_type',
            'get_transfer', 'get_transfer_from_linkage', 'get_transfer_from_convention']
# generative by design and outside the statement's list (frozen, with reason)
GENERATIVE_BY_DESIGN = {'get_decltype': 'decltype(e) nodes are generative except decltype(nullptr) (documented)',
                        'get_auto': 'each `auto` placeholder is a distinct node'}

NATURAL = ('global', 'ipr::impl::(anon)::natural_xfer')


def path_key(p):
    """(table, key rendering, accessor map) of a contract path that ends in a unified node."""
    return (p.get('origin'), tuple(sorted((p.get('accessors') or {}).items())))


def _mentions_call(t, name):
    if isinstance(t, tuple):
        if len(t) >= 4 and t[0] in ('call', 'vcall') and contracts.fn_simple(t[1]) == name:
            return True
        return any(_mentions_call(x, name) for x in t)
    return False


def warehouse_copy(ck, F, prefix):
    """get_product / get_sum(const Warehouse&): the node is keyed on the Lexicon's own copy of the contents, on every path; borrowed
    by C19 (a node keyed on the caller's Warehouse refers to storage that dies with it)."""
    RWh = ck.rule(f'{prefix}.warehouse-copy', 'get_product/get_sum(const Warehouse&) key the node on a sequence owned by '
                  'the Lexicon (the unified copy in type_seqs), not on the caller\'s Warehouse, on every path (an empty Warehouse included)', floor=2)
    getters = [f for f in F.fn.values() if f['name'] in ('get_product', 'get_sum') and f.get('parent') == 'ipr::impl::type_factory'
               and f.get('body') and f['params'] and 'Warehouse' in f['params'][0]['t']]
    S3 = Sym(F, opaque=contracts.default_opaque(F), max_depth=48)
    for f in sorted(getters, key=lambda f: f['id']):
        try:
            outs = [o for o in S3.run(f['id']) if o[1] == 'return']
        except Unsupported as e:
            raise AnalysisBroken(f'{f["id"]}: {e}')
        bad = []
        for st, kind, v in outs:
            ins = [e for e in st.effects if e[0] == 'tree_insert']
            tabs = [contracts.render(e[1], st, {}) for e in ins]
            when = contracts.render_conds(st.conds, st, {})[:80]
            if not ins or tabs[0] != '$this.type_seqs':
                bad.append(f'tables reached: {tabs}' + (f' when {when}' if when else ''))
                continue
            seq_obj = ins[0][4]
            later = [e for e in ins[1:]]
            if not later or any(e[2] != seq_obj for e in later):
                bad.append('the node is keyed on ' + ', '.join(contracts.render(e[2], st, {})[:50] for e in later) + (f' when {when}' if when else ''))
        ck.check(RWh, contracts.short(contracts.fn_qname(f['id'])) + '(Warehouse)', bool(outs) and not bad,
                 'the node is keyed on the caller\'s sequence: ' + '; '.join(bad[:2]), loc=f['loc'], fn=f['id'])


def run(ck, F):
    ck.explanation = (
        'For every type constructor of type_factory the factory body is evaluated symbolically (branch-free '
        'wiring, so the result holds for every operand choice and history); the comparator that overload '
        'resolution selected inside the instantiated rb_tree::container<T>::insert is evaluated on (element of '
        'a previous request P, key of a later request Q); component comparators are decided by finite-case '
        'evaluation over the orderings {<,=,>}.  Validity of the search tree itself is C08.')
    ck.assume('the tree is a valid search tree for a total-order comparator (property C08)')
    F.need_rec(TF)
    S = Sym(F, opaque=contracts.default_opaque(F), max_depth=48)
    getters = [f for f in F.fns_in(TF) if f['name'].startswith('get_')]
    if len(getters) < 20:
        raise AnalysisBroken(f'only {len(getters)} type_factory::get_* definitions found')
    cons = {}
    import wire
    known = wire.confirmed_ids()
    for f in list(getters):
        try:
            cons[f['id']] = contracts.factory_contract(F, f, S, accessor_filter=lambda n: True)
        except Unsupported as e:
            if f['id'] in known:
                raise AnalysisBroken(f'{f["id"]}: outside the evaluator language: {e}')
            # a constructor added since the contract table was confirmed, written outside the evaluator's language:
            # nothing is claimed about it (and nothing alarmed)
            ck.note(f'new type constructor not analysed: {f["id"]}: {e}')
            getters.remove(f)

    # ------------------------------------------------------------ NAMING
    RN = ck.rule('C01.NAMING', 'every type constructor of the statement yields, on every path, an element of an '
                 'insert-or-find table, a process-wide constant, or the result of another get_*; never a '
                 'fresh (farm) allocation', floor=20)
    for f in sorted(getters, key=lambda f: f['id']):
        inst = contracts.short(contracts.fn_qname(f['id'])) + '(' + ', '.join(contracts.short(p['t']) for p in f['params']) + ')'
        if f['name'] in GENERATIVE_BY_DESIGN:
            ck.note(f'{inst}: generative by design ({GENERATIVE_BY_DESIGN[f["name"]]}), not part of the unification claim')
            continue
        bad = []
        for p in cons[f['id']]:
            if 'throws' in p:
                continue
            og = p.get('origin', '')
            if 'accessors' in p and og.startswith('fresh'):
                bad.append(f'path [{p["when"][:60]}] returns a freshly allocated {contracts.short(p["class"])} ({og})')
            elif 'accessors' in p and not og.startswith('unified'):
                bad.append(f'path [{p["when"][:60]}] returns a {contracts.short(p["class"])} of origin {og}')
        ck.check(RN, inst, not bad, '; '.join(bad), loc=f['loc'], fn=f['id'],
                 detail=[(p.get('origin') or p.get('result') or p.get('throws')) for p in cons[f['id']]])

    # ------------------------------------------------------------ KEY
    K = keyrule.KeyChecker(ck, F, 'C01')
    tables = set()
    for f in sorted(getters, key=lambda f: f['id']):
        tables.update(K.factory(f))
    K.finish_cover()
    # the qualified constructor maps a request on an already-qualified operand to the node of its normal form: the same
    # union of qualifiers over the same unqualified type is the same node, a different union a different node
    import c11
    c11.merge_rule_for(ck, F, 'C01')
    K.finish_partial(())
    # `a request that spells out the natural transfer is the request that omits it`: the guards that recognise the natural transfer
    # compare Transfer values, so that equality must hold exactly for transfers spelled alike (however each was obtained)
    import eqrule as _eqrule
    _eqrule.check_equalities(ck, F, 'C01')
    # `the same node no matter what was built in between`: the sequences the tables are keyed on are not reordered after the fact
    import c02 as _c02
    _c02.operand_order_rule(ck, F, 'C01')
    import c05 as _c05
    _c05.const_handles(ck, F, 'C01', only=None)
    # the tables the types are unified in find what they hold only as long as they stay valid search trees: an entry cut off by a wrong rotation is
    # built a second time -- `same arguments, same node` then depends on what was requested in between
    import c08 as _c08
    import c11 as _c11
    _c08.run(_c11._Only(ck, {'fixup-step', 'descent', 'count-and-reuse'}), F, prefix='C01')
    for r in (K.R_diag, K.R_cover, K.R_lex):
        ck.rules[r]['floor'] = 18
    ck.rules[K.R_atom]['floor'] = 2
    ck.rules[K.R_guard]['floor'] = 20
    ck.extra['tables'] = sorted(tables)
    rec = F.need_rec(TF)
    declared = sorted(fl['name'] for fl in rec['fields'] if fl['t'].startswith('ipr::util::rb_tree::container<'))
    RT = ck.rule('C01.tables-used', 'every ordered table declared by type_factory is reached by an analysed '
                 'insert-or-find request (no table escapes the KEY rule)', floor=15)
    for t in declared:
        ck.check(RT, t, t in tables, f'table type_factory::{t} is never the target of an analysed insert', loc=rec['loc'])
    # who may touch the tables
    RW = ck.rule('C01.table-owners', 'the ordered tables of type_factory are referenced only from its get_* members and from '
                 'member functions those call (helpers evaluated inside them): nothing else inserts or alters elements', floor=15)
    users = {}
    from facts import walk
    for g in F.fn.values():
        for n in walk(g.get('body')):
            if n.get('k') == 'member' and n.get('cls') == TF and n.get('name') in declared:
                users.setdefault(n['name'], set()).add(g['id'])
    # member functions reachable from an analysed get_* through calls inside the class
    reach = {f['id'] for f in getters}
    todo = list(reach)
    while todo:
        g = F.fn.get(todo.pop())
        for n in walk((g or {}).get('body')):
            c = n.get('callee') if n.get('k') == 'call' else None
            if c and c.get('parent') == TF and c['id'] not in reach:
                reach.add(c['id'])
                todo.append(c['id'])
    for t in declared:
        outsiders = [u for u in users.get(t, ()) if u not in reach]
        ck.check(RW, t, not outsiders, f'table {t} is also touched by {outsiders}', loc=rec['loc'])

    # ------------------------------------------------------------ collapsing of the natural transfer
    RC = ck.rule('C01.natural-transfer', 'a request that spells out the natural C++ transfer is the same request '
                 'as the one that omits it (same table, same key, same observable node)', floor=3)

    def contract_with(fid, args):
        f = F.fn[fid]
        S2 = Sym(F, opaque=contracts.default_opaque(F), max_depth=48)
        outs = S2.run(fid, args=args)
        res = []
        for st, kind, v in outs:
            if kind != 'return':
                res.append(('throw', v))
                continue
            root = v[1] if v is not None and v[0] == 'addr' else v
            names = contracts.name_paths(st, root)
            o = st.heap.get(root[1]) if root and root[0] == 'obj' else None
            if o is None:
                res.append(('value', contracts.render(v, st, names)))
            else:
                res.append((contracts.origin_str(o, st, names), tuple(sorted(contracts.observe(S2, F, st, root, names).items()))))
        return res

    def fid_of(name, ptypes):
        for f in getters:
            if f['name'] == name and [p['t'] for p in f['params']] == ptypes:
                return f['id']
        raise AnalysisBroken(f'anchor vanished: type_factory::{name}({ptypes})')

    P = lambda i: ('param', i)
    cases = [
        ('get_function(s,t,e,natural) == get_function(s,t,e)',
         fid_of('get_function', ['const ipr::Product &', 'const ipr::Type &', 'const ipr::Expr &', 'const ipr::Transfer &']),
         [P(0), P(1), P(2), NATURAL],
         fid_of('get_function', ['const ipr::Product &', 'const ipr::Type &', 'const ipr::Expr &']), [P(0), P(1), P(2)]),
        ('get_function(s,t,natural) == get_function(s,t)',
         fid_of('get_function', ['const ipr::Product &', 'const ipr::Type &', 'const ipr::Transfer &']),
         [P(0), P(1), NATURAL],
         fid_of('get_function', ['const ipr::Product &', 'const ipr::Type &']), [P(0), P(1)]),
        ('get_as_type(e,natural) == get_as_type(e)',
         fid_of('get_as_type', ['const ipr::Expr &', 'const ipr::Transfer &']), [P(0), NATURAL],
         fid_of('get_as_type', ['const ipr::Expr &']), [P(0)]),
    ]
    for name, f1, a1, f2, a2 in cases:
        try:
            c1, c2 = contract_with(f1, a1), contract_with(f2, a2)
        except Unsupported as e:
            raise AnalysisBroken(f'{name}: outside the evaluator language: {e}')
        ck.check(RC, name, c1 == c2 and len(c1) == 1,
                 f'{name} does not hold: {[c[0] for c in c1]} vs {[c[0] for c in c2]}', loc=F.fn[f1]['loc'], fn=f1,
                 detail={'table': c1[0][0] if c1 else None})
    # the natural calling convention is the one spelled with the empty word: a transfer spelled out with get_calling_convention("")
    # is the natural transfer only if the empty spelling is one String (the constant) and its logogram the invisible one
    import words
    ok_e, why_e, fi = words.empty_word_outcome(F)
    ck.check(RC, 'the empty spelling is the empty String', ok_e, f'{fi["id"]}: {why_e}: the convention spelled "" by a client is not the natural '
             'convention, so a request that spells out the natural transfer is not the request that omits it', loc=fi['loc'], fn=fi['id'])
    gl = [g for g in F.fn.values() if g['name'] == 'get_logogram' and (g.get('parent') or '').endswith('name_factory') and len(g['params']) == 1
          and 'ipr::String' in g['params'][0]['t']]
    if len(gl) != 1:
        raise AnalysisBroken('name_factory::get_logogram(const String&) not found')
    S4 = Sym(F, opaque=keyrule.key_opaque(F), max_depth=48)
    try:
        louts = S4.run(gl[0]['id'])
    except Unsupported as e:
        raise AnalysisBroken(f'{gl[0]["id"]}: {e}')
    nat = [g for g in F.globals if g['name'] == 'natural_cc' or g['q'].endswith('::natural_cc')]
    inv_q = None
    if nat:
        refs = [n for n in walk(nat[0].get('init')) if n.get('k') == 'ref' and n.get('kind') == 'global']
        inv_q = refs[0]['q'] if refs else None
    if inv_q is None:
        raise AnalysisBroken('the logogram of the natural calling convention was not found')

    def empty_says(c, val):
        if isinstance(c, tuple) and len(c) >= 4 and c[0] in ('call', 'vcall') and contracts.fn_simple(c[1]) == 'empty':
            return bool(val)
        if isinstance(c, tuple) and len(c) == 4 and c[0] == 'op' and c[1] in ('==', '!=') and (c[2][:2] == ('k', 0) or c[3][:2] == ('k', 0)) \
                and any(isinstance(t, tuple) and len(t) >= 4 and t[0] in ('call', 'vcall') and contracts.fn_simple(t[1]) in ('size', 'length') for t in (c[2], c[3])):
            return bool(val) if c[1] == '==' else (not val)
        return None
    good_inv, leak = False, []
    for st, k, v in louts:
        if k != 'return':
            continue
        says = [x for x in (empty_says(c, val) for c, val in st.conds) if x is not None]
        is_inv = v == ('global', inv_q)
        if says and says[0] is True:
            good_inv = is_inv
        elif not says and not is_inv and not _mentions_call(v, 'word_if_known'):
            # (a path that answers with the reserved-word node found for the spelling is not taken for the empty spelling:
            #  no reserved word is empty)
            leak.append(contracts.render_conds(st.conds, st, {})[:80])
    ck.check(RC, 'the empty spelling has the invisible logogram', good_inv and not leak,
             f'{gl[0]["id"]}: the empty spelling is not answered with {contracts.short(inv_q)}, the logogram of the natural calling convention '
             f'({"a path for the empty spelling yields another logogram: " + str(leak[:2]) if leak else "no path for the empty spelling"})',
             loc=gl[0]['loc'], fn=gl[0]['id'])

    # default exception specification = the false constant of the Lexicon
    RD = ck.rule('C01.default-eh', 'get_function without an exception specification is get_function with the '
                 'Lexicon\'s false constant', floor=2)
    fv = F.need_fn('ipr::impl::Lexicon::false_value() const')
    outs = Sym(F).run(fv['id'])
    false_term = outs[0][2]
    for name, f1, a1, f2 in [
        ('get_function(s,t) == get_function(s,t,false)', cases[1][3], [P(0), P(1)], cases[0][3]),
        ('get_function(s,t,l) == get_function(s,t,false,l)', cases[1][1], [P(0), P(1), P(2)], cases[0][1]),
    ]:
        a2 = [P(0), P(1), false_term] + ([P(2)] if len(a1) == 3 else [])
        c1, c2 = contract_with(f1, a1), contract_with(f2, a2)
        ck.check(RD, name, c1 == c2, f'{name} does not hold', loc=F.fn[f1]['loc'], fn=f1)

    warehouse_copy(ck, F, 'C01')

