"""C19 -- destroying a Lexicon frees all its memory; live use never touches dead storage."""
from facts import AnalysisBroken, walk, strip_casts
import contracts

LEVEL = 'other'
TITLE = 'C19 destroying a Lexicon frees all its memory; live use never touches dead storage'

ALLOC_NAMES = {'operator new': 'operator delete', 'operator new[]': 'operator delete[]', 'allocate': 'deallocate',
               'malloc': 'free', 'calloc': 'free', 'realloc': 'free'}


def lib_fn(f):
    return f['loc'].startswith(('src/', 'include/'))


def calls_in(f):
    for n in walk(f.get('body')):
        if n.get('k') == 'call' and n.get('callee'):
            yield n
    for i in f.get('inits', []) or []:
        for n in walk(i.get('e')):
            if n.get('k') == 'call' and n.get('callee'):
                yield n


def run(ck, F):
    ck.explanation = (
        'Every raw allocation site of the library (calls of operator new, allocator::allocate, malloc; non-placement new '
        'expressions) is paired, by a rule over the owner class, with a user-provided destructor that reaches the matching '
        'release inside a traversal of the structure the allocation is linked into (pool chain, tree children), running the '
        'payload destructor first; every other store is a standard container (RAII).  Reads outside live objects are excluded '
        'by the arena bounds (C03), the index discipline (C14) and the Warehouse copy (C01), which this check relies on.')
    ck.assume('standard containers release what they allocate (RAII); use-after-free through references the client keeps is '
              'outside the property')
    R1 = ck.rule('C19.allocation-paired', 'each raw allocation site belongs to a class whose user-provided destructor reaches the '
                 'matching release while traversing the links the allocation is stored in', floor=2)
    R2 = ck.rule('C19.no-other-raw-ownership', 'no other function of the library allocates raw memory (non-placement new, malloc)', floor=2000)
    R3 = ck.rule('C19.linked', 'a raw allocation is stored into its owner\'s structure in the function that makes it (or its caller) on every path', floor=2)
    R4 = ck.rule('C19.payload-destroyed', 'the owner destroys the payload it constructed in raw storage before releasing it (judged on the evaluated destructor of every table instantiation; trivially destructible payloads need no call)', floor=15)
    R5 = ck.rule('C19.destruction-order', 'destroying the string pool cannot touch freed arena storage: String has a trivial destructor', floor=1)

    sites = []
    for f in sorted(F.fn.values(), key=lambda f: f['id']):
        if not lib_fn(f) or f.get('unit') == 'probe.cxx' and False:
            continue
        raw = []
        for n in calls_in(f):
            c = n['callee']
            nm = c.get('name')
            if nm in ('operator new', 'operator new[]', 'malloc', 'calloc', 'realloc'):
                raw.append((nm, n.get('ln')))
            if nm == 'allocate' and (c.get('parent') or '').startswith(('std::allocator<', 'std::allocator_traits<', 'std::__new_allocator<', '__gnu_cxx::new_allocator<')):
                raw.append((nm, n.get('ln')))
        for n in walk(f.get('body')):
            if n.get('k') == 'new' and not n.get('placement'):
                raw.append(('new-expression', n.get('ln')))
        if raw:
            sites.append((f, raw))
        else:
            ck.ok(R2, f['id'])
    owners = {}
    for f, raw in sites:
        owner = f.get('parent')
        for nm, ln in raw:
            inst = contracts.short(contracts.fn_qname(f['id'])) + ':' + nm
            if nm == 'new-expression' or nm in ('malloc', 'calloc', 'realloc') or owner is None:
                ck.fail(R2, f['id'], f'{f["id"]} allocates raw memory with {nm} outside an owning class', loc=f['loc'], fn=f['id'])
                continue
            owners.setdefault(owner, []).append((f, nm, ln))
    if not owners:
        raise AnalysisBroken('no raw allocation site found (arena and tree expected)')
    for owner, allocs in sorted(owners.items()):
        rec = F.rec.get(owner)
        if rec is None:
            raise AnalysisBroken(f'owner class {owner} not in facts')
        tmpl = rec.get('template') or owner
        dtors = [f for f in F.fns_in(owner) if f.get('dtor') and not f.get('implicit')]
        for f, nm, ln in allocs:
            inst = f'{contracts.short(tmpl)}::{f["name"]}:{nm}'
            if owner != tmpl and inst in ck.rules[R1]['keys']:
                continue          # one verdict per template, judged on its first instantiation
            release = ALLOC_NAMES[nm]
            if not rec['user_dtor'] or not dtors:
                ck.fail(R1, inst, f'{owner} allocates with {nm} in {f["name"]} but has no user-provided destructor: the storage '
                        f'(and the payload objects constructed in it) is never released', loc=f['loc'], fn=f['id'],
                        detail={'instances_of_template': sum(1 for o in owners if (F.rec[o].get('template') or o) == tmpl)})
                continue
            # functions of the class reachable from the destructor; a release counts when it happens inside a loop
            # or below a recursive function on the call path (a traversal of the links)
            seen, todo = set(), [(dtors[0]['id'], False)]
            rel_sites = []
            while todo:
                fid, trav = todo.pop()
                if (fid, trav) in seen or fid not in F.fn:
                    continue
                seen.add((fid, trav))
                g = F.fn[fid]
                loops = [n for n in walk(g.get('body')) if n.get('k') in ('while', 'for', 'do', 'rangefor')]
                recursive = any((n['callee'].get('id') == fid) for n in calls_in(g))
                here = trav or recursive
                for n in calls_in(g):
                    c = n['callee']
                    in_loop = any(any(m is n for m in walk(l)) for l in loops)
                    if c.get('name') == release:
                        rel_sites.append((fid, here or in_loop))
                    if ((c.get('parent') or '') == owner or (c.get('parent') or '').startswith(owner.split('<')[0])) and c['id'] != fid:
                        todo.append((c['id'], here or in_loop))
                for n in walk(g.get('body')):
                    if n.get('k') == 'delete' and release.startswith('operator delete'):
                        rel_sites.append((fid, here or any(any(m is n for m in walk(l)) for l in loops)))
            ck.check(R1, inst, any(t for _f, t in rel_sites),
                     f'{owner}: the destructor reaches {release} in {[r[0] for r in rel_sites]} but not inside a traversal of the links'
                     if rel_sites else f'{owner}: the destructor never reaches {release}', loc=dtors[0]['loc'], fn=dtors[0]['id'])
        # linking: the allocation result flows into a field of the owner (directly or through the caller)
        for f, nm, ln in allocs:
            inst = f'{contracts.short(tmpl)}::{f["name"]}:{nm}'
            if inst + '/linked' in ck.rules[R3]['keys']:
                continue
            linked = stores_result(F, f, owner)
            ck.check(R3, inst + '/linked', linked, f'{f["id"]}: the result of {nm} is not stored into a link of {owner}', loc=f['loc'], fn=f['id'])
    # completeness of the traversals, decided on the evaluated destructors (not on the shape of their loops)
    R6 = ck.rule('C19.traversal-complete', 'the release traversal reaches every block: the arena destructor, evaluated on a chain of '
                 'k = 0..3 pools, releases exactly those k pools and never reads a pool it has released; the tree\'s release function, '
                 'evaluated on a non-empty subtree, re-issues itself on both children of the node, then releases the node, and does '
                 'nothing on an empty subtree', floor=20)
    from symex import Sym, Unsupported, NULL
    THIS = ('sym', 'this')
    prec = F.need_rec('ipr::util::string::arena::pool')
    F_PREV = F.role_field('ipr::util::string::arena::pool', lambda fl: fl['t'].rstrip().endswith('*'), 'link to the previous pool')
    F_MEM = F.role_field('ipr::util::string::arena', lambda fl: fl['t'].rstrip().endswith('pool *'), 'head of the pool chain')
    M0 = ('fld', THIS, F_MEM)
    ad = [f for f in F.fn.values() if f.get('dtor') and f.get('parent') == 'ipr::util::string::arena']
    if not ad:
        raise AnalysisBroken('arena destructor not found')
    Sd = Sym(F, opaque=lambda fid: False, max_depth=20)
    Sd.concrete_loops = True
    Sd.loop_cut = 4
    try:
        outs = Sd.run(ad[0]['id'], this=THIS)
    except Unsupported as e:
        raise AnalysisBroken(f'{ad[0]["id"]}: outside the evaluator language: {e}')
    chain = [M0]
    for _ in range(6):
        chain.append(('fld', ('deref', chain[-1]), F_PREV))
    seen_k = set()
    for st, kind, _v in outs:
        if kind != 'return':
            ck.fail(R6, 'string::arena/throws', f'the arena destructor can throw {_v}', loc=ad[0]['loc'], fn=ad[0]['id'])
            continue
        freed = [(i, e[2]) for i, e in enumerate(st.effects) if e[0] in ('release', 'delete')]
        k = len(freed)
        seen_k.add(k)
        if k > 3:
            continue
        what = []
        if [x for _i, x in freed] != chain[:k] and set(x for _i, x in freed) != set(chain[:k]):
            what.append(f'with {k} block(s) released, the released blocks are not the first {k} pools of the chain')
        # the path must end because the next pool is absent, not earlier
        if Sd.truth(('op', '==', chain[k], NULL), st) is not True and Sd.truth(('op', '!=', chain[k], NULL), st) is not False \
                and Sd.truth(chain[k], st) is not False:
            what.append(f'the traversal stops after {k} block(s) although pool {k} of the chain may exist')
        for i, x in freed:
            late = [d for d in st.derefs if d[0] == x and d[4] > i]
            if late:
                what.append(f'a released pool is read again (line {late[0][1]})')
        ck.check(R6, f'string::arena/chain of {k}', not what, 'arena destructor: ' + '; '.join(what), loc=ad[0]['loc'], fn=ad[0]['id'])
    for k in range(4):
        if k not in seen_k:
            ck.fail(R6, f'string::arena/chain of {k}', f'no path of the arena destructor releases exactly {k} pool(s)', loc=ad[0]['loc'], fn=ad[0]['id'])
    # the tree
    conts = sorted(n for n, r in F.rec.items() if r.get('template') == 'ipr::util::rb_tree::container')
    ntree = 0
    for c0 in conts:
        dt = [f for f in F.fns_in(c0) if f.get('dtor') and not f.get('implicit')]
        if not dt:
            continue                      # judged by C19.allocation-paired
        St = Sym(F, opaque=lambda fid: False, max_depth=20)
        try:
            outs = St.run(dt[0]['id'], this=THIS)
        except Unsupported as e:
            raise AnalysisBroken(f'{dt[0]["id"]}: outside the evaluator language: {e}')
        T = (F.rec[c0].get('targs') or [None])[0]
        trivially = bool(F.rec.get(T, {}).get('trivially_destructible'))
        ntree += 1
        inst = f'{contracts.short(c0)}::~container'
        N = ('fld', THIS, F.role_field(c0, lambda fl: fl['t'].rstrip().endswith('*'), 'root of the tree', inherited=True))
        what = []
        seen_nonempty = False
        for st, kind, _v in outs:
            if kind != 'return':
                what.append(f'can throw {_v}')
                continue
            nonnull = St.truth(('op', '!=', N, NULL), st)
            if nonnull is None:
                nonnull = St.truth(N, st)
            re = [(i, e[3][0]) for i, e in enumerate(st.effects) if e[0] == 'reentry' and e[3]]
            rel = [(i, e) for i, e in enumerate(st.effects) if (e[0] == 'call' and contracts.fn_simple(e[1]) == 'deallocate' and N in e[3])
                   or (e[0] in ('release', 'delete') and e[2] == N)]
            dtor = [(i, e) for i, e in enumerate(st.effects) if e[0] == 'dtor' and isinstance(e[2], tuple) and e[2][:2] == ('fld', ('deref', N))]
            if nonnull is not True:
                if re or rel:
                    what.append('touches an empty tree')
                continue
            seen_nonempty = True
            kids = {t for _i, t in re}
            arms = {t for t in kids if isinstance(t, tuple) and t[0] == 'index' and isinstance(t[1], tuple) and t[1][:2] == ('fld', ('deref', N))}
            if len({t[1] for t in arms}) > 1:
                arms = set()
            if len(kids) != 2 or len(arms) != 2:
                what.append(f'the release function re-issues itself on {len(arms)} of the two child links of a node '
                            f'({sorted(contracts.render(t, st, {}) for t in kids)}): a subtree is never released')
            if len(rel) != 1:
                what.append(f'releases the root node {len(rel)} time(s)')
            elif re and max(i for i, _t in re) > rel[0][0]:
                what.append('releases a node before both of its subtrees were handed on (its links are read from released storage)')
            if rel and not trivially and not (dtor and dtor[0][0] < rel[0][0]):
                ck.fail(R4, f'{contracts.short(c0)} payload', f'{c0}: the payload ({contracts.short(T or "?")}, not trivially destructible) is '
                        f'not destroyed before its node is released', loc=dt[0]['loc'], fn=dt[0]['id'])
            elif rel:
                ck.ok(R4, f'{contracts.short(c0)} payload', detail={'trivially_destructible': trivially})
        if not seen_nonempty:
            what.append('no path handles a non-empty tree')
        ck.check(R6, inst, not what, f'{dt[0]["id"]}: ' + '; '.join(what), loc=dt[0]['loc'], fn=dt[0]['id'])
    if not ntree:
        ck.fail(R6, 'rb_tree::container', 'no instantiation of rb_tree::container has a user-provided destructor: the nodes of a table are never released', loc=places_loc(F))

    # a node carved out of raw storage has every link written before it is used
    R10 = ck.rule('C19.fresh-node-links-written', 'on every path of the owning tree\'s insert (explicit trees of 0, 1 and 3 nodes, every descent), '
                  'the left, right and parent links of the node just allocated are written before the node is linked and re-balanced: no link '
                  'is read from uninitialised storage (a stale pointer into a released block)', floor=3)
    import c08
    conts = sorted(n for n, r in F.rec.items() if r.get('template') == 'ipr::util::rb_tree::container'
                   and {'find', 'insert'} <= {g['name'] for g in F.fns_in(n)})
    if not conts:
        raise AnalysisBroken('no instantiation of rb_tree::container with find and insert')
    for n_nodes, problems, find0, insert0, _nd in c08.descent_check(F, conts[0]):
        unwritten = [p_ for p_ in problems[0] if 'never written' in p_]
        ck.check(R10, f'{contracts.short(conts[0])}/{n_nodes}-node tree', not unwritten, f'{conts[0]}: ' + '; '.join(unwritten), loc=insert0['loc'], fn=insert0['id'])

    # positional access never reads past the elements of a sequence (the rule is C14's, instantiated for this property)
    import c14
    from symex import Sym as _Sym
    c14.index_discipline(ck, F, _Sym(F, opaque=contracts.default_opaque(F), max_depth=48), c14.concrete_classes(F), rid='C19.index-discipline')

    # what a node refers to outlives the call that built it
    R_cs = ck.rule('C19.no-reference-to-call-storage', 'no reference or pointer member of an object that outlives the factory call (a node in a pool or a '
                   'table) designates storage of the call itself -- a parameter taken by value, a local or a temporary: after the call '
                   'returns such a member dangles (it reads a dead stack slot, and two nodes built that way alias each other)', floor=200)
    import history as _history
    import wire as _wire
    from symex import Sym as _Sym2
    _S2 = _Sym2(F, opaque=contracts.default_opaque(F), max_depth=64)
    for _f in sorted(_wire.all_factories(F), key=lambda f: f['id']):
        _r = _history.call_storage_refs(F, _S2, _f)
        _sid = '::'.join(contracts.fn_qname(_f['id']).split('::')[-2:]) + '/' + str(len(_f['params']))
        if _r is None:
            continue
        ck.check(R_cs, _sid, not _r, f'{_f["id"]}: ' + '; '.join(_r[:3]), loc=_f['loc'], fn=_f['id'])

    # nothing that outlives a Lexicon refers to storage the Lexicon owns
    R9 = ck.rule('C19.no-static-alias-of-owned-storage', 'no object of static storage duration (namespace scope, static member, '
                 'function-local static) is bound at run time to storage owned by a Lexicon: each is constant-initialised, and no '
                 'library function assigns a pointer to one -- otherwise the reference survives the Lexicon it points into and the '
                 'next Lexicon reads released storage through it', floor=15)
    statics = {}
    for g in sorted(F.globals, key=lambda g: g['q'] + g['loc']):
        if g.get('unit') == 'probe.cxx' and not g['loc'].startswith(('include/', 'src/')):
            continue
        statics[g['q']] = g
        holds_address = g['t'].rstrip().endswith(('*', '&')) or '*' in g['t'] or not (g['constexpr'] or g['const'])
        dyn = g.get('init') is not None and not g.get('constant_init', False)
        ck.check(R9, g['q'], not dyn, f'{g["storage"]} variable {g["q"]} of type {g["t"]} is initialised at run time'
                 + (f' inside {g["in_function"]}' if g.get('in_function') else '') + ': whatever it is bound to (a node, a string, a table of '
                 'the Lexicon in use at that moment) is still referred to after that Lexicon is destroyed', loc=g['loc'])
    for f in sorted(F.fn.values(), key=lambda f: f['id']):
        if not lib_fn(f):
            continue
        for n in walk(f.get('body')):
            if n.get('k') == 'binop' and n.get('op') == '=':
                lhs = strip_casts(n['l'])
                if lhs.get('k') == 'ref' and lhs.get('kind') == 'global' and lhs.get('repo'):
                    ck.fail(R9, f'{lhs.get("q")} <- {contracts.short(contracts.fn_qname(f["id"]))}',
                            f'{f["id"]} assigns to the static variable {lhs.get("q")} (line {n.get("ln")}): the value stored at run time outlives the '
                            'Lexicon it was taken from', loc=f['loc'], fn=f['id'])

    # live use writes inside live objects: the only raw storage the library fills by hand is the arena's
    R8 = ck.rule('C19.arena-writes-in-bounds', 'a function that fills a header obtained from arena::allocate(A) writes the length field '
                 'and data[0 .. A) only (affine comparison, valid for every length): no write lands in the next header or past the '
                 'end of the pool block', floor=1)
    import arena
    for fid, loc, inst, ok, msg in arena.footprint(F):
        ck.check(R8, inst, ok, msg, loc=loc, fn=fid)

    import c03 as _c03
    _c03.arena_bounds(ck, F, prefix='C19')
    import c01 as _c01
    _c01.warehouse_copy(ck, F, 'C19')
    # every String the pool hands out views storage the pool itself owns: one that views the caller's buffer is read (compared,
    # printed) after that buffer has been reused or released
    R8b = ck.rule('C19.owned-bytes', 'every String node created by intern views the arena copy of the word (data and length of one header '
                  'returned by make_string(word.data(), word.length())), never the caller\'s buffer, on every path -- whatever further '
                  'parameter the function has', floor=1)
    for inst_, ok_, msg_, loc_, fid_ in arena.owned_bytes(F):
        ck.check(R8b, inst_, ok_, msg_ + ' -- later lookups read that buffer after the caller is done with it', loc=loc_, fn=fid_)

    # reads of fixed tables stay inside them
    R9 = ck.rule('C19.table-index-bounded', 'every subscript of an array of fixed extent N in the library (built-in arrays and std::array; '
                 'tables of constants, the arms of a tree node) is a constant below N, a value of an enumeration all of whose enumerators '
                 'are below N, or the element of a range-for: an index computed from data (a bit position, a count) without a bound reads '
                 'past the table', floor=3)
    import re as _re
    FLEX = {('ipr::util::string', 'data'): 'the inline bytes of a string header continue into the following arena granules by design; '
            'their bound is what C19.arena-bounds / C19.arena-writes-in-bounds decide'}

    def _strip(x):
        while isinstance(x, dict) and x.get('k') == 'cast':
            x = x.get('e')
        return x or {}

    def _extent(t):
        m = _re.search(r'\[(\d+)\]\s*$', (t or '').replace('const ', '').strip())
        if m:
            return int(m.group(1))
        m = _re.match(r'(?:const )?std::array<.*,\s*(\d+)>\s*&?$', (t or '').strip())
        return int(m.group(1)) if m else None

    def _enum_of(x):
        # the enumeration whose value the index is: the expression itself, or the operand of rep() / a cast
        x0 = x
        for _ in range(4):
            t = (x0.get('t') or '').replace('const ', '').strip()
            if t not in F.enums and t.replace('(anonymous namespace)', '(anon)') in F.enums:
                t = t.replace('(anonymous namespace)', '(anon)')
            if t in F.enums:
                return t
            if x0.get('k') == 'cast':
                x0 = x0.get('e') or {}
            elif x0.get('k') == 'call' and len(x0.get('args') or []) == 1 and (x0.get('callee') or {}).get('name') in ('rep', 'to_underlying'):
                x0 = x0['args'][0]
            else:
                break
        return None
    def _bare(x):
        if isinstance(x, dict):
            if x.get('k') == 'cast':
                return _bare(x.get('e'))
            return tuple(sorted((k, _bare(v)) for k, v in x.items() if k not in ('ln', 't', 'col')))
        if isinstance(x, list):
            return tuple(_bare(v) for v in x)
        return x

    def _conjuncts(c):
        c = _strip(c)
        if c.get('k') == 'binop' and c.get('op') in ('&&', 'and'):
            return _conjuncts(c.get('l')) + _conjuncts(c.get('r'))
        return [c]

    def _local_init(f, ref):
        # the initialiser of a local that is never assigned afterwards (const or not), else None
        if ref.get('k') != 'ref' or ref.get('kind') != 'local':
            return None
        init = None
        for n in walk(f.get('body')):
            if n.get('k') == 'decl':
                for v in n.get('vars', []):
                    if v.get('id') == ref.get('id') and v.get('name') == ref.get('name'):
                        init = v.get('init')
            tgt = None
            if n.get('k') == 'binop' and n.get('op') in ('=', '+=', '-=', '*=', '/=', '|=', '&=', '^=', '<<=', '>>=', '%='):
                tgt = _strip(n.get('l'))
            elif n.get('k') == 'unop' and ('++' in n.get('op', '') or '--' in n.get('op', '')):
                tgt = _strip(n.get('e'))
            if tgt and tgt.get('k') == 'ref' and tgt.get('kind') == 'local' and tgt.get('id') == ref.get('id') and tgt.get('name') == ref.get('name'):
                return None
        return init
    _callers = {}

    def _call_sites(fid):
        if not _callers:
            for g in F.fn.values():
                for n in walk(g.get('body')):
                    if n.get('k') == 'call' and (n.get('callee') or {}).get('id'):
                        _callers.setdefault(n['callee']['id'], []).append((g, n))
            _callers[None] = []
        return _callers.get(fid, [])

    def _value_set(x, f, depth=0):
        # the finite set of values an integer expression can take, from constants, never-reassigned locals and -- for a parameter --
        # the arguments at every call site of the function; None when it is not such a set
        x = _strip(x)
        if not x or depth > 4:
            return None
        if 'cv' in x:
            return {int(x['cv'])}
        k = x.get('k')
        if k == 'ref' and x.get('kind') == 'local':
            init = _local_init(f, x)
            return _value_set(init, f, depth + 1) if init is not None else None
        if k == 'ref' and x.get('kind') == 'parm':
            if f.get('virtual') or f.get('lambda_call'):
                return None
            sites = _call_sites(f['id'])
            if not sites:
                return None
            out = set()
            for g, n in sites:
                args = n.get('args') or []
                if x.get('idx') is None or x['idx'] >= len(args):
                    return None
                vs = _value_set(args[x['idx']], g, depth + 1)
                if vs is None:
                    return None
                out |= vs
            return out
        if k == 'binop' and x.get('op') in ('+', '-', '*', '^', '|', '&'):
            a, b = _value_set(x.get('l'), f, depth + 1), _value_set(x.get('r'), f, depth + 1)
            if a is None or b is None or len(a) * len(b) > 64:
                return None
            op = x['op']
            return {{'+': i + j, '-': i - j, '*': i * j, '^': i ^ j, '|': i | j, '&': i & j}[op] for i in a for j in b}
        if k == 'unop' and x.get('op') == '!':
            a = _value_set(x.get('e'), f, depth + 1)
            return None if a is None else {int(not i) for i in a}
        if k in ('cond', 'condop', 'conditional'):
            a, b = _value_set(x.get('then') or x.get('a'), f, depth + 1), _value_set(x.get('else') or x.get('b'), f, depth + 1)
            return None if a is None or b is None else a | b
        return None

    def _guarded(idx, base, N, guards, f=None):
        # a test `idx < bound` (bound a constant <= N, or the size of the table itself) that holds where the subscript is evaluated
        bi, bb = _bare(idx), _bare(base)
        for g in guards:
            for c in _conjuncts(g):
                if c.get('k') == 'binop' and c.get('op') == '!=' and getattr(g, 'get', None) and g.get('_for') is not None:
                    # `for (i = 0; i != N; ++i)`: i runs over [0, N) when it starts at a constant not above N and only the loop's own
                    # increment changes it
                    fr_ = g['_for']
                    iv = [v for d_ in walk(fr_.get('init')) if d_.get('k') == 'decl' for v in d_.get('vars', [])]
                    side = 'l' if _bare(c.get('l')) == bi else ('r' if _bare(c.get('r')) == bi else None)
                    i0 = _strip(idx)
                    if side and len(iv) == 1 and i0.get('k') == 'ref' and i0.get('id') == iv[0].get('id') and i0.get('name') == iv[0].get('name'):
                        start = _strip(iv[0].get('init')).get('cv', (iv[0].get('init') or {}).get('cv'))
                        inc = _strip(fr_.get('inc'))
                        steps = inc.get('k') == 'unop' and '++' in inc.get('op', '') and _bare(inc.get('e')) == bi
                        others = [n_ for n_ in walk(fr_.get('b')) if (n_.get('k') == 'binop' and n_.get('op', '').endswith('=') and n_.get('op') not in ('==', '!=', '<=', '>=')
                                                                      and _bare(n_.get('l')) == bi)
                                  or (n_.get('k') == 'unop' and ('++' in n_.get('op', '') or '--' in n_.get('op', '')) and _bare(n_.get('e')) == bi)]
                        if start is not None and 0 <= int(start) and steps and not others:
                            c = dict(c, op='<') if side == 'l' else dict(c, op='>')
                if c.get('k') != 'binop' or c.get('op') not in ('<', '<=', '>', '>='):
                    continue
                lo, hi, strict = (c.get('l'), c.get('r'), c['op'] == '<') if c['op'] in ('<', '<=') else (c.get('r'), c.get('l'), c['op'] == '>')
                if _bare(lo) != bi:
                    continue
                h = _strip(hi)
                if f is not None and h.get('k') == 'ref' and h.get('kind') == 'local' and _local_init(f, h) is not None:
                    hi = _local_init(f, h)      # a bound kept in a local that is never reassigned
                    h = _strip(hi)
                cvh = h.get('cv', (hi or {}).get('cv'))
                if cvh is not None and int(cvh) + (0 if strict else 1) <= N:
                    return True
                if strict and h.get('k') == 'call' and (h.get('callee') or {}).get('name') in ('size', 'ssize') \
                        and bb in (_bare(h.get('obj')), _bare((h.get('args') or [None])[0])):
                    return True
        return False

    def _sites(n, guards):
        # (node, conditions known to hold there): then-branches and loop bodies carry their condition
        if isinstance(n, list):
            for x in n:
                yield from _sites(x, guards)
            return
        if not isinstance(n, dict):
            return
        yield n, guards
        k = n.get('k')
        for key, v in n.items():
            if key in ('then', 'b') and k in ('if', 'for', 'while') and n.get('c') is not None and (key == 'then' or k != 'if'):
                yield from _sites(v, guards + [dict(n['c'], _for=n) if k == 'for' and isinstance(n['c'], dict) else n['c']])
            elif key == 'r' and k == 'binop' and n.get('op') in ('&&', 'and'):
                yield from _sites(v, guards + [n.get('l')])
            elif key == 'then' and k == 'cond' or (key in ('a', 'then') and k in ('condop', 'conditional')):
                yield from _sites(v, guards + [n.get('c')])
            elif isinstance(v, (dict, list)):
                yield from _sites(v, guards)
    seen_sites = set()
    for f in sorted(F.fn.values(), key=lambda f: f['id']):
        if not (f.get('loc') or '').startswith(('src/', 'include/ipr')):
            continue
        addr_of = {id(_strip(n_.get('e'))) for n_ in walk(f.get('body')) if n_.get('k') == 'unop' and n_.get('op') == '&'}
        for n, guards in _sites(f.get('body'), []):
            base = idx = None
            if n.get('k') == 'index':
                base, idx = n.get('base'), n.get('idx')
            elif n.get('k') == 'call' and (n.get('callee') or {}).get('name') == 'operator[]' and (n.get('callee') or {}).get('repo') is False \
                    and (n['callee'].get('parent') or '').startswith('std::array<') and n.get('args'):
                base, idx = n.get('obj'), n['args'][0]
            if base is None:
                continue
            b = _strip(base)
            N = _extent(b.get('t')) or _extent((base or {}).get('t'))
            site = (f['loc'].split(':')[0], n.get('ln'), b.get('name'), str(_strip(idx).get('cv') or _strip(idx).get('name') or _strip(idx).get('k')))
            if N is None or site in seen_sites:
                continue        # a pointer subscript: the extent is not in the type (not judged here)
            seen_sites.add(site)
            owner = (b.get('cls') or '').replace('const ', '')
            if (owner, b.get('name')) in FLEX or any((c, b.get('name')) in FLEX for c in F.rec if b.get('k') == 'member' and f.get('parent') == c):
                ck.note(f'{site[0]}:{site[1]} {b.get("name")}[...]: ' + FLEX.get((owner, b.get('name')), FLEX.get((f.get('parent'), b.get('name')), '')))
                continue
            i = idx or {}
            i0 = _strip(i)
            ok, why = False, 'computed from data, no bound'
            if 'cv' in i or 'cv' in i0:
                v = int(i.get('cv', i0.get('cv')))
                ok, why = 0 <= v < N, f'constant {v}'
                if v == N and id(n) in addr_of:
                    ok, why = True, 'the one-past-the-end position, whose address only is taken'
            else:
                en = _enum_of(i)
                if en is not None:
                    vals = [int(e['value']) for e in F.enums[en].get('enumerators', [])]
                    ok = bool(vals) and all(0 <= v < N for v in vals)
                    why = f'value of {contracts.short(en)} (enumerators {min(vals) if vals else "-"}..{max(vals) if vals else "-"})'
                elif _guarded(idx, base, N, guards, f):
                    ok, why = True, 'tested against the extent on the way'
                elif i0.get('k') == 'binop' and i0.get('op') in ('%', '&') and 'unsigned' in (_strip(i0.get('l')).get('t') or '') + ' ' + (i0.get('t') or '') \
                        and ('cv' in (i0.get('r') or {}) or 'cv' in _strip(i0.get('r'))):
                    # an unsigned value reduced modulo K (or masked with K): below K (at most K)
                    K_ = int((i0.get('r') or {}).get('cv', _strip(i0.get('r')).get('cv')))
                    top = K_ - 1 if i0['op'] == '%' else K_
                    ok, why = (K_ > 0 or i0['op'] == '&') and 0 <= top < N, f'an unsigned value {"modulo" if i0["op"] == "%" else "masked with"} {K_}'
                else:
                    vs = _value_set(idx, f)
                    if vs is not None and vs:
                        ok, why = all(0 <= v < N for v in vs), f'one of {sorted(vs)[:8]} (constants, through never-reassigned locals and the arguments of every call)'
            ck.check(R9, f'{site[0]}:{site[1]} {b.get("name") or "?"}[{site[3]}]', ok,
                     f'{f["id"]} (line {n.get("ln")}): subscript of `{b.get("name")}` (extent {N}) by an index that is {why}: nothing keeps it '
                     f'below {N}', loc=f['loc'], fn=f['id'])

    # ---------------------------------------------------------------- nothing is left indeterminate by a constructor
    import initrule as _initrule
    R_ind = ck.rule('C19.members-initialised', 'every user-provided constructor of a library class leaves no scalar sub-object of the new object indeterminate (directly or through a member or base whose default-initialisation does nothing): an accessor that reads such a member reads an indeterminate value, and a pointer among them is followed outside live objects', floor=200)
    _SINGULAR = {'ipr::Sequence<': 'a default-constructed Sequence<T>::Iterator is a singular iterator (it may only be assigned to), as the '
                 'iterator requirements allow; the library never reads one'}
    for name_, r_ in sorted(F.rec.items()):
        if not name_.startswith('ipr::') or r_.get('lambda'):
            continue
        for m_ in r_['methods']:
            c_ = F.fn.get(m_['id']) if m_.get('ctor') else None
            if c_ is None or c_.get('implicit') or c_.get('defaulted') or c_.get('body') is None or c_.get('copy'):
                continue
            leaves = _initrule.ctor_leaves(F, c_)
            pass
            why = next((w for k_, w in _SINGULAR.items() if name_.startswith(k_) and name_.endswith('::Iterator')), None)
            if leaves and why:
                ck.note(f'{contracts.short(name_)}: {why}')
                leaves = []
            ck.check(R_ind, contracts.short(contracts.fn_qname(c_['id'])) + '/' + str(len(c_['params'])), not leaves,
                     f'{c_["id"]} leaves {leaves[:4]} of the {contracts.short(name_)} it constructs indeterminate (no initialiser in the constructor, no default '
                     'member initialiser, and default-initialisation of that member does nothing)', loc=c_['loc'], fn=c_['id'])

    # reads of the first unit of a word that no emptiness test dominates
    import firstunit as _firstunit
    _firstunit.rule(ck, F, 'C19')
    # no accessor follows a pointer that may be null (a read through a null pointer is a read outside live objects)
    import borrow as _borrow
    _borrow.borrow(ck, F, 'C14', 'C19', {'no-unchecked-deref'})
    # an unformatted write of the printer stays within the object it takes its bytes from
    _borrow.borrow(ck, F, 'C18', 'C19', {'explicit-extent-writes'})
    # a static downcast to the wrong class makes every later access through it an access outside the object
    _borrow.borrow(ck, F, 'C14', 'C19', {'downcasts-confirmed'})

    # the pool chain after an allocation: nothing that was reachable is lost, everything new is reachable
    R7 = ck.rule('C19.chain-preserved', 'on every path of arena::allocate (and of the constructor) the chain mem -> previous -> ... '
                 'reaches every block just obtained from operator new, still reaches the old head, and ends in the old tail: '
                 'the destructor, which walks exactly this chain, releases every block ever allocated', floor=3)
    from symex import Sym, Unsupported, NULL
    S7 = Sym(F, opaque=lambda fid: False, max_depth=20)
    THIS = ('sym', 'this')
    M0 = ('fld', THIS, F_MEM)

    def news_in(t, acc):
        if isinstance(t, tuple):
            if t and t[0] == 'call' and isinstance(t[1], str) and t[1].startswith('operator new('):
                acc.add(t)
            for x in t:
                news_in(x, acc)
        return acc
    ARENA = 'ipr::util::string::arena'

    def reaches_new(f, seen=None):
        seen = seen if seen is not None else set()
        if f['id'] in seen:
            return False
        seen.add(f['id'])
        for n in calls_in(f):
            c = n['callee']
            if c.get('name') == 'operator new':
                return True
            g = F.fn.get(c.get('id'))
            if g is not None and g.get('parent') == ARENA and reaches_new(g, seen):
                return True
        return False
    # entry points: the constructor and the member functions (not static helpers, which are evaluated inside their callers)
    arena_fns = [f for f in F.fns_in(ARENA) if not f.get('static') and not f.get('dtor') and reaches_new(f)
                 and not any(g is not f and not g.get('static') and any(n['callee'].get('id') == f['id'] for n in calls_in(g))
                             for g in F.fns_in(ARENA))]
    if len(arena_fns) < 1:
        raise AnalysisBroken(f'arena allocation entry points: no member of the arena reaches operator new')
    for f in sorted(arena_fns, key=lambda f: f['id']):
        try:
            outs = S7.run(f['id'], this=THIS)
        except Unsupported as e:
            raise AnalysisBroken(f'{f["id"]}: outside the evaluator language: {e}')
        for i, (st, kind, _v) in enumerate(outs):
            if kind != 'return':
                continue
            fresh = set()
            for k, v in st.symstore.items():
                news_in(k, fresh)
                news_in(v, fresh)
            inst = f'{contracts.short(contracts.fn_qname(f["id"]))}/path{i}'
            cur = st.symstore.get(M0, M0)
            visited, tail = [], None
            for _ in range(8):
                visited.append(cur)
                key = ('fld', ('deref', cur), F_PREV)
                if key not in st.symstore:
                    tail = key
                    break
                nxt = st.symstore[key]
                if nxt == NULL or (isinstance(nxt, tuple) and nxt[0] == 'k'):
                    tail = NULL
                    break
                if isinstance(nxt, tuple) and nxt[0] == 'fld' and nxt[2] == F_PREV:
                    tail = nxt            # the value the link had on entry
                    break
                cur = nxt
            what = []
            lost = [n for n in fresh if n not in visited]
            if lost:
                what.append(f'{len(lost)} block(s) obtained from operator new are not on the chain from mem')
            if f.get('ctor'):
                if tail != NULL:
                    what.append('the first pool\'s previous link is not null')
            else:
                if M0 not in visited:
                    what.append('the pool that was the head on entry is no longer reachable from mem')
                if tail != ('fld', ('deref', M0), F_PREV):
                    what.append('the chain no longer ends in the pools that followed the old head (they are never released)')
            ck.check(R7, inst, not what, f'{f["id"]}: ' + '; '.join(what), loc=f['loc'], fn=f['id'],
                     detail={'fresh_blocks': len(fresh), 'chain_length_followed': len(visited)})

    srec = F.need_rec('ipr::impl::String')
    ck.check(R5, 'impl::String', srec['trivially_destructible'], 'impl::String has a non-trivial destructor: bucket destruction could read arena '
             'storage already released', loc=srec['loc'])


def places_loc(F):
    r = [x for x in F.rec.values() if x.get('template') == 'ipr::util::rb_tree::container']
    return r[0]['loc'] if r else None


def rec_reaches_self(F, fid, depth=3):
    """Does fid call itself (directly or through one helper)?"""
    f = F.fn.get(fid)
    if f is None:
        return False
    for n in calls_in(f):
        c = n['callee']['id']
        if c == fid:
            return True
    return False


def stores_result(F, f, owner, producer_ids=None, depth=0):
    """The raw pointer is assigned to a member / link (possibly through a pointer to the link), or handed to a caller in the class
    that does so: followed through local variables and through helpers that return it (bounded depth)."""
    body = f.get('body')
    inits = f.get('inits') or []
    producer_ids = producer_ids or set()

    def produces(m):
        c = m.get('callee') or {}
        return m.get('k') == 'call' and (c.get('name') in ALLOC_NAMES or c.get('id') in producer_ids)
    # constructor initialiser `mem(static_cast<pool*>(operator new(...)))`
    for i in inits:
        if i['kind'] == 'member' and any(produces(n) for n in walk(i['e'])):
            return True
    alloc_vars = set()
    for _round in range(3):
        for n in walk(body):
            if n.get('k') == 'decl':
                for v in n['vars']:
                    if any(produces(m) or (m.get('k') == 'ref' and m.get('kind') == 'local' and m.get('id') in alloc_vars) for m in walk(v.get('init'))):
                        alloc_vars.add(v['id'])
            if n.get('k') == 'binop' and n.get('op') == '=' and strip_casts(n['l']).get('k') == 'ref' and strip_casts(n['l']).get('kind') == 'local':
                if any(produces(m) or (m.get('k') == 'ref' and m.get('kind') == 'local' and m.get('id') in alloc_vars) for m in walk(n['r'])):
                    alloc_vars.add(strip_casts(n['l']).get('id'))
    stored = returned = False
    for n in walk(body):
        if n.get('k') == 'binop' and n.get('op') == '=':
            carries = any(produces(m) or (m.get('k') == 'ref' and m.get('kind') == 'local' and m.get('id') in alloc_vars) for m in walk(n['r']))
            lhs = strip_casts(n['l'])
            into_link = lhs.get('k') == 'member' or any(m.get('k') == 'member' for m in walk(lhs)) or \
                (lhs.get('k') == 'unop' and lhs.get('op') == '*') or (lhs.get('k') == 'call')      # *slot = n ;  x->left() = n
            if carries and into_link:
                stored = True
        if n.get('k') == 'return':
            if any(produces(m) or (m.get('k') == 'ref' and m.get('kind') == 'local' and m.get('id') in alloc_vars) for m in walk(n.get('e'))):
                returned = True
    if stored:
        return True
    if returned and depth < 3:
        callers = [g for g in F.fn.values() if (g.get('parent') or '') == owner and g['id'] != f['id'] and
                   any((n.get('callee') or {}).get('id') == f['id'] for n in walk(g.get('body')) if n.get('k') == 'call')]
        if not callers:
            return False
        return all(stores_result(F, g, owner, producer_ids | {f['id']}, depth + 1) for g in callers)
    return False
