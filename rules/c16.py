"""C16 -- substitutions behave as finite maps from parameters to expressions."""
from facts import AnalysisBroken, walk
from symex import Sym, State, Unsupported
import contracts

LEVEL = 'other'
TITLE = 'C16 substitutions behave as finite maps from parameters to expressions'


def reused_is_same_binding(F, S, st, x):
    """x is a substitution that existed before the request (p, v).  Handing it out is right only if the path condition says that
    x binds exactly p to v: operator[] of its class, evaluated on x with a fresh query q, splits on `q is T` and answers U, and
    the path condition makes T the address of p and U the expression v."""
    cands = [n for n in F.rec if n.endswith('::Elementary_substitution') and n.startswith('ipr::impl')]
    if len(cands) != 1:
        return False
    op = F.final_overrider(cands[0], 'ipr::Substitution::operator[](const ipr::Parameter &) const')
    if op is None or op not in F.fn:
        return False
    Q = ('param', 100)
    try:
        res = S.run(op, this=x, args=[Q], state=st.fork())
    except Unsupported:
        return False
    base = len(st.conds)
    ok_bound = ok_other = False
    for s2, k2, v2 in res:
        conds = s2.conds[base:]
        if k2 != 'return' or len(conds) != 1:
            return False
        c, val = conds[0]
        if not (isinstance(c, tuple) and len(c) == 4 and c[0] == 'op' and c[1] == '==' and ('addr', Q) in (c[2], c[3])):
            return False
        T = c[3] if c[2] == ('addr', Q) else c[2]
        if val:
            ok_bound = S.truth(('op', '==', T, ('addr', ('param', 0))), st) is True and \
                (v2 == ('param', 1) or S.truth(('op', '==', ('addr', v2), ('addr', ('param', 1))), st) is True)
        else:
            ok_other = v2 == Q
    return ok_bound and ok_other


def run(ck, F):
    ck.explanation = (
        'Elementary_substitution::operator[] is evaluated on the object the factory builds from (parameter p, value v) '
        'and a queried parameter q; the two cases {q is p, q is another parameter} (E1 over identity) must yield v, '
        'resp. q.  General_substitution: operator[] must look the queried parameter\'s address up in the map and yield '
        'the stored expression when found, else the parameter; subst must use an overwriting idiom.')
    S = Sym(F, opaque=contracts.default_opaque(F), max_depth=32)
    R = ck.rule('C16.elementary', 'an elementary substitution maps its parameter to its value and every other parameter to '
                'itself (E1 over {queried is the bound one, is another})', floor=2)
    mk = F.need_fn('ipr::impl::expr_factory::make_elementary_substitution(const ipr::Parameter &, const ipr::Expr &)')
    # every overload of that name a client's call can select (an argument of static type Expr_list prefers an overload declared
    # for it): each must bind the parameter to the very expression it was given
    mks = sorted((g for g in F.fn.values() if g['name'] == mk['name'] and g.get('body') and len(g['params']) == 2
                  and (g.get('parent') == mk.get('parent') or F.derives_from(g.get('parent') or '', mk.get('parent')))), key=lambda g: g['id'])
    if mk['id'] not in [g['id'] for g in mks]:
        raise AnalysisBroken('make_elementary_substitution(const Parameter&, const Expr&) has no body')
    for mk in mks:
        otag = '' if mk['params'][1]['t'].replace(' ', '') == 'constipr::Expr&' else f' <{contracts.short(mk["params"][1]["t"])} overload>'
        outs = [o for o in S.run(mk['id']) if o[1] == 'return']
        if not outs:
            raise AnalysisBroken('make_elementary_substitution never returns')
        op = None
        for pi, (st, _k, v) in enumerate(outs):
            tag = otag + ('' if len(outs) == 1 else f' [path {pi}: {contracts.render_conds(st.conds, st, {})[:100]}]')
            # the substitution handed out must be one built here from (p, v): an object that existed before (the last one made, a
            # cached one) has a binding of its own, which the request cannot know
            obj0 = v[1] if isinstance(v, tuple) and v and v[0] == 'addr' else v
            if not (isinstance(obj0, tuple) and obj0 and obj0[0] == 'obj' and obj0[1] in st.heap) and reused_is_same_binding(F, S, st, obj0):
                ck.ok(R, 'operator[](bound parameter)' + tag)
                ck.ok(R, 'operator[](other parameter)' + tag)
                continue
            if not (isinstance(obj0, tuple) and obj0 and obj0[0] == 'obj' and obj0[1] in st.heap):
                ck.fail(R, 'operator[](bound parameter)' + tag, 'make_elementary_substitution(p, v) hands out `' + contracts.render(v, st, {})[:80]
                        + '`, a substitution that existed before the request: whatever it binds, it was not built from (p, v), and applied to its '
                        'own parameter it does not leave that parameter unchanged', loc=mk['loc'], fn=mk['id'])
                continue
            obj = v[1]
            cls = st.heap[obj[1]].cls
            op = F.final_overrider(cls, 'ipr::Substitution::operator[](const ipr::Parameter &) const')
            if op is None or op not in F.fn:
                raise AnalysisBroken('Elementary_substitution::operator[] not found')
            f = F.fn[op]
            Q = ('param', 100)
            res = S.run(op, this=obj, args=[Q], state=st.fork())
            base = len(st.conds)
            cases = {}
            for s2, k2, v2 in res:
                conds = s2.conds[base:]
                if k2 != 'return' or len(conds) != 1:
                    cases['?'] = f'{k2} under {len(conds)} conditions'
                    continue
                c, val = conds[0]
                # c must be the identity test &Q == &P0 (either order)
                ident = c in (('op', '==', ('addr', Q), ('addr', ('param', 0))), ('op', '==', ('addr', ('param', 0)), ('addr', Q)))
                if not ident and c in (('op', '!=', ('addr', Q), ('addr', ('param', 0))), ('op', '!=', ('addr', ('param', 0)), ('addr', Q))):
                    ident, val = True, not val          # the same test written negatively (a guard clause)
                if not ident:
                    cases['?'] = 'the case split is not the identity of the queried and the bound parameter: ' + contracts.render(c, s2, {})
                    continue
                cases['bound' if val else 'other'] = v2
            ck.check(R, 'operator[](bound parameter)' + tag, cases.get('bound') == ('param', 1),
                     f'applying an elementary substitution [p -> v] to p yields `{contracts.render(cases.get("bound"), st, {}) if "bound" in cases else cases}` '
                     f'(P0 = p, P1 = v), expected v', loc=f['loc'], fn=op)
            ck.check(R, 'operator[](other parameter)' + tag, cases.get('other') == Q,
                     f'applying an elementary substitution [p -> v] to another parameter q yields `{contracts.render(cases.get("other"), st, {}) if "other" in cases else cases}` '
                     f'(P0 = p, P1 = v, P100 = q), expected q itself', loc=f['loc'], fn=op)

    # ---------------------------------------------------------------- general substitution, whatever holds the bindings
    latest_binding_rule(ck, F)
    # a substitution handed out keeps its binding as long as the Lexicon lives: the stores of substitution nodes are reference-stable
    # and only grow
    import borrow as _borrow
    _borrow.borrow(ck, F, 'C05', 'C16', {'STORE', 'grow-only'}, only=lambda inst: 'subst' in inst.lower())

    # ---------------------------------------------------------------- general substitution
    if len([fl for fl in F.need_rec('ipr::impl::General_substitution')['fields'] if 'std::map<' in fl['t']]) != 1:
        # the rules below describe how a std::map is used (overwriting idiom, ordering of the keys); with another representation
        # they do not apply -- what the substitution answers is judged by C16.latest-binding above, whatever holds the table
        ck.note('General_substitution does not keep its bindings in one std::map: the map-usage rules (C16.general) do not apply; '
                'its behaviour is judged by C16.latest-binding')
        return
    RG = ck.rule('C16.general', 'a general substitution looks the queried parameter up by address, yields the stored expression '
                 'when bound and the parameter itself otherwise; subst overwrites (latest binding wins)', floor=3)
    gop = F.need_fn('ipr::impl::General_substitution::operator[](const ipr::Parameter &) const')
    try:
        res = S.run(gop['id'])
    except Unsupported as e:
        raise AnalysisBroken(f'{gop["id"]}: {e}')
    found_ok = notfound_ok = False
    shape = []
    MAP = ('fld', ('sym', 'this'), F.role_field('ipr::impl::General_substitution', lambda fl: 'std::map<' in fl['t'], 'parameter -> expression map'))
    mapf = [fl['name'] for fl in F.need_rec('ipr::impl::General_substitution')['fields'] if 'std::map<' in fl['t']]
    if len(mapf) == 1:
        MAP = ('fld', ('sym', 'this'), mapf[0])

    def is_find(t):
        return (isinstance(t, tuple) and t[0] == 'call' and contracts.fn_simple(t[1]) == 'find' and t[2] == MAP
                and t[3] == (('addr', ('param', 0)),))

    def is_end(t):
        return isinstance(t, tuple) and t[0] == 'call' and contracts.fn_simple(t[1]) == 'end' and t[2] == MAP

    def lookup_found(c, val):
        """Does (condition c == val) mean `the parameter's address was found in the map`?"""
        neg = False
        while isinstance(c, tuple) and c[0] == 'un' and c[1] == '!':
            c = c[2]
            neg = not neg
        if not (isinstance(c, tuple) and c[0] == 'call' and len(c[3]) == 2):
            return None
        n = contracts.fn_simple(c[1])
        a, b = c[3]
        if not ((is_find(a) and is_end(b)) or (is_find(b) and is_end(a))):
            return None
        if n == 'operator==':
            eq = True
        elif n == 'operator!=':
            eq = False
        else:
            return None
        # c (without negations) says: find == end (eq) or find != end
        holds = val if not neg else (not val)
        return (not holds) if eq else holds
    for s2, k2, v2 in res:
        if k2 != 'return' or len(s2.conds) != 1:
            shape.append(f'{k2}/{len(s2.conds)}')
            continue
        c, val = s2.conds[0]
        found = lookup_found(c, val)
        shape.append((found, contracts.render(v2, s2, {})[:60]))
        if found is True:
            # *it->second  : deref(fld(deref(call operator->(find)), second))
            t = v2
            ok = (t[0] == 'deref' and t[1][0] == 'fld' and t[1][2] == 'second')
            if ok:
                inner = t[1][1]
                if inner[0] == 'deref':
                    inner = inner[1]
                ok = inner[0] == 'call' and contracts.fn_simple(inner[1]) in ('operator->', 'operator*') and is_find(inner[2])
            found_ok = ok
        elif found is False:
            notfound_ok = v2 == ('param', 0)
    ck.check(RG, 'operator[] (bound)', found_ok, f'General_substitution::operator[] does not yield the stored expression of the found binding: {shape}',
             loc=gop['loc'], fn=gop['id'])
    ck.check(RG, 'operator[] (unbound)', notfound_ok, f'General_substitution::operator[] does not yield the queried parameter when it is unbound: {shape}',
             loc=gop['loc'], fn=gop['id'])
    sub = F.need_fn('ipr::impl::General_substitution::subst(const ipr::Parameter &, const ipr::Expr &)')
    res = S.run(sub['id'])
    good = False
    what = 'not straight-line'
    if len(res) == 1 and res[0][1] == 'return':
        s2, _k, v2 = res[0]
        calls = [e for e in s2.effects if e[0] == 'call']
        names = [contracts.fn_simple(e[1]) for e in calls]
        what = f'map operations {names}'
        if len(calls) == 1 and calls[0][2] == MAP:
            n = names[0]
            args = calls[0][3]
            if n == 'insert_or_assign' and args == (('addr', ('param', 0)), ('addr', ('param', 1))):
                good = True
            what += f' with {[contracts.render(a, s2, {}) for a in args]}'
        # m[&p] = &v
        if not good:
            idx = [e for e in s2.effects if e[0] == 'write']
            for w in idx:
                lv = contracts.render(w[1], s2, {})
                if 'operator[](&P0)' in lv and w[2] == ('addr', ('param', 1)):
                    good = True
        good = good and v2 in (('sym', 'this'), ('deref', ('addr', ('sym', 'this'))))
        if good and not (sub.get('ret') or '').rstrip().endswith('&'):
            good = False
            what += f'; it returns `{sub.get("ret")}` by value: `return *this` hands back a copy, and a binding given through the result ' \
                    '(s.subst(p, a).subst(q, b)) lands in that temporary, not in the substitution'
    ck.check(RG, 'subst', good, f'General_substitution::subst does not overwrite the binding of p with v ({what}); '
             'insert/emplace keep the first binding', loc=sub['loc'], fn=sub['id'])
    # the map is keyed by parameter address and private
    rec = F.need_rec('ipr::impl::General_substitution')
    mp = [fl for fl in rec['fields'] if 'std::map<' in fl['t']]
    # the keys are parameter addresses and two keys are one exactly when the addresses are: the ordering of the map is the order
    # of addresses (std::less / std::greater of the pointer type), not a relation under which distinct parameters are equivalent
    mt = mp[0]['t'] if len(mp) == 1 else ''
    def top_args(t):
        i = t.find('<')
        if i < 0:
            return []
        out, d, cur = [], 0, ''
        for ch in t[i + 1:t.rfind('>')]:
            if ch in '<(':
                d += 1
            elif ch in '>)':
                d -= 1
            if ch == ',' and d == 0:
                out.append(cur.strip()); cur = ''
            else:
                cur += ch
        out.append(cur.strip())
        return out
    targs = top_args(mt)
    cmp_t = targs[2] if len(targs) >= 3 else 'std::less<const ipr::Parameter *>'
    by_address = cmp_t.replace(' ', '') in ('std::less<constipr::Parameter*>', 'std::less<void>', 'std::greater<constipr::Parameter*>', 'std::greater<void>',
                                           'std::less<>', 'std::greater<>')
    ck.check(RG, 'map type', len(mp) == 1 and mt.startswith('std::map<const ipr::Parameter *, const ipr::Expr *') and by_address,
             f'General_substitution stores its bindings in {[m["t"][:160] for m in mp]}: ' +
             ('the keys are ordered by `' + cmp_t + '`, under which two different parameters can be equivalent (one key): a binding for one is '
              'answered for, and overwritten by, the other' if not by_address else 'not a map from parameter addresses to expressions'), loc=rec['loc'])


class AssocSym(Sym):
    """The evaluator with models of the two standard containers a table of bindings is kept in: std::map (insert_or_assign /
    find / end over symbolic keys: every identity case is a path) and std::forward_list filled with emplace_front and walked by a
    range-for (its contents are known when the list was empty at the start of the evaluation)."""

    def intrinsic(self, e, callee, recv, args, st):
        name, parent = callee.get('name'), callee.get('parent') or ''
        if callee.get('repo') is False and parent.startswith(('std::map<', 'std::unordered_map<')) and recv is not None:
            ents = st.contents.setdefault(recv, [])
            if name in ('insert_or_assign', 'insert', 'emplace', 'try_emplace') and len(args) == 2:
                k, v = args
                outs = []
                cur = st
                for i, (ki, _vi) in enumerate(ents):
                    t = self.truth(('op', '==', k, ki), cur)
                    if t is False:
                        continue
                    s2 = cur if t is True else cur.fork()
                    if t is None:
                        s2.conds.append((('op', '==', k, ki), True))
                        cur.conds.append((('op', '==', k, ki), False))
                    lst = list(s2.contents.get(recv, []))
                    if name == 'insert_or_assign':
                        lst[i] = (ki, v)
                        s2.effects.append(('write', ('mapval', recv, i), v))
                    s2.contents[recv] = lst
                    outs.append((s2, ('mapit', recv, i)))
                    if t is True:
                        return outs
                cur.contents[recv] = list(cur.contents.get(recv, [])) + [(k, v)]
                outs.append((cur, ('mapit', recv, len(cur.contents[recv]) - 1)))
                return outs
            if name == 'find' and len(args) == 1:
                k = args[0]
                outs = []
                cur = st
                for i, (ki, _vi) in enumerate(ents):
                    t = self.truth(('op', '==', k, ki), cur)
                    if t is False:
                        continue
                    s2 = cur if t is True else cur.fork()
                    if t is None:
                        s2.conds.append((('op', '==', k, ki), True))
                        cur.conds.append((('op', '==', k, ki), False))
                    outs.append((s2, ('mapit', recv, i)))
                    if t is True:
                        return outs
                outs.append((cur, ('mapend', recv)))
                return outs
            if name in ('end', 'cend') and not args:
                return [(st, ('mapend', recv))]
            if name == 'operator[]' and len(args) == 1:
                # m[k]: the value slot of the entry for k, created (null) when there is none
                k = args[0]
                outs = []
                cur = st
                for i, (ki, _vi) in enumerate(ents):
                    t = self.truth(('op', '==', k, ki), cur)
                    if t is False:
                        continue
                    s2 = cur if t is True else cur.fork()
                    if t is None:
                        s2.conds.append((('op', '==', k, ki), True))
                        cur.conds.append((('op', '==', k, ki), False))
                    outs.append((s2, ('mapval', recv, i)))
                    if t is True:
                        return outs
                cur.contents[recv] = list(cur.contents.get(recv, [])) + [(k, ('k', 0, 'null'))]
                outs.append((cur, ('mapval', recv, len(cur.contents[recv]) - 1)))
                return outs
        if callee.get('repo') is False and name in ('operator==', 'operator!=') and len(args) + (recv is not None) == 2:
            a, b = ([recv] + list(args)) if recv is not None else args
            if all(isinstance(x, tuple) and x[:1] in (('mapit',), ('mapend',)) for x in (a, b)):
                return [(st, ('k', int((a == b) == (name == 'operator==')), 'bool'))]
        if callee.get('repo') is False and name in ('operator->', 'operator*') and isinstance(recv, tuple) and recv[:1] == ('mapit',):
            k, v = st.contents[recv[1]][recv[2]]
            for eff in st.effects:                                      # a value assigned through m[k] = v (the last such write)
                if eff[0] == 'write' and eff[1] == ('mapval', recv[1], recv[2]):
                    v = eff[2]
            o = st.new_obj('std::pair', origin=('aggregate',))
            st.heap[o[1]].fields.update({'first': k, 'second': v})
            return [(st, ('addr', o) if name == 'operator->' else o)]
        if callee.get('repo') is False and parent.startswith('std::forward_list<') and name == 'emplace_front' and recv is not None:
            outs = Sym.intrinsic(self, e, callee, recv, args, st)
            if outs is not None:
                for s2, o in outs:
                    if s2.throw is None:
                        s2.contents[recv] = [o] + [x for x in s2.contents.get(recv, []) if x != o]
            return outs
        return Sym.intrinsic(self, e, callee, recv, args, st)

    def exec_search_loop(self, s, st):
        rng = self.ev(s['range'], st)
        if len(rng) == 1 and rng[0][1] in rng[0][0].contents and getattr(self, 'known_lists', None) and rng[0][1] in self.known_lists:
            st1, r = rng[0]
            states = [(st1, None)]
            for el in list(st1.contents[r]):
                nxt = []
                for s1, sig in states:
                    if sig is not None or s1.throw is not None:
                        nxt.append((s1, sig))
                        continue
                    s1.env[('v', s['var']['id'])] = el
                    s1.env[('n', s['var']['name'])] = el
                    for s2, sig2 in self.exec(s['b'], s1):
                        nxt.append((s2, 'loop-exit' if sig2 == 'break' else (None if sig2 == 'continue' else sig2)))
                states = nxt
            return [(s1, None if sig == 'loop-exit' else sig) for s1, sig in states]
        return Sym.exec_search_loop(self, s, st)


def latest_binding_rule(ck, F, prefix='C16'):
    R = ck.rule(f'{prefix}.latest-binding', 'a general substitution that was empty, then given the bindings a -> x and b -> y (in that order), answers a '
                'query q with y when q is b, else with x when q is a, else with q itself -- on every path, for every way the five nodes '
                'may coincide (b may be a: the later binding wins; y may be b itself: an identity binding still hides the earlier one).  '
                'Evaluated with models of std::map and std::forward_list, so the judgement does not depend on which of them holds the table', floor=3)
    cls = 'ipr::impl::General_substitution'
    F.need_rec(cls)
    sub = [f for f in F.fns_in(cls) if f['name'] == 'subst' and len(f['params']) == 2 and f.get('body')]
    opq = F.final_overrider(cls, 'ipr::Substitution::operator[](const ipr::Parameter &) const')
    if len(sub) != 1 or not opq or opq not in F.fn:
        raise AnalysisBroken('General_substitution::subst / operator[] not found')
    S = AssocSym(F, opaque=contracts.default_opaque(F), max_depth=32, max_paths=400)
    st0 = State()
    g = st0.new_obj(cls)
    S.known_lists = {('fld', g, fl['name']) for fl in F.rec[cls]['fields']}
    A, X, B, Y, Q = (('param', i) for i in range(5))
    try:
        states = [st0]
        for p_, v_ in ((A, X), (B, Y)):
            nxt = []
            for s1 in states:
                for s2, k2, _v2 in S.run(sub[0]['id'], this=g, args=[p_, v_], state=s1):
                    if k2 != 'return':
                        raise AnalysisBroken(f'{sub[0]["id"]} can throw')
                    nxt.append(s2)
            states = nxt
        finals = []
        for s1 in states:
            finals += S.run(opq, this=g, args=[Q], state=s1)
    except Unsupported as e:
        raise AnalysisBroken(f'{cls}: the table of bindings is kept in a way the models do not cover: {e}')
    NAMES = {A: 'a', X: 'x', B: 'b', Y: 'y', Q: 'q'}

    def same(st, u, v):
        # are the nodes u and v known to be one object on this path?  (True / False / None) -- by the equalities and
        # inequalities of addresses the path went through, closed under transitivity
        parent = {}

        def find(x):
            parent.setdefault(x, x)
            while parent[x] != x:
                parent[x] = parent[parent[x]]
                x = parent[x]
            return x
        neq = []
        for c, val in st.conds:
            if isinstance(c, tuple) and c[:1] == ('op',) and c[1] in ('==', '!=') and len(c) == 4:
                x, y = c[2], c[3]
                x = x[1] if isinstance(x, tuple) and x[:1] == ('addr',) else x
                y = y[1] if isinstance(y, tuple) and y[:1] == ('addr',) else y
                if bool(val) == (c[1] == '=='):
                    parent[find(x)] = find(y)
                else:
                    neq.append((x, y))
        if find(u) == find(v):
            return True
        if any({find(x), find(y)} == {find(u), find(v)} for x, y in neq):
            return False
        return None
    buckets = {'q is b': [], 'q is a, not b': [], 'q is neither': []}
    for st, k, v in finals:
        r = v
        for _ in range(8):
            if not (isinstance(r, tuple) and r[:1] == ('deref',)):
                break
            inner = S.rvalue(r[1], st)          # a pointer read from a pair / a slot: its stored value
            if isinstance(inner, tuple) and inner[:1] == ('addr',):
                r = inner[1]
            elif inner != r[1]:
                r = ('deref', inner)
            else:
                break
        qb, qa = same(st, Q, B), same(st, Q, A)
        if k != 'return':
            buckets['q is neither'].append(f'throws {v}')
            continue
        when = contracts.render_conds(st.conds, st, {})[:110]
        if qb is True:
            want, case = Y, 'q is b'
        elif qb is False and qa is True:
            want, case = X, 'q is a, not b'
        elif qb is False and qa is False:
            want, case = Q, 'q is neither'
        else:
            # the answer was given without settling which binding applies: it must be right whichever way the open question goes
            cands = ([Y] if qb is not False else []) + ([X] if qa is not False and qb is not True else []) + [Q]
            ok = all(same(st, r, c) is True for c in cands)
            buckets['q is neither'].append(None if ok else f'answers `{contracts.render(v, st, {})[:40]}` without having settled whether q is a or b (when {when})')
            continue
        ok = same(st, r, want) is True
        buckets[case].append(None if ok else f'answers {NAMES.get(r, contracts.render(v, st, {})[:40])} where {NAMES[want]} is bound (when {when})')
    # bindings enter the table through subst only: a constructor or another member that fills the table its own way (a range
    # constructor of the container, insert, emplace) need not resolve a repeated parameter the way successive subst calls do
    from facts import walk as _walk2
    table_fields = {fl['name'] for fl in F.rec[cls]['fields']}
    MUT = ('insert', 'insert_or_assign', 'emplace', 'try_emplace', 'emplace_front', 'emplace_back', 'push_front', 'push_back', 'operator[]',
           'assign', 'merge', 'swap', 'insert_after', 'emplace_after', 'insert_range')
    other_writers = []
    for g in F.fns_in(cls):
        if g['id'] == sub[0]['id'] or g.get('implicit') or g.get('copy') or g.get('body') is None:
            continue
        for i_ in g.get('inits', []) if g.get('ctor') else []:
            if i_.get('kind') == 'member' and i_.get('name') in table_fields and i_.get('written'):
                e_ = i_.get('e') or {}
                if (e_.get('args') or e_.get('elts')):
                    other_writers.append(f'{contracts.short(contracts.fn_qname(g["id"]))} initialises {i_["name"]} from its arguments')
        for n_ in _walk2(g.get('body')):
            if n_.get('k') == 'call' and (n_.get('callee') or {}).get('name') in MUT and n_.get('obj') is not None \
                    and n_['callee'].get('repo') is False:
                o_ = n_['obj']
                while isinstance(o_, dict) and o_.get('k') == 'cast':
                    o_ = o_.get('e')
                if isinstance(o_, dict) and o_.get('k') == 'member' and o_.get('name') in table_fields and not g['id'].endswith(' const'):
                    other_writers.append(f'{contracts.short(contracts.fn_qname(g["id"]))} calls {n_["callee"]["name"]} on {o_["name"]}')
    ck.check(R, 'bindings enter through subst only', not other_writers, f'{cls}: ' + '; '.join(sorted(set(other_writers))[:3]) +
             ': a parameter named twice in such a bulk request need not get its latest binding', loc=F.rec[cls]['loc'])
    for case, res in buckets.items():
        bad = sorted({x for x in res if x})
        ck.check(R, case, bool(res) and not bad, f'General_substitution, after subst(a, x) and subst(b, y), queried with q ({case}): ' +
                 ('; '.join(bad[:2]) if bad else 'no path reaches this case'), loc=F.fn[opq]['loc'], fn=opq)
