"""C06 -- category code, accept() and visitor defaults agree for every node class.

Finite space (categories x implementation classes x hooks) enumerated exhaustively;
the decision procedure is clang's own overload resolution (callees resolved by Sema)
and class-hierarchy facts.  Proof-level: every obligation is generated from the
current tree and discharged or reported.
"""
from facts import AnalysisBroken, stmts, strip_casts, walk

LEVEL = 'proof'
TITLE = 'C06 category code, accept() and visitor defaults agree for every node class'

NODE = 'ipr::Node'
VISITOR = 'ipr::Visitor'
ACCEPT = 'ipr::Node::accept(ipr::Visitor &) const'


def interface_ns(name):
    """Interface classes live directly in namespace ipr (not impl/util/cxx_form::impl, not local)."""
    if not name.startswith('ipr::'):
        return False
    rest = name[5:]
    for bad in ('impl::', 'util::', '(anon)', 'cxx_form::impl::'):
        if rest.startswith(bad):
            return False
    return '(' not in name.split('<')[0]


def category_of(F, name):
    """(code, super) of the nearest Category<code, super> ancestor reached through
    class-template instantiations only (Unary<>, Binary<>, Member_selection<>, ...)."""
    seen = set()
    todo = [name]
    hits = []
    while todo:
        n = todo.pop(0)
        if n in seen:
            continue
        seen.add(n)
        r = F.rec.get(n)
        if r is None:
            continue
        if r.get('template') == 'ipr::Category':
            hits.append((n, r['targs'][0], r['targs'][1]))
            continue
        for b in r['bases']:
            br = F.rec.get(b['name'])
            if br is None:
                continue
            # only walk through template instantiations (structural glue) ...
            if br.get('template'):
                todo.append(b['name'])
    return hits


def all_category_ancestors(F, name):
    out = []
    for a in [name] + F.ancestors(name):
        r = F.rec.get(a)
        if r and r.get('template') == 'ipr::Category':
            out.append((a, r['targs'][0], r['targs'][1]))
    return out


def visit_param_class(m):
    if m['name'] != 'visit' or len(m['params']) != 1:
        return None
    p = m['params'][0]
    if p.startswith('const ') and p.endswith(' &'):
        return p[6:-2]
    return None


def single_call(fn):
    """The body must be exactly one expression statement that is a call; return it or None."""
    body = stmts(fn.get('body'))
    if len(body) != 1:
        return None
    s = body[0]
    if s.get('k') == 'return' and 'e' in s:
        s = s['e']
    if s.get('k') != 'call':
        return None
    return s


def count_calls(fn):
    return sum(1 for n in walk(fn.get('body')) if n.get('k') in ('call',))


def arg_is_param0(F, e, depth=0):
    """Does expression e designate the function's parameter 0 (through as<>, casts)?"""
    e = strip_casts(e)
    if e is None:
        return False
    if e.get('k') == 'ref' and e.get('kind') == 'parm' and e.get('idx') == 0:
        return True
    if e.get('k') == 'call' and depth < 3:
        c = e.get('callee') or {}
        f = F.fn.get(c.get('id'))
        if f and len(e.get('args', [])) == 1 and identity_fn(F, f):
            return arg_is_param0(F, e['args'][0], depth + 1)
    return False


def identity_fn(F, f):
    b = stmts(f.get('body'))
    if len(b) != 1 or b[0].get('k') != 'return':
        return False
    e = strip_casts(b[0].get('e'))
    return bool(e) and e.get('k') == 'ref' and e.get('kind') == 'parm' and e.get('idx') == 0


def unbrace(e):
    e = strip_casts(e)
    while e and e.get('k') == 'initlist' and len(e.get('elts', [])) == 1:
        e = strip_casts(e['elts'][0])
    return e or {}


def arg_is_this(e):
    e = strip_casts(e)
    if e and e.get('k') == 'unop' and e.get('op') == '*':
        t = strip_casts(e['e'])
        return bool(t) and t.get('k') == 'this'
    return False


def run(ck, F):
    ck.explanation = (
        'Exhaustive enumeration of the finite space: every Category_code enumerator, every interface class, '
        'every Visitor::visit overload and default hook, every concrete class derived from ipr::Node that '
        'any library unit instantiates (including the process-wide constants), and every util::view<T> '
        'instantiation.  Callees are the ones overload resolution selected (resolved by Sema inside each '
        'template instantiation), super-categories are computed from the class hierarchy, not from a table.')
    codes_enum = F.enums.get('ipr::Category_code')
    if not codes_enum:
        raise AnalysisBroken('enum ipr::Category_code not found')
    codes = {e['name']: int(e['value']) for e in codes_enum['enumerators']}
    if len(set(codes.values())) != len(codes):
        ck.rule('C06.codes-distinct', 'category code enumerators have pairwise distinct values')
        ck.fail('C06.codes-distinct', 'ipr::Category_code', 'two enumerators share a value', loc=codes_enum['loc'])
    vis = F.need_rec(VISITOR)
    overloads = {}
    for m in vis['methods']:
        k = visit_param_class(m)
        if k:
            overloads[k] = m

    # ---------------------------------------------------------------- rule 1
    R1 = ck.rule('C06.1-own-code', 'an interface class deriving from Category<Category_code::X, S> '
                 '(through structural templates only) is named X', floor=150)
    leaf = {}        # interface class -> (code name, super)
    for name, r in F.rec.items():
        if not interface_ns(name) or r.get('template') or r.get('local') or r.get('lambda'):
            continue
        hits = category_of(F, name)
        if not hits:
            continue
        if len(hits) > 1:
            ck.fail(R1, name, f'derives from more than one Category<>: {[h[0] for h in hits]}', loc=r['loc'])
            continue
        _cat, code, sup = hits[0]
        code_name = code.split('::')[-1]
        leaf[name] = (code_name, sup)
        ck.check(R1, name, code_name == r['simple'] and code_name in codes,
                 f'class {name} is stamped with category code {code} (expected Category_code::{r["simple"]})',
                 loc=r['loc'], detail={'code': code, 'super': sup})
    # one class per code, one code per class
    R1b = ck.rule('C06.1b-code-injective', 'no two interface classes share a category code (codes without a '
                  'class, such as Unknown or last_code_cat, are harmless and not judged)', floor=150)
    by_code = {}
    for cls, (code, _s) in leaf.items():
        by_code.setdefault(code, []).append(cls)
    for code in codes:
        cl = by_code.get(code, [])
        if not cl:
            continue
        ck.check(R1b, f'Category_code::{code}', len(cl) == 1,
                 f'category code {code} is carried by {len(cl)} interface classes {cl}', loc=codes_enum['loc'])

    # ------------------------------------------------------- rule 1c: the stamp reaches Node::category
    R1c = ck.rule('C06.1c-code-stored', 'Category<X,S>() passes X to S; every abstract class constructor passes '
                  'its code parameter to its base; Node stores it in `category`', floor=150)
    for name, r in F.rec.items():
        if r.get('template') != 'ipr::Category':
            continue
        ctors = [f for f in F.fns_in(name) if f.get('ctor') and not f.get('copy')]
        if not ctors:
            continue          # never constructed in any unit
        code = r['targs'][0].split('::')[-1]
        for c in ctors:
            good = False
            for i in c.get('inits', []):
                if i['kind'] == 'base' and i['name'] == r['targs'][1]:
                    e = i['e']
                    args = e.get('args', []) if e.get('k') == 'ctor' else []
                    if len(args) == 1 and args[0].get('cv') is not None and code in codes \
                            and int(args[0]['cv']) == codes[code]:
                        good = True
            ck.check(R1c, name, good, f'{name}::Category() does not pass Category_code::{code} to its base',
                     loc=c['loc'])
    # abstract chain
    abstract_chain = set()
    for cls, (_c, sup) in leaf.items():
        cur = sup
        while cur and cur != NODE and cur not in abstract_chain:
            abstract_chain.add(cur)
            bs = [b for b in F.bases(cur) if F.derives_from(b, NODE)]
            cur = bs[0] if bs else None
    for a in sorted(abstract_chain):
        ctors = [f for f in F.fns_in(a) if f.get('ctor') and not f.get('copy')]
        for c in ctors:
            good = False
            for i in c.get('inits', []):
                if i['kind'] == 'base' and F.derives_from(i['name'], NODE):
                    e = i['e']
                    args = e.get('args', []) if e.get('k') == 'ctor' else []
                    if len(args) == 1 and strip_casts(args[0]).get('kind') == 'parm' and strip_casts(args[0]).get('idx') == 0:
                        good = True
            ck.check(R1c, a, good, f'constructor of abstract class {a} does not forward its category code', loc=c['loc'])
    node_ctors = [f for f in F.fns_in(NODE) if f.get('ctor') and not f.get('copy')]
    if not node_ctors:
        raise AnalysisBroken('ipr::Node constructor not found')
    for c in node_ctors:
        good = any(i['kind'] == 'member' and i['name'] == 'category'
                   and unbrace(i['e']).get('kind') == 'parm' and unbrace(i['e']).get('idx') == 0
                   for i in c.get('inits', []))
        ck.check(R1c, NODE, good, 'ipr::Node::Node does not store its parameter in `category`', loc=c['loc'])
    nrec = F.need_rec(NODE)
    catf = [f for f in nrec['fields'] if f['name'] == 'category']
    ck.check(R1c, 'ipr::Node::category', bool(catf) and catf[0]['const'] and not catf[0]['mutable'],
             'Node::category is not a const data member (could be re-stamped after construction)', loc=nrec['loc'])

    # ---------------------------------------------------------------- rule 2
    R2 = ck.rule('C06.2-overload-per-class', 'every interface class has its own Visitor::visit overload, every '
                 'overload parameter is an interface class or abstract super-category, and no leaf class '
                 'derives from another leaf class', floor=160)
    for cls in leaf:
        ck.check(R2, cls, cls in overloads, f'no Visitor::visit(const {cls}&) overload', loc=F.rec[cls]['loc'])
        others = [a for a in F.ancestors(cls) if a in leaf and a != cls]
        if others:
            ck.fail(R2, cls + ' (leaf-of-leaf)', f'{cls} derives from leaf class(es) {others}', loc=F.rec[cls]['loc'])
    for k, m in overloads.items():
        if k in leaf:
            continue
        kr = F.rec.get(k)
        ck.check(R2, 'visit(' + k + ')', kr is not None and kr['abstract'] and F.derives_from(k, NODE),
                 f'Visitor::visit(const {k}&) does not take a node class', loc=vis['loc'])

    def nearest_super(cls):
        for a in F.ancestors(cls):
            if a in overloads and a != cls:
                return a
        return None

    # ---------------------------------------------------------------- rule 3
    R3 = ck.rule('C06.3-accept', 'the final overrider of accept() in every concrete node class is exactly one '
                 'unconditional call of visit(const K&) on the visitor argument with *this, K = the class\'s '
                 'own interface class', floor=157)
    concrete = [n for n, r in F.rec.items() if not r['abstract'] and F.derives_from(n, NODE)]
    iface_of = {}
    never_built = []
    for n in sorted(concrete):
        r = F.rec[n]
        cats = all_category_ancestors(F, n)
        if len(cats) != 1:
            ck.fail(R3, n, f'concrete node class has {len(cats)} Category<> ancestors', loc=r['loc'])
            continue
        code = cats[0][1].split('::')[-1]
        ifc = by_code.get(code, [None])[0]
        if ifc is None or not F.derives_from(n, ifc):
            ck.fail(R3, n, f'concrete node class carries code {code} but does not derive from its interface class', loc=r['loc'])
            continue
        iface_of[n] = ifc
        fo = F.final_overrider(n, ACCEPT)
        if fo is None:
            ck.fail(R3, n, 'no final overrider of Node::accept found', loc=r['loc'])
            continue
        f = F.fn.get(fo)
        if f is None:
            # the class is named by the library but never constructed in any unit (its vtable, hence its
            # virtual members, are never instantiated): nothing to dispatch; counted, not judged
            never_built.append(n)
            continue
        call = single_call(f)
        want = f'{VISITOR}::visit(const {ifc} &)'
        good = (call is not None and count_calls(f) == 1
                and (call.get('callee') or {}).get('id') == want
                and call.get('dyn')
                and strip_casts(call.get('obj') or {}).get('kind') == 'parm'
                and len(call['args']) == 1 and arg_is_this(call['args'][0]))
        got = (call.get('callee') or {}).get('id') if call else 'not a single call'
        ck.check(R3, n, good, f'accept() of {n} resolves to {got}, expected exactly one {want}',
                 loc=f['loc'], fn=fo, detail={'accept': fo, 'resolved': got})

    # ---------------------------------------------------------------- rule 4
    R4 = ck.rule('C06.4-default-hook', 'every non-pure Visitor::visit(const K&) is exactly one dynamic call of '
                 'visit(const A&) on this with its own argument, A = nearest ancestor of K that has a visit '
                 'overload (computed from the class hierarchy)', floor=155)
    for k, m in sorted(overloads.items()):
        if m['pure']:
            continue
        f = F.fn.get(m['id'])
        if f is None:
            ck.fail(R4, k, f'default hook {m["id"]} is declared but not defined in any library unit', loc=vis['loc'])
            continue
        want_sup = nearest_super(k)
        call = single_call(f)
        want = f'{VISITOR}::visit(const {want_sup} &)'
        got = (call.get('callee') or {}).get('id') if call else 'not a single call'
        good = (call is not None and count_calls(f) <= 2 and got == want and call.get('dyn')
                and strip_casts(call.get('obj') or {}).get('k') == 'this'
                and len(call['args']) == 1 and arg_is_param0(F, call['args'][0]))
        ck.check(R4, k, good, f'default hook for {k} forwards to {got}; its nearest abstract super-category is {want_sup}',
                 loc=f['loc'], fn=m['id'], detail={'chain': [k, want_sup]})
    pure = sorted(k for k, m in overloads.items() if m['pure'])
    ck.extra['pure_sinks'] = pure

    # ---------------------------------------------------------------- rule 5
    R5 = ck.rule('C06.5-view', 'util::view<T>: the local visitor overrides exactly visit(const T&) (storing the '
                 'address of its argument), sits on Constant_visitor<No_op> whose seven sinks do nothing, starts '
                 'from nullptr, and view returns the stored pointer after one accept', floor=1)
    views = [f for f in F.fn.values() if f['q'].startswith('ipr::util::view<') and not f.get('parent')]
    for f in sorted(views, key=lambda f: f['id']):
        T = (f.get('targs') or ['?'])[0]
        vrec_name = f['id'] + '::visitor'
        vr = F.rec.get(vrec_name)
        if vr is None:
            raise AnalysisBroken(f'local visitor class of {f["id"]} not found')
        own = [m for m in vr['methods'] if m['name'] == 'visit' and not m['implicit']]
        ok = len(own) == 1 and own[0]['params'] == [f'const {T} &'] and bool(own[0]['overrides'])
        body_ok = False
        if ok:
            vf = F.fn.get(own[0]['id'])
            if vf:
                b = stmts(vf['body'])
                if len(b) == 1 and b[0].get('k') == 'binop' and b[0].get('op') == '=':
                    l, r = b[0]['l'], b[0]['r']
                    body_ok = (l.get('k') == 'member' and l.get('name') == 'result'
                               and r.get('k') == 'unop' and r.get('op') == '&'
                               and strip_casts(r['e']).get('kind') == 'parm')
            else:
                # visit() of the local class is only instantiated when used virtually; its pattern is checked
                # through another instantiation
                body_ok = None
        base_ok = [b['name'] for b in vr['bases']] == ['ipr::Constant_visitor<ipr::No_op>']
        init_ok = any(fl['name'] == 'result' and (fl.get('init') or {}).get('lt') == 'null'
                      or fl['name'] == 'result' and strip_casts((fl.get('init') or {}).get('e') or {}).get('lt') == 'null'
                      for fl in vr['fields'])
        # body of view: decl vis; n.accept(vis); return vis.result
        vb = stmts(f['body'])
        shape_ok = False
        accepts = [c for c in walk(f['body']) if c.get('k') == 'call' and (c.get('callee') or {}).get('id') == ACCEPT]
        rets = [s for s in vb if s.get('k') == 'return']
        if len(accepts) == 1 and len(rets) == 1 and vb and vb[-1] is rets[0]:
            a = accepts[0]
            re_ = strip_casts(rets[0]['e'])
            shape_ok = (strip_casts(a['obj']).get('kind') == 'parm' and a.get('dyn')
                        and strip_casts(a['args'][0]).get('kind') == 'local'
                        and re_.get('k') == 'member' and re_.get('name') == 'result'
                        and strip_casts(re_['base']).get('kind') == 'local')
        ck.check(R5, f'view<{T}>', ok and body_ok is not False and base_ok and init_ok and shape_ok,
                 f'util::view<{T}> deviates: own-override={ok} body={body_ok} base={base_ok} init={init_ok} shape={shape_ok}',
                 loc=f['loc'], fn=f['id'])
    # Constant_visitor<No_op> sinks
    cv = F.rec.get('ipr::Constant_visitor<ipr::No_op>')
    if cv is None:
        raise AnalysisBroken('Constant_visitor<No_op> is not instantiated in any unit')
    sinks = [m for m in cv['methods'] if m['name'] == 'visit' and not m['implicit']]
    covered = sorted(visit_param_class(m) or '?' for m in sinks)
    ck.check(R5, 'Constant_visitor<No_op> sinks', covered == pure,
             f'Constant_visitor overrides {covered} but the pure sinks are {pure}', loc=cv['loc'])
    for m in sinks:
        sf = F.fn.get(m['id'])
        if sf is None:
            continue
        cs = [c for c in walk(sf['body']) if c.get('k') == 'call']
        good = len(cs) == 1 and (cs[0].get('callee') or {}).get('id') == 'ipr::No_op::operator()(const ipr::Node &) const'
        ck.check(R5, 'Constant_visitor<No_op>::' + m['id'].split('::')[-1], good,
                 'a Constant_visitor<No_op> sink does something else than calling No_op', loc=sf['loc'])
    nop = F.fn.get('ipr::No_op::operator()(const ipr::Node &) const')
    if nop is None:
        raise AnalysisBroken('No_op::operator() body not found')
    ck.check(R5, 'No_op::operator()', len(stmts(nop['body'])) == 0, 'No_op::operator() is not empty', loc=nop['loc'])

    ck.extra['never_constructed_in_library'] = never_built
    if never_built:
        ck.note(f'{len(never_built)} concrete node class(es) are never constructed by any library unit (no accept() instantiation to judge): ' + ', '.join(never_built))
    ck.extra['interface_classes'] = len(leaf)
    ck.extra['concrete_node_classes'] = len(concrete)
    ck.extra['visit_overloads'] = len(overloads)
    ck.samples.append({'dispatch_chain_example': ['ipr::impl::Node<ipr::Plus>::accept', 'visit(const ipr::Plus&)',
                                                  'visit(const ipr::' + (nearest_super('ipr::Plus') or '?').split('::')[-1] + '&)']})
