"""C06 -- category code, accept() and visitor defaults agree for every node class.

Finite space (categories x implementation classes x hooks) enumerated exhaustively;
the decision procedure is clang's own overload resolution (callees resolved by Sema)
and class-hierarchy facts.  Proof-level: every obligation is generated from the
current tree and discharged or reported.
"""
from facts import AnalysisBroken, stmts, strip_casts, walk
from symex import Sym, State, Unsupported, NULL
import contracts

LEVEL = 'proof'
TITLE = 'C06 category code, accept() and visitor defaults agree for every node class'

NODE = 'ipr::Node'
VISITOR = 'ipr::Visitor'
ACCEPT = 'ipr::Node::accept(ipr::Visitor &) const'


def interface_ns(name):
    """Interface classes live directly in namespace ipr (not impl/util/cxx_form::impl, not local)."""
    if not name.startswith('ipr::'):
        return False
    rest = name[5:]
    for bad in ('impl::', 'util::', '(anon)', 'cxx_form::impl::'):
        if rest.startswith(bad):
            return False
    return '(' not in name.split('<')[0]


def category_of(F, name):
    """(code, super) of the nearest Category<code, super> ancestor reached through
    class-template instantiations only (Unary<>, Binary<>, Member_selection<>, ...)."""
    seen = set()
    todo = [name]
    hits = []
    while todo:
        n = todo.pop(0)
        if n in seen:
            continue
        seen.add(n)
        r = F.rec.get(n)
        if r is None:
            continue
        if r.get('template') == 'ipr::Category':
            hits.append((n, r['targs'][0], r['targs'][1]))
            continue
        for b in r['bases']:
            br = F.rec.get(b['name'])
            if br is None:
                continue
            # only walk through template instantiations (structural glue) ...
            if br.get('template'):
                todo.append(b['name'])
    return hits


def all_category_ancestors(F, name):
    out = []
    for a in [name] + F.ancestors(name):
        r = F.rec.get(a)
        if r and r.get('template') == 'ipr::Category':
            out.append((a, r['targs'][0], r['targs'][1]))
    return out


def visit_param_class(m):
    if m['name'] != 'visit' or len(m['params']) != 1:
        return None
    p = m['params'][0]
    if p.startswith('const ') and p.endswith(' &'):
        return p[6:-2]
    return None


def single_call(fn):
    """The body must be exactly one expression statement that is a call; return it or None."""
    body = stmts(fn.get('body'))
    if len(body) != 1:
        return None
    s = body[0]
    if s.get('k') == 'return' and 'e' in s:
        s = s['e']
    if s.get('k') != 'call':
        return None
    return s


def count_calls(fn):
    return sum(1 for n in walk(fn.get('body')) if n.get('k') in ('call',))


def arg_is_param0(F, e, depth=0):
    """Does expression e designate the function's parameter 0 (through as<>, casts)?"""
    e = strip_casts(e)
    if e is None:
        return False
    if e.get('k') == 'ref' and e.get('kind') == 'parm' and e.get('idx') == 0:
        return True
    if e.get('k') == 'call' and depth < 3:
        c = e.get('callee') or {}
        f = F.fn.get(c.get('id'))
        if f and len(e.get('args', [])) == 1 and identity_fn(F, f):
            return arg_is_param0(F, e['args'][0], depth + 1)
    return False


def identity_fn(F, f):
    b = stmts(f.get('body'))
    if len(b) != 1 or b[0].get('k') != 'return':
        return False
    e = strip_casts(b[0].get('e'))
    return bool(e) and e.get('k') == 'ref' and e.get('kind') == 'parm' and e.get('idx') == 0


def unbrace(e):
    e = strip_casts(e)
    while e and e.get('k') == 'initlist' and len(e.get('elts', [])) == 1:
        e = strip_casts(e['elts'][0])
    return e or {}


def arg_is_this(e):
    e = strip_casts(e)
    if e and e.get('k') == 'unop' and e.get('op') == '*':
        t = strip_casts(e['e'])
        return bool(t) and t.get('k') == 'this'
    return False


def run(ck, F):
    S6 = Sym(F, opaque=lambda fid: F.fn.get(fid) is None, max_depth=24)
    S6v = Sym(F, opaque=lambda fid: F.fn.get(fid) is None, max_depth=24)
    ck.explanation = (
        'Exhaustive enumeration of the finite space: every Category_code enumerator, every interface class, '
        'every Visitor::visit overload and default hook, every concrete class derived from ipr::Node that '
        'any library unit instantiates (including the process-wide constants), and every util::view<T> '
        'instantiation.  Callees are the ones overload resolution selected (resolved by Sema inside each '
        'template instantiation), super-categories are computed from the class hierarchy, not from a table.')
    codes_enum = F.enums.get('ipr::Category_code')
    if not codes_enum:
        raise AnalysisBroken('enum ipr::Category_code not found')
    codes = {e['name']: int(e['value']) for e in codes_enum['enumerators']}
    if len(set(codes.values())) != len(codes):
        ck.rule('C06.codes-distinct', 'category code enumerators have pairwise distinct values')
        ck.fail('C06.codes-distinct', 'ipr::Category_code', 'two enumerators share a value', loc=codes_enum['loc'])
    vis = F.need_rec(VISITOR)
    overloads = {}
    for m in vis['methods']:
        k = visit_param_class(m)
        if k:
            overloads[k] = m

    # ---------------------------------------------------------------- rule 1
    R1 = ck.rule('C06.1-own-code', 'an interface class deriving from Category<Category_code::X, S> '
                 '(through structural templates only) is named X', floor=150)
    leaf = {}        # interface class -> (code name, super)
    for name, r in F.rec.items():
        if not interface_ns(name) or r.get('template') or r.get('local') or r.get('lambda'):
            continue
        hits = category_of(F, name)
        if not hits:
            continue
        if len(hits) > 1:
            ck.fail(R1, name, f'derives from more than one Category<>: {[h[0] for h in hits]}', loc=r['loc'])
            continue
        _cat, code, sup = hits[0]
        code_name = code.split('::')[-1]
        leaf[name] = (code_name, sup)
        ck.check(R1, name, code_name == r['simple'] and code_name in codes,
                 f'class {name} is stamped with category code {code} (expected Category_code::{r["simple"]})',
                 loc=r['loc'], detail={'code': code, 'super': sup})
    # one class per code, one code per class
    # the dispatch entry is one virtual function: nothing else of that name can be selected by overload resolution
    R2x = ck.rule('C06.2x-accept-unique', 'in Node and every class derived from it, the only members named accept are the virtual '
                  'accept(Visitor&) const and its overriders: no other overload, and no member template of that name, can be preferred '
                  'by overload resolution for some static type of the node or of the visitor (and then resolve the hook at compile '
                  'time, among the overloads that visitor class happens to declare)', floor=150)
    for n_, r_ in sorted(F.rec.items()):
        if n_ != 'ipr::Node' and not F.derives_from(n_, 'ipr::Node'):
            continue
        others = [f'{m["name"]}({", ".join(m["params"])})' for m in r_['methods'] if m['name'] == 'accept' and not m['implicit']
                  and not (m['virtual'] and m['params'] == ['ipr::Visitor &'] and m['const'])]
        others += [f'template {t["name"]}<...> (line {t["ln"]})' for t in r_.get('method_templates', []) if t['name'] == 'accept']
        ck.check(R2x, contracts.short(n_), not others, f'{n_} declares {others} next to the virtual accept(Visitor&): for an object of this static '
                 'type the call binds to it and the hook is no longer chosen by the node\'s own interface class', loc=r_['loc'])

    R1b = ck.rule('C06.1b-code-injective', 'no two interface classes share a category code (codes without a '
                  'class, such as Unknown or last_code_cat, are harmless and not judged)', floor=150)
    by_code = {}
    for cls, (code, _s) in leaf.items():
        by_code.setdefault(code, []).append(cls)
    for code in codes:
        cl = by_code.get(code, [])
        if not cl:
            continue
        ck.check(R1b, f'Category_code::{code}', len(cl) == 1,
                 f'category code {code} is carried by {len(cl)} interface classes {cl}', loc=codes_enum['loc'])

    # ------------------------------------------------------- rule 1c: the stamp reaches Node::category
    R1c = ck.rule('C06.1c-code-stored', 'Category<X,S>() passes X to S; every abstract class constructor passes '
                  'its code parameter to its base; Node stores it in `category`', floor=150)
    for name, r in F.rec.items():
        if r.get('template') != 'ipr::Category':
            continue
        ctors = [f for f in F.fns_in(name) if f.get('ctor') and not f.get('copy')]
        if not ctors:
            continue          # never constructed in any unit
        code = r['targs'][0].split('::')[-1]
        for c in ctors:
            good = False
            for i in c.get('inits', []):
                if i['kind'] == 'base' and i['name'] == r['targs'][1]:
                    e = i['e']
                    args = e.get('args', []) if e.get('k') == 'ctor' else []
                    if len(args) == 1 and args[0].get('cv') is not None and code in codes \
                            and int(args[0]['cv']) == codes[code]:
                        good = True
            ck.check(R1c, name, good, f'{name}::Category() does not pass Category_code::{code} to its base',
                     loc=c['loc'])
    # the member that holds the stamp can represent every code
    R1d = ck.rule('C06.1d-code-representable', 'the data member of Node that holds the category code has the enumeration\'s own type at full '
                  'width, or is a bit-field wide enough (sign included) for the largest code: what a constructor stores is what `category` '
                  'reads back', floor=1)
    nrec = F.need_rec(NODE)
    cf = [fl for fl in nrec['fields'] if 'Category_code' in fl['t']]
    if len(cf) != 1:
        raise AnalysisBroken(f'{NODE}: {len(cf)} data members of type Category_code')
    top = max(codes.values())
    fl = cf[0]
    if fl.get('bits') is None:
        ck.ok(R1d, f'{NODE}::{fl["name"]}')
    else:
        cap = (1 << (fl['bits'] - (1 if fl.get('signed') else 0))) - 1
        ck.check(R1d, f'{NODE}::{fl["name"]}', top <= cap,
                 f'{NODE}::{fl["name"]} is a {"signed " if fl.get("signed") else ""}{fl["bits"]}-bit bit-field: it holds codes up to {cap}, the '
                 f'enumeration goes up to {top} ({sum(1 for v in codes.values() if v > cap)} codes read back as other values)', loc=nrec['loc'])

    # abstract chain
    abstract_chain = set()
    for cls, (_c, sup) in leaf.items():
        cur = sup
        while cur and cur != NODE and cur not in abstract_chain:
            abstract_chain.add(cur)
            bs = [b for b in F.bases(cur) if F.derives_from(b, NODE)]
            cur = bs[0] if bs else None
    for a in sorted(abstract_chain):
        ctors = [f for f in F.fns_in(a) if f.get('ctor') and not f.get('copy')]
        for c in ctors:
            good = False
            for i in c.get('inits', []):
                if i['kind'] == 'base' and F.derives_from(i['name'], NODE):
                    e = i['e']
                    args = e.get('args', []) if e.get('k') == 'ctor' else []
                    if len(args) == 1 and strip_casts(args[0]).get('kind') == 'parm' and strip_casts(args[0]).get('idx') == 0:
                        good = True
            ck.check(R1c, a, good, f'constructor of abstract class {a} does not forward its category code', loc=c['loc'])
    node_ctors = [f for f in F.fns_in(NODE) if f.get('ctor') and not f.get('copy')]
    if not node_ctors:
        raise AnalysisBroken('ipr::Node constructor not found')
    for c in node_ctors:
        good = any(i['kind'] == 'member' and i['name'] == 'category'
                   and unbrace(i['e']).get('kind') == 'parm' and unbrace(i['e']).get('idx') == 0
                   for i in c.get('inits', []))
        ck.check(R1c, NODE, good, 'ipr::Node::Node does not store its parameter in `category`', loc=c['loc'])
    nrec = F.need_rec(NODE)
    catf = [f for f in nrec['fields'] if f['name'] == 'category']
    ck.check(R1c, 'ipr::Node::category', bool(catf) and catf[0]['const'] and not catf[0]['mutable'],
             'Node::category is not a const data member (could be re-stamped after construction)', loc=nrec['loc'])

    # ---------------------------------------------------------------- rule 2
    R2 = ck.rule('C06.2-overload-per-class', 'every interface class has its own Visitor::visit overload, every '
                 'overload parameter is an interface class or abstract super-category, and no leaf class '
                 'derives from another leaf class', floor=160)
    for cls in leaf:
        ck.check(R2, cls, cls in overloads, f'no Visitor::visit(const {cls}&) overload', loc=F.rec[cls]['loc'])
        others = [a for a in F.ancestors(cls) if a in leaf and a != cls]
        if others:
            ck.fail(R2, cls + ' (leaf-of-leaf)', f'{cls} derives from leaf class(es) {others}', loc=F.rec[cls]['loc'])
    for k, m in overloads.items():
        if k in leaf:
            continue
        kr = F.rec.get(k)
        ck.check(R2, 'visit(' + k + ')', kr is not None and kr['abstract'] and F.derives_from(k, NODE),
                 f'Visitor::visit(const {k}&) does not take a node class', loc=vis['loc'])

    def nearest_super(cls):
        for a in F.ancestors(cls):
            if a in overloads and a != cls:
                return a
        return None

    # ---------------------------------------------------------------- rule 3
    R3 = ck.rule('C06.3-accept', 'the final overrider of accept() in every concrete node class is exactly one '
                 'unconditional call of visit(const K&) on the visitor argument with *this, K = the class\'s '
                 'own interface class', floor=157)
    concrete = [n for n, r in F.rec.items() if not r['abstract'] and F.derives_from(n, NODE)]
    iface_of = {}
    never_built = []
    for n in sorted(concrete):
        r = F.rec[n]
        cats = all_category_ancestors(F, n)
        if len(cats) != 1:
            ck.fail(R3, n, f'concrete node class has {len(cats)} Category<> ancestors', loc=r['loc'])
            continue
        code = cats[0][1].split('::')[-1]
        ifc = by_code.get(code, [None])[0]
        if ifc is None or not F.derives_from(n, ifc):
            ck.fail(R3, n, f'concrete node class carries code {code} but does not derive from its interface class', loc=r['loc'])
            continue
        iface_of[n] = ifc
        fo = F.final_overrider(n, ACCEPT)
        if fo is None:
            ck.fail(R3, n, 'no final overrider of Node::accept found', loc=r['loc'])
            continue
        f = F.fn.get(fo)
        if f is None:
            # the class is named by the library but never constructed in any unit (its vtable, hence its
            # virtual members, are never instantiated): nothing to dispatch; counted, not judged
            never_built.append(n)
            continue
        want = f'{VISITOR}::visit(const {ifc} &)'
        st3 = State()
        me = st3.new_obj(n)
        try:
            outs3 = S6.run(fo, this=me, args=[('param', 0)], state=st3)
        except Unsupported as e:
            raise AnalysisBroken(f'{fo}: outside the evaluator language: {e}')
        events = []
        for s3, kind3, _v3 in outs3:
            evs = [(e[1], e[2], e[3]) for e in s3.effects if e[0] in ('vcall', 'call', 'write', 'emplace')]
            events.append(evs if kind3 == 'return' else 'throws')
        good = len(events) == 1 and events[0] != 'throws' and len(events[0]) == 1 and events[0][0][0] == want \
            and events[0][0][1] == ('param', 0) and len(events[0][0][2]) == 1 and events[0][0][2][0] in (me, ('addr', me))
        got = 'throws' if 'throws' in events else [[x[0] for x in ev] for ev in events]
        ck.check(R3, n, good, f'accept() of {n} does {got}, expected exactly one {want} on the visitor with *this',
                 loc=f['loc'], fn=fo, detail={'accept': fo})

    # ---------------------------------------------------------------- rule 4
    R4 = ck.rule('C06.4-default-hook', 'every non-pure Visitor::visit(const K&) is exactly one dynamic call of '
                 'visit(const A&) on this with its own argument, A = nearest ancestor of K that has a visit '
                 'overload (computed from the class hierarchy)', floor=155)
    for k, m in sorted(overloads.items()):
        if m['pure']:
            continue
        f = F.fn.get(m['id'])
        if f is None:
            ck.fail(R4, k, f'default hook {m["id"]} is declared but not defined in any library unit', loc=vis['loc'])
            continue
        want_sup = nearest_super(k)
        want = f'{VISITOR}::visit(const {want_sup} &)'
        try:
            outs4 = S6.run(m['id'], this=('sym', 'this'), args=[('param', 0)])
        except Unsupported as e:
            raise AnalysisBroken(f'{m["id"]}: outside the evaluator language: {e}')
        events = []
        for s4, kind4, _v4 in outs4:
            evs = [(e[1], e[2], e[3]) for e in s4.effects if e[0] in ('vcall', 'call', 'write', 'emplace')]
            events.append(evs if kind4 == 'return' else 'throws')
        good = len(events) == 1 and events[0] != 'throws' and len(events[0]) == 1 and events[0][0][0] == want \
            and events[0][0][1] == ('sym', 'this') and events[0][0][2] == (('param', 0),)
        got = 'throws' if 'throws' in events else [[contracts.short(x[0]) for x in ev] for ev in events]
        ck.check(R4, k, good, f'default hook for {k} does {got}; expected one call of visit on its nearest abstract super-category {want_sup} with the same node',
                 loc=f['loc'], fn=m['id'], detail={'chain': [k, want_sup]})
    pure = sorted(k for k, m in overloads.items() if m['pure'])
    ck.extra['pure_sinks'] = pure

    # ---------------------------------------------------------------- rule 5
    R5 = ck.rule('C06.5-view', 'util::view<T>: the local visitor overrides exactly visit(const T&) (storing the '
                 'address of its argument), sits on Constant_visitor<No_op> whose seven sinks do nothing, starts '
                 'from nullptr, and view returns the stored pointer after one accept', floor=1)
    views = [f for f in F.fn.values() if f['q'].startswith('ipr::util::view<') and not f.get('parent')]
    for f in sorted(views, key=lambda f: f['id']):
        T = (f.get('targs') or ['?'])[0]
        # evaluate view<T> on a node of unknown class: it must build one visitor, hand it to accept() of its argument
        # exactly once and return what the visitor recorded
        try:
            outs5 = S6v.run(f['id'], args=[('param', 0)])
        except Unsupported as e:
            raise AnalysisBroken(f'{f["id"]}: outside the evaluator language: {e}')
        why = []
        vis_cls = None
        # a shortcut taken before the dispatch -- `not of T's category: null` -- answers what the dispatch would have answered: every
        # T node carries T's own code (rules 1d / 2); such outcomes are judged here and set aside
        from facts import category_of as _category_of
        code = _category_of(F, T)

        def early_null(o):
            st_, k_, v_ = o
            if k_ != 'return' or v_ != NULL or not st_.conds or code is None or st_.effects:
                return False
            for c, b in st_.conds:
                if not (isinstance(c, tuple) and c[:1] == ('op',) and len(c) == 4 and c[1] in ('!=', '==')):
                    return False
                differs = (c[1] == '!=') == bool(b)
                sides = [c[2], c[3]]
                cat = [x for x in sides if isinstance(x, tuple) and x[:1] == ('fld',) and x[2] == 'category' and strip_deref(x[1]) == ('param', 0)]
                kk = [x for x in sides if isinstance(x, tuple) and x[:1] == ('k',) and x[1] == code[1]]
                if not (differs and len(cat) == 1 and len(kk) == 1):
                    return False
            return True

        def strip_deref(t):
            while isinstance(t, tuple) and t and t[0] in ('deref', 'addr', 'castto'):
                t = t[2] if t[0] == 'castto' else t[1]
            return t
        shortcuts = [o for o in outs5 if early_null(o)]
        if shortcuts:
            outs5 = [o for o in outs5 if not early_null(o)]
            ck.note(f'view<{contracts.short(T)}>: {len(shortcuts)} early outcome(s) `category differs from {code[0]}: null`, the same answer the dispatch gives')
        if len(outs5) != 1 or outs5[0][1] != 'return':
            why.append('more than one outcome')
        else:
            s5, _k5, v5 = outs5[0]
            acc = [e for e in s5.effects if e[0] == 'vcall' and e[1] == ACCEPT]
            other = [e for e in s5.effects if e[0] in ('vcall', 'call', 'write', 'emplace') and e not in acc]
            if len(acc) != 1 or other:
                why.append(f'{len(acc)} accept call(s), {len(other)} other effect(s)')
            else:
                e5 = acc[0]
                vo = e5[3][0][1] if e5[3] and e5[3][0][0] == 'addr' else (e5[3][0] if e5[3] else None)
                if e5[2] != ('param', 0) or not (isinstance(vo, tuple) and vo[0] == 'obj' and vo[1] in s5.heap):
                    why.append('accept is not called on the argument with a local visitor')
                else:
                    vis_cls = s5.heap[vo[1]].cls
                    before = e5[4].get(vo[1], {})
                    ptrs = [k for k, val in before.items() if val == NULL]
                    if len(before) != 1 or len(ptrs) != 1:
                        why.append(f'the visitor does not start with a single null result ({before})')
                    elif v5 != s5.heap[vo[1]].fields.get(ptrs[0]):
                        why.append('view does not return what the visitor recorded')
        ok = body_ok = base_ok = False
        if vis_cls and not why:
            vr = F.need_rec(vis_cls)
            own = [m for m in vr['methods'] if m['name'] == 'visit' and not m['implicit']]
            ok = len(own) == 1 and own[0]['params'] == [f'const {T} &'] and bool(own[0]['overrides'])
            base_ok = F.derives_from(vis_cls, 'ipr::Constant_visitor<ipr::No_op>') and \
                not any(mm['name'] == 'visit' and not mm['implicit'] for a in F.ancestors(vis_cls)
                        if a not in ('ipr::Constant_visitor<ipr::No_op>', VISITOR) and a in F.rec for mm in F.rec[a]['methods'])
            vf = F.fn.get(own[0]['id']) if ok else None
            if vf:
                st5 = State()
                vo5 = st5.new_obj(vis_cls)
                r5 = S6.run(vf['id'], this=vo5, args=[('param', 7)], state=st5)
                body_ok = len(r5) == 1 and r5[0][1] == 'return' and list(r5[0][0].heap[vo5[1]].fields.values()) == [('addr', ('param', 7))] \
                    and not [e for e in r5[0][0].effects if e[0] in ('vcall', 'call', 'write', 'emplace')]
            elif ok:
                body_ok = None          # visit() of a local class is instantiated only where it is used virtually
        ck.check(R5, f'view<{T}>', not why and ok and body_ok is not False and base_ok,
                 f'util::view<{T}> deviates: {"; ".join(why) or "visitor"} own-override={ok} records-its-argument={body_ok} no-op-base={base_ok}',
                 loc=f['loc'], fn=f['id'])
    # Constant_visitor<No_op> sinks
    cv = F.rec.get('ipr::Constant_visitor<ipr::No_op>')
    if cv is None:
        raise AnalysisBroken('Constant_visitor<No_op> is not instantiated in any unit')
    sinks = [m for m in cv['methods'] if m['name'] == 'visit' and not m['implicit']]
    covered = sorted(visit_param_class(m) or '?' for m in sinks)
    ck.check(R5, 'Constant_visitor<No_op> sinks', covered == pure,
             f'Constant_visitor overrides {covered} but the pure sinks are {pure}', loc=cv['loc'])
    for m in sinks:
        sf = F.fn.get(m['id'])
        if sf is None:
            continue
        st6 = State()
        cvo = st6.new_obj('ipr::Constant_visitor<ipr::No_op>')
        try:
            r6 = S6.run(m['id'], this=cvo, args=[('param', 0)], state=st6)
        except Unsupported as e:
            raise AnalysisBroken(f'{m["id"]}: outside the evaluator language: {e}')
        good = len(r6) == 1 and r6[0][1] == 'return' and not [e for e in r6[0][0].effects if e[0] in ('vcall', 'call', 'write', 'emplace')]
        ck.check(R5, 'Constant_visitor<No_op>::' + m['id'].split('::')[-1], good,
                 'a Constant_visitor<No_op> sink does something (it must do nothing)', loc=sf['loc'])

    ck.extra['never_constructed_in_library'] = never_built
    if never_built:
        ck.note(f'{len(never_built)} concrete node class(es) are never constructed by any library unit (no accept() instantiation to judge): ' + ', '.join(never_built))
    ck.extra['interface_classes'] = len(leaf)
    ck.extra['concrete_node_classes'] = len(concrete)
    ck.extra['visit_overloads'] = len(overloads)
    ck.samples.append({'dispatch_chain_example': ['ipr::impl::Node<ipr::Plus>::accept', 'visit(const ipr::Plus&)',
                                                  'visit(const ipr::' + (nearest_super('ipr::Plus') or '?').split('::')[-1] + '&)']})
    # the statically allocated constants answer category() / accept() like any node only if they are constant-initialised: a constant
    # built by a dynamic initialiser is zero-filled (category Unknown, no dispatch) for whoever asks before that initialiser has run
    import borrow as _borrow
    _borrow.borrow(ck, F, 'C13', 'C06', {'constant-initialised', 'process-wide'})
