"""C02 -- every factory-built node reports exactly the operands it was built from."""
import json
import os

from facts import AnalysisBroken, VERIF, walk, strip_casts
import contracts
import guards
import keyrule
import wire
from symex import Sym, State, Unsupported

LEVEL = 'other'
TITLE = 'C02 every factory-built node reports exactly the operands it was built from'

TABLE = os.path.join(VERIF, 'tables', 'factory_contract.json')


def short_id(fid):
    q = contracts.fn_qname(fid).split('<')[0].split('::')
    return '::'.join(q[-2:]) + '(' + fid[len(contracts.fn_qname(fid)) + 1:].rsplit(')', 1)[0].replace('ipr::', '').replace('impl::', '') + ')'


_ROWS = {}


def reserved_word_infeasible(F, val):
    """The atoms of a truth table are not independent when one says `the spelling is a reserved word` (word_if_known(s) holds)
    and others compare the length of the same spelling with constants: the valuation is feasible only if some row of the
    reserved-word table has such a length."""
    import re
    import words
    known = [a for a, v in val.items() if v and re.search(r'word_if_known\((.*)\)\s*$', a.strip())]
    if not known:
        return False
    if 'rows' not in _ROWS:
        _ROWS['rows'] = [r for r in words.reserved_rows(F)[1] if r is not None]
    for a in known:
        sp = re.search(r'word_if_known\((.*)\)\s*$', a.strip()).group(1)
        rels = []
        for b, v in val.items():
            m = re.match(r'^\((.*?)(?:\.[^.()]*)?(size|length)\(\) (<=|<|>=|>|==|!=) (\d+|[\w:()]+)\)$', b.strip())
            if m and m.group(1).startswith(sp.split('.basic_string_view')[0]):
                k = m.group(4)
                if not k.isdigit():
                    k = named_constants(F).get(k)
                    if k is None:
                        continue
                rels.append((m.group(3), int(k), v))
        for b, v in val.items():
            bb = b.strip()
            m = re.match(r'^(.*?)(?:\.[^.()]*)?empty\(\)$', bb)
            if m and m.group(1).startswith(sp.split('.basic_string_view')[0]):
                rels.append(('==', 0, v))
            m = re.match(r'^\((\d+) == (.*?)(?:\.[^.()]*)?(size|length)\(\)\)$', bb)
            if m and m.group(2).startswith(sp.split('.basic_string_view')[0]):
                rels.append(('==', int(m.group(1)), v))
        if not rels:
            continue
        ok = lambda n: all({'<=': n <= k, '<': n < k, '>=': n >= k, '>': n > k, '==': n == k, '!=': n != k}[op] == v for op, k, v in rels)
        if not any(ok(len(r)) for r in _ROWS['rows']):
            return True
    return False


def distinct_constants_infeasible(val):
    """One term cannot equal two different constants: a valuation that makes `x == "C"` and `x == "C++"` (or the identity of x
    with two different constant objects) true together is infeasible."""
    import re
    eqs = {}
    for a, v in val.items():
        if not v:
            continue
        a = a.strip()
        sides = None
        m = re.match(r'^operator==<[^()]*>\((.*), (.*)\)$', a)
        if m:
            sides = (m.group(1), m.group(2))
        elif a.startswith('(') and a.endswith(')') and a.count(' == ') == 1:
            l, r = a[1:-1].split(' == ')
            sides = (l, r)
        if not sides:
            continue
        for x, c in (sides, sides[::-1]):
            if re.search(r'\bP\d+\b|\$this', c) or not re.search(r'"[^"]*"|^\d+$|nullptr', c):
                continue            # c is not a constant
            if not re.search(r'\bP\d+\b|\$this', x):
                continue
            eqs.setdefault(x, set()).add(c)
    return any(len(cs) > 1 for cs in eqs.values())


def canonical_when(F, text):
    """Lemma (what C13.symbols-linkages verifies): the language string of a constant linkage -- `c_link.language().what()` -- is the
    interned reserved word the constant was built from.  A test of the argument against that string and a test against
    internal_string("C") are the same atom; the condition is rewritten to the second form."""
    import re
    from facts import walk
    if 'linkwords' not in _ROWS:
        d = {}
        for g in F.globals:
            if g['t'].replace('const ', '').strip() == 'ipr::Linkage' and g.get('constexpr') and 'init' in g:
                lits = [bytes(n.get('bytes', [])).decode('utf-8', 'replace') for n in walk(g['init']) if n.get('k') == 'lit' and n.get('lt') == 'str']
                if len(lits) == 1:
                    d[contracts.short(g['q'])] = lits[0]
                    d[g['q'].replace('(anonymous namespace)', '(anon)')] = lits[0]
        _ROWS['linkwords'] = d
    # the data members of the small value classes (Linkage, Calling_convention, Basic_specifier, ...) are private: their names are
    # not part of any contract.  A class with a single data member has it rendered as `<member>` on both sides of the comparison
    if 'valuefields' not in _ROWS:
        import eqrule
        names = set()
        for c_ in eqrule.COMPONENTS:
            fl_ = (F.rec.get(c_) or {}).get('fields', [])
            if len(fl_) == 1:
                names.add(fl_[0]['name'])
        names |= {'lang', 'conv', 'spec', 'qual'}      # the names in the confirmed table (the tree at the time it was confirmed)
        _ROWS['valuefields'] = sorted(names, key=len, reverse=True)
    for nm in _ROWS['valuefields']:
        text = re.sub(r'\.' + re.escape(nm) + r'(?=[.)\s]|$)', '.<member>', text)
    for q, w in _ROWS['linkwords'].items():
        text = re.sub(re.escape(q) + r'\.(?:[A-Za-z_]+|<member>)\.Basic_unary<const String &>operand\(\)', f'ipr::impl::(anon)internal_string("{w}")', text)
    # Lemma (C04.reserved-spellings-interned / C13.reserved-spellings): the characters of the reserved word W are the spelling "W";
    # equality of views is symmetric.  `internal_string("W").characters() == x` and `x == "W"` are the same atom (second form kept)
    view = 'basic_string_view<char8_t, char_traits<char8_t>>'
    text = re.sub(r'operator==<char8_t, char_traits<char8_t>>\(ipr::impl::\(anon\)internal_string\("([^"]*)"\)\.characters\(\), ([^(),]+)\)',
                  lambda m: f'operator==<char8_t, char_traits<char8_t>>({m.group(2)}, {view}basic_string_view("{m.group(1)}"))', text)
    # Lemma (C03.find-before-insert + reserved-words-first): interning the word x yields the reserved String "W" exactly when x spells W.
    # `&intern(x) == &internal_string("W")` and `x == "W"` are the same atom (second form kept)
    text = re.sub(r'\(&\$this:string_pool\.intern\((P\d+)\) == &ipr::impl::\(anon\)internal_string\("([^"]*)"\)\)',
                  lambda m: f'operator==<char8_t, char_traits<char8_t>>({m.group(1)}, {view}basic_string_view("{m.group(2)}"))', text)
    return text


def named_constants(F):
    """value of every named integral constant the library refers to (folded by the compiler at the point of use)"""
    if 'consts' not in _ROWS:
        from facts import walk
        d = {}
        for g in F.fn.values():
            for n in walk(g.get('body')):
                if n.get('k') == 'ref' and n.get('kind') == 'global' and 'cv' in n and n.get('q'):
                    d[n['q']] = n['cv']
        _ROWS['consts'] = d
    return _ROWS['consts']


def absorbed_qualification(fid, confirmed, now, val):
    """Lemma for get_qualified (documented normal form, C11): for an operand T that is Qualified and a requested set q contained
    in T.qualifiers(), the node of (q | T.qualifiers(), T.main_variant()) is T itself (T is the one node of its own key, C01).
    So `T` under the condition (q & T.qualifiers()) == q is the same outcome as re-issuing the request on the merged set."""
    import re
    if not fid.startswith('ipr::impl::type_factory::get_qualified('):
        return False
    try:
        c, n = json.loads(confirmed), json.loads(now)
    except ValueError:
        return False
    if n.get('result') != 'P1' or not re.match(r'^\$this\.get_qualified\(\(P0 \| P1\.[^()]*(first|qualifiers)\(\)\), P1\.[^()]*(second|main_variant)\(\)\)$', c.get('result') or ''):
        return False
    sub = re.compile(r'^\(\((P0 & P1\.[^()]*(first|qualifiers)\(\)|P1\.[^()]*(first|qualifiers)\(\) & P0)\) == P0\)$')
    return any(v and sub.match(a.strip()) for a, v in val.items())


def redeclaration_operands(ck, F, prefix, only=None):
    """A declaration entered into a scope that already holds declarations reports its own operands; borrowed by C09 for type()."""
    what = 'every accessor except those of the shared bookkeeping (master, decl-set, primary template, definition)' if only is None \
        else 'the accessor(s) ' + ', '.join(sorted(only))
    R_re = ck.rule(f'{prefix}.redeclaration-operands', 'a declaration entered into a scope that already holds declarations (redeclaration, new type '
                   f'under a known name, new name) reports, under {what}, what a first declaration with the same '
                   'arguments reports: the bookkeeping path taken does not change the operands exposed', floor=16)
    import re as _re
    SK = Sym(F, opaque=keyrule.key_opaque(F), max_depth=64)
    makers = [g for g in F.fns_in('ipr::impl::Scope') if g['name'].startswith('make_') and g.get('body') is not None]
    if len(makers) < 8:
        raise AnalysisBroken(f'only {len(makers)} Scope::make_* functions found')

    def unq(sv):
        return _re.sub(r'P1(\d\d)', lambda m: 'P' + str(int(m.group(1))), sv) if isinstance(sv, str) else sv
    for g in sorted(makers, key=lambda g: g['id']):
        try:
            firsts = [r for r in SK.run(g['id']) if r[1] == 'return']
            if not firsts:
                raise AnalysisBroken(f'{g["id"]}: no returning path on an empty scope')
            cases = []
            for st1, _k, v1 in firsts:
                first = v1[1] if v1[0] == 'addr' else v1
                a1 = contracts.observe(SK, F, st1, first, contracts.name_paths(st1, first))
                for r in SK.run(g['id'], args=keyrule.qparams(len(g['params'])), state=st1.fork()):
                    if r[1] == 'return':
                        cases.append((st1, a1, r))
        except Unsupported as e:
            raise AnalysisBroken(f'{g["id"]}: outside the evaluator language: {e}')
        for j, (st1, a1, (st2, _k2, v2)) in enumerate(cases):
            node = v2[1] if v2[0] == 'addr' else v2
            a2 = contracts.observe(SK, F, st2, node, contracts.name_paths(st2, node))
            # (what a redeclaration shares with the first declaration by design -- C07's subject -- is not an operand)
            SHARED = ('master', 'primary_template', 'decl_set', 'specializations', 'definition')
            diff = {k: (a1.get(k), unq(a2.get(k))) for k in set(a1) | set(a2)
                    if k not in SHARED and (only is None or k in only) and a1.get(k) != unq(a2.get(k))}
            # an operand of the *first* request showing through the second declaration is this request's operand only if the path
            # found it equal: the lookup that succeeded was made with this request's own argument as its key
            same_as_first = sorted({contracts.render(keyrule.subst_q(c[2]), st2, {}) for c, val in st2.conds[len(st1.conds):]
                                    if val and isinstance(c, tuple) and c[:1] == ('found',) and c[3] is not None
                                    and keyrule.subst_q(c[2]) != c[2]}, key=len, reverse=True)
            for k in set(a2):
                if k in SHARED or (only is not None and k not in only) or k in diff or not isinstance(a2.get(k), str):
                    continue
                rest = a2[k]
                for fine in same_as_first:
                    rest = rest.replace(fine, '~')
                stale = sorted({int(m) for m in _re.findall(r'\bP(\d+)\b', rest) if int(m) < keyrule.Q})
                if stale:
                    diff[k] = (a1.get(k), a2[k] + f' -- the first declaration\'s argument P{stale[0]}, which no lookup of this path found equal to this request\'s')
            how = contracts.render_conds(st2.conds[len(st1.conds):], st2, {})
            kind = 'redeclaration' if how.count('found(') == 2 and '!found' not in how else ('new type' if how.startswith('found(') else 'new name')
            ck.check(R_re, f'Scope::{g["name"]}/second request#{j} ({kind})', not diff,
                     f'{g["id"]} ({kind}): ' + '; '.join(f'{k}() yields `{str(b)[:70]}` where a first declaration yields `{str(a)[:70]}`' for k, (a, b) in sorted(diff.items())),
                     loc=g['loc'], fn=g['id'])


REORDERING = ('sort', 'stable_sort', 'reverse', 'rotate', 'shuffle', 'random_shuffle', 'partition', 'stable_partition', 'nth_element',
              'partial_sort', 'unique', 'next_permutation', 'prev_permutation', 'make_heap', 'sort_heap', 'push_heap', 'pop_heap', 'swap_ranges')


def operand_order_rule(ck, F, prefix):
    """<prefix>.operands-in-given-order: a factory that collects the operands of a request into a container of its own does not reorder
    that container (sort, reverse, rotate, unique, ...) and then go on using it: the node found or built from it would expose its operands
    in another order than the one given.  Returns True when a violation was reported."""
    R = ck.rule(f'{prefix}.operands-in-given-order', 'no factory applies a reordering algorithm of the standard library (sort, reverse, rotate, unique, '
                'partition, ...) to a container of its own that it then goes on using to find or build the node: operands are exposed in the order '
                'given (reordering is not one of the documented normal forms)', floor=1)
    found = False
    n_sites = 0
    for f in sorted(wire.all_factories(F), key=lambda f: f['id']):
        for m in walk(f.get('body')):
            c = m.get('callee') or {}
            if m.get('k') != 'call' or c.get('repo') is not False or c.get('name') not in REORDERING or not (c.get('q') or c.get('id') or '').startswith('std::'):
                continue
            a0 = (m.get('args') or [None])[0]
            x = strip_casts(a0 or {})
            while x.get('k') in ('ctor',) and len(x.get('args', [])) == 1:
                x = strip_casts(x['args'][0])
            if x.get('k') == 'call' and (x.get('callee') or {}).get('name') in ('begin', 'rbegin', 'data') and x.get('obj') is not None:
                x = strip_casts(x['obj'])
            elif x.get('k') == 'call' and (x.get('callee') or {}).get('name') in ('begin', 'rbegin') and len(x.get('args', [])) == 1:
                x = strip_casts(x['args'][0])
            if not (x.get('k') == 'ref' and x.get('kind') == 'local'):
                continue
            n_sites += 1
            is_x = lambda r: r.get('k') == 'ref' and r.get('kind') == 'local' and r.get('id') == x.get('id') and r.get('name') == x.get('name')
            GROW = ('push_back', 'emplace_back', 'push_front', 'emplace_front', 'insert', 'emplace', 'assign')
            builds = lambda c_: c_.get('k') == 'call' and ((c_.get('callee') or {}).get('repo') is True or (c_.get('callee') or {}).get('name') in GROW)
            later = []
            for r in walk(f['body']):
                if r.get('ln', 0) <= m.get('ln', 0):
                    continue
                # the reordered container is walked to fill another one / to call a factory, or handed to one whole
                if r.get('k') == 'rangefor' and any(is_x(y) for y in walk(r.get('range'))) and any(builds(y) for y in walk(r.get('b'))):
                    later.append(r)
                elif builds(r) and any(is_x(y) for a_ in (r.get('args') or []) for y in walk(a_)):
                    later.append(r)
                elif r.get('k') in ('ctor', 'initlist') and (r.get('t') or '').replace('const ', '').startswith('ipr::') and any(is_x(y) for y in walk(r.get('args') or r.get('elts') or [])):
                    later.append(r)
            sid = '::'.join(contracts.fn_qname(f['id']).split('::')[-2:]) + '/' + str(len(f['params'])) + f':{m.get("ln")}'
            if later:
                found = True
            ck.check(R, sid, not later, f'{f["id"]} (line {m.get("ln")}) applies std::{c.get("name")} to its local `{x.get("name")}` and uses it afterwards (line '
                     f'{later[0].get("ln") if later else "?"}): the node is found or built from the operands in another order than the one the request gave',
                     loc=f['loc'], fn=f['id'])
    # a sequence the library *stores* (the Lexicon's copy of a Warehouse, the rows of a product) is never reordered in place: nodes
    # already built over it would change their operands, and a table keyed on the sequence would no longer be ordered
    for f in sorted(F.fn.values(), key=lambda f: f['id']):
        if f.get('body') is None or not f['loc'].startswith(('src/', 'include/')) or not (f.get('parent') or '').startswith(('ipr::impl::', 'ipr::util::')):
            continue
        for m in walk(f['body']):
            c = m.get('callee') or {}
            if m.get('k') != 'call' or c.get('repo') is not False or c.get('name') not in REORDERING or not (c.get('q') or c.get('id') or '').startswith('std::'):
                continue
            a0 = strip_casts((m.get('args') or [{}])[0] or {})
            src = a0.get('obj') if a0.get('k') == 'call' and (a0.get('callee') or {}).get('name') in ('begin', 'rbegin', 'data') else None
            src = strip_casts(src or {})
            own = src.get('k') == 'this' or (src.get('k') == 'member' and strip_casts(src.get('base') or {}).get('k') == 'this') \
                or (src.get('k') == 'unop' and strip_casts(src.get('e') or {}).get('k') == 'this')
            if not own:
                continue
            n_sites += 1
            found = True
            ck.fail(R, contracts.short(contracts.fn_qname(f['id'])) + f':{m.get("ln")}', f'{f["id"]} (line {m.get("ln")}) applies std::{c.get("name")} to the '
                    'elements the object itself stores: a sequence that nodes and tables already refer to is reordered in place', loc=f['loc'], fn=f['id'])
    if n_sites == 0:
        ck.check(R, 'inventory', True, '')
    return found



def bitfield_rule(ck, F, prefix):
    """<prefix>.bit-fields-hold-their-enum: a data member declared as a bit-field of an enumeration type is wide enough, with the sign of
    the underlying type taken into account, for every enumerator: otherwise the value read back is not the value stored."""
    R = ck.rule(f'{prefix}.bit-fields-hold-their-enum', 'a bit-field of enumeration type holds every enumerator of that type (width and sign of the '
                'underlying type considered): a flag stored in a member that is too narrow -- or signed, with the top value needing the sign bit -- '
                'reads back as another value', floor=1)
    SIGNED = ('int', 'long', 'short', 'signed char', 'long long', 'char')
    n = 0
    for name, r in sorted(F.rec.items()):
        if not name.startswith('ipr::'):
            continue
        for fl in r['fields']:
            if 'bits' not in fl:
                continue
            t = fl['t'].replace('const ', '').strip()
            en = F.enums.get(t)
            if en is None:
                continue
            n += 1
            b = int(fl['bits'])
            signed = (en.get('underlying') or 'int') in SIGNED
            lo, hi = (-(1 << (b - 1)), (1 << (b - 1)) - 1) if signed else (0, (1 << b) - 1)
            vals = [int(e['value']) for e in en.get('enumerators', [])]
            bad = [v for v in vals if not lo <= v <= hi]
            ck.check(R, f'{contracts.short(name)}::{fl["name"]}', not bad, f'{name}::{fl["name"]} is a {b}-bit field of {t} (underlying {en.get("underlying")}, '
                     f'so it holds {lo}..{hi}); the enumerator value(s) {bad[:4]} do not fit and read back as other values', loc=r['loc'])
    if n == 0:
        ck.check(R, 'inventory', True, '')


def run(ck, F):
    ck.explanation = (
        'Every factory (all members of the nine factory classes returning a node, plus the member builders of '
        'Region/Scope/Enum/Class/Parameter_list/Block/Module/Mapping) is evaluated symbolically: parameters -> '
        'constructor Sema selected inside the container\'s construct helper -> fields -> final overrider of every '
        'public const accessor of the returned object\'s class and of the interface classes it implements (named '
        'aliases included).  The composition is branch-free, so the computed contract {accessor -> term over the '
        'parameters} holds for every operand choice.  Contracts are compared with the table confirmed by reading '
        '(tables/factory_contract.json); independent of the table, no parameter may be dropped.')
    with open(TABLE) as fh:
        table = json.load(fh)['contracts']
    bitfield_rule(ck, F, 'C02')
    if operand_order_rule(ck, F, 'C02'):
        return          # (the reordering code is outside the evaluator's language; the violation stands on its own)
    cur = wire.compute(F)
    R_tab = ck.rule('C02.WIRE', 'each accessor of a factory-built node yields the term recorded in the confirmed '
                    'contract table (operands under their documented accessors, in order; absent optional parts '
                    'read as absent; fixed types; on every path)', floor=1200)
    R_paths = ck.rule('C02.paths', 'a factory has the confirmed set of outcomes (same guards, same refusals)', floor=240)
    R_drop = ck.rule('C02.no-dropped-argument', 'every parameter of a factory is stored in the object graph it returns '
                     '(or decides the path): nothing is silently dropped', floor=225)
    R_lang = ck.rule('C02.evaluable', 'the factory body stays within the straight-line language of the evaluator', floor=240)
    unconfirmed = []
    for fid in sorted(cur):
        paths = cur[fid]
        f = F.fn[fid]
        sid = short_id(fid)
        if 'unsupported' in paths[0]:
            raise AnalysisBroken(f'{fid}: outside the evaluator language: {paths[0]["unsupported"]}')
        ck.ok(R_lang, sid)
        n = len(f['params'])
        # table independent: nothing dropped
        for i, p in enumerate(paths):
            if 'accessors' in p:
                missing = [f['params'][j]['name'] or str(j) for j in range(n) if j not in p['stored_params']]
                ck.check(R_drop, f'{sid}#{i}', not missing,
                         f'parameter(s) {missing} of {fid} are not stored in the returned node (path `{p["when"][:80]}`)',
                         loc=f['loc'], fn=fid)
        want = table.get(fid)
        if fid.startswith('ipr::impl::type_factory::get_qualified('):
            # the documented normal form (qualifier merging) is a permitted difference of this property: what get_qualified answers
            # is judged by the merge rule (evaluated, independent of how the flattening is written), not by the frozen table
            ck.ok(R_paths, sid, detail='normal form: judged by C02.merge')
            continue
        if want is None:
            unconfirmed.append(sid)
            continue
        same_shape = len(want) == len(paths) and all(
            w.get('when') == p.get('when') and w.get('throws') == p.get('throws') and ('accessors' in w) == ('accessors' in p)
            and w.get('result') == p.get('result')
            for w, p in zip(want, paths))
        if not same_shape:
            # the tests may have been restructured: compare what is selected for every valuation of the atomic conditions
            sig = lambda p: json.dumps({k: v for k, v in p.items() if k not in ('when', 'stored_params')}, sort_keys=True)
            eq, wit = guards.equivalent([(canonical_when(F, p.get('when', '')), sig(p)) for p in want], [(canonical_when(F, p.get('when', '')), sig(p)) for p in paths],
                                        same=(lambda x, y, val, fid=fid: absorbed_qualification(fid, x, y, val)),
                                        infeasible=(lambda val: reserved_word_infeasible(F, val) or distinct_constants_infeasible(val)))
            if eq:
                ck.ok(R_paths, sid, detail='guards restructured, same outcome for every valuation of the atomic conditions')
                for i, p in enumerate(paths):
                    for acc in sorted(p.get('accessors', {})):
                        ck.ok(R_tab, f'{sid}#{i}::{acc}')
                continue
            what = (f'under {[(k[:70], v) for k, v in wit["valuation"].items()]} the confirmed outcome is '
                    f'{(json.loads(wit["confirmed"]).get("throws") or json.loads(wit["confirmed"]).get("result") or "a node") if wit["confirmed"] else "none"} '
                    f'and the current one is {(json.loads(wit["now"]).get("throws") or json.loads(wit["now"]).get("result") or "a node (different contract)") if wit["now"] else "none"}') \
                if eq is False else f'not comparable by truth table ({wit})'
            ck.fail(R_paths, sid,
                    f'{fid}: outcomes changed: {[(p.get("when", "")[:60], p.get("throws") or p.get("result") or "node") for p in paths]} '
                    f'vs confirmed {[(p.get("when", "")[:60], p.get("throws") or p.get("result") or "node") for p in want]}; {what}',
                    loc=f['loc'], fn=fid)
            continue
        ck.ok(R_paths, sid)
        for i, (w, p) in enumerate(zip(want, paths)):
            if 'accessors' not in w:
                continue
            okind = lambda o: (o or '').split(':')[0]
            ck.check(R_tab, f'{sid}#{i}::(storage)', okind(w.get('origin')) == okind(p.get('origin')),
                     f'{fid}: node comes from `{p.get("origin")}`, confirmed `{w.get("origin")}`', loc=f['loc'], fn=fid)
            for acc in sorted(set(w['accessors']) | set(p['accessors'])):
                a, b = w['accessors'].get(acc), p['accessors'].get(acc)
                if a is None:
                    continue        # a new accessor: judged when confirmed into the table
                ck.check(R_tab, f'{sid}#{i}::{acc}', a == b,
                         f'{fid}: {acc}() yields `{b}`, the confirmed contract is `{a}`', loc=f['loc'], fn=fid,
                         detail={'accessor': acc, 'term': b})
    if unconfirmed:
        ck.note(f'{len(unconfirmed)} factory(ies) not yet confirmed in the table (generic rules only): ' + ', '.join(unconfirmed[:8]))
    gone = [k for k in table if k not in cur]
    if gone:
        ck.note(f'{len(gone)} table entries have no subject in the current tree (skipped): ' + ', '.join(short_id(k) for k in gone[:6]))
    # a unified factory may hand back an element that an earlier request built: it reports this request's operands
    # only if the comparator that found it equates exactly the requests with the same operands
    K = keyrule.KeyChecker(ck, F, 'C02')
    for r, text in ((K.R_diag, 'found-element'), (K.R_lex, 'found-element'), (K.R_atom, 'found-element')):
        ck.rules[r]['desc'] = ('(a node returned from a table instead of being built reports the operands of this request '
                               'only if the table finds equal what is equal) ' + ck.rules[r]['desc'])
    nuni = 0
    for fid in sorted(cur):
        if any((p.get('origin') or '').startswith('unified') for p in cur[fid]) and F.fn[fid].get('parent') in contracts.FACTORY_CLASSES:
            K.factory(F.fn[fid])
            nuni += 1
    K.finish_cover()
    import c11
    c11.merge_rule_for(ck, F, 'C02')
    # a declaration entered a second time (same name and type: a redeclaration; or a new type under a known name) reports its own
    # operands like a first declaration does
    redeclaration_operands(ck, F, 'C02')
    import c12 as _c12
    _c12.level_given(ck, F, 'C02')
    # a substitution handed out by the expression factory exposes its bindings under operator[]: what it was given, and the
    # parameter itself for what it was not given
    import c16 as _c16
    _c16.latest_binding_rule(ck, F, 'C02')
    # the flags a declaration was given are the flags it reports: a setter stores into the declaration itself
    import c05 as _c05
    _c05.setters_rule(ck, F, 'C02')
    # an operand a node reports is the object it was given: no member of a node refers to storage of the call that built it
    import history as _history
    _history.call_storage_rule(ck, F, 'C02')

    # elements the client builds in place (tokens of a pragma, captures of a closure, designators of a using-declaration): no
    # factory stands between the client's arguments and the node, the constructor is the contract
    R_inpl = ck.rule('C02.built-in-place', 'an element that the client constructs in place in a public sequence of a node (obj_list / '
                     'obj_sequence member) reports every constructor argument, whole, under one of its accessors: none is dropped, '
                     'and none is stored through a base-class view of it (a location reduced to its line and column)', floor=3)
    import re as _re2
    built = {p_.get('class') for ps_ in cur.values() for p_ in ps_ if p_.get('class')}
    inplace = set()
    for n_, r_ in F.rec.items():
        if n_ not in built:
            continue
        for c_ in [n_] + F.ancestors(n_):
            for fl in (F.rec.get(c_) or {}).get('fields', []):
                m_ = _re2.match(r'ipr::impl::(obj_list|obj_sequence)<(.*)>$', fl['t'])
                if m_ and fl['access'] == 'public' and m_.group(2) in F.rec and m_.group(2) not in built:
                    inplace.add(m_.group(2))
    S_in = Sym(F, opaque=contracts.default_opaque(F), max_depth=48)
    for T in sorted(inplace):
        ctors = [g for g in F.fns_in(T) if g.get('ctor') and not g.get('copy') and not g.get('implicit') and g.get('params')]
        for g in sorted(ctors, key=lambda g: g['id']):
            st0 = State()
            o = st0.new_obj(T)
            try:
                outs = [s_ for s_, _v in S_in.call_ctor({'id': g['id'], 'repo': True, 'parent': T}, o, [('param', i) for i in range(len(g['params']))], st0)
                        if s_.throw is None]
            except Unsupported as e:
                raise AnalysisBroken(f'{g["id"]}: {e}')
            for pi_, s_ in enumerate(outs):
                acc = contracts.observe(S_in, F, s_, o, {o[1]: 'R'})
                whole = {v for v in acc.values() if isinstance(v, str)}
                missing = [g['params'][i]['name'] or f'#{i}' for i in range(len(g['params']))
                           if f'P{i}' not in whole and f'&P{i}' not in whole and f'*P{i}' not in whole]
                ck.check(R_inpl, f'{contracts.short(T)}({", ".join(contracts.short(p_["t"]) for p_ in g["params"])})' + (f'#{pi_}' if len(outs) > 1 else ''),
                         not missing, f'{g["id"]}: argument(s) {missing} are not reported whole by any accessor of the element '
                         f'(accessors: { {k: str(v)[:60] for k, v in sorted(acc.items())} })', loc=g['loc'], fn=g['id'])

    # a node that is given a spelling reports the String interned for it: that String views exactly the bytes and the length of
    # the request (the arena copy made by make_string(word.data(), word.length())), whatever bytes the spelling contains
    R_str = ck.rule('C02.string-content', 'the String created for a spelling views the data and the length of the one arena header made '
                    'from (word.data(), word.length()): every byte of the request, embedded NULs included, and no other', floor=1)
    import arena
    for inst, ok, msg, loc, fid in arena.owned_bytes(F):
        ck.check(R_str, inst, ok, msg + ' -- characters() of the node is not the spelling it was given', loc=loc, fn=fid)
    K.finish_partial(())
    for r in (K.R_diag, K.R_lex):
        ck.rules[r]['floor'] = 30
    ck.rules[K.R_atom]['floor'] = 2
    ck.rules[K.R_guard]['floor'] = 40
    ck.rules[K.R_cover]['floor'] = 30
    ck.extra['unified_factories'] = nuni
    ck.extra['factories'] = len(cur)
    ck.samples.append({'contract_example': {'factory': 'expr_factory::make_conditional',
                                            'accessors': next((p['accessors'] for k, v in cur.items() if 'make_conditional' in k for p in v if 'accessors' in p), None)}})
