"""C08 -- the ordered-set utility stays a valid balanced search tree for any insertions.

E4: local shape analysis.  rotate_left / rotate_right / fixup_insert, as instantiated, are interpreted on
abstract heaps: explicit nodes z (red), its parent p (red), grandparent g (black), the uncle (absent /
black summary / red with summarised children), the great-grandparent context, and opaque sub-trees that
carry only (black root or null, black height).  Every abstract pre-state of `loop invariant and loop
condition` is enumerated; after ONE abstract iteration the checker requires the inductive step of the
textbook proof (CLRS 13.3): same in-order sequence, consistent parent links, unchanged black height,
and either the loop exits with a valid fragment or the invariant holds again two levels up.
The descent loops of find/insert are interpreted on small explicit trees with a symbolic comparator,
which enumerates every descent decision.
"""
from facts import AnalysisBroken, walk, strip_casts, stmts
from symex import Sym, State, Unsupported, NULL
import contracts

LEVEL = 'other'
TITLE = 'C08 the ordered-set utility stays a valid balanced search tree for any insertions'

RED, BLACK = 'Red', 'Black'
H = 3           # black height given to non-null summarised sub-trees in the `h > 0` regime


class TreeSym(Sym):
    """std::allocator<node<T>>::allocate(1) yields a fresh abstract node."""

    def intrinsic(self, e, callee, recv, args, st):
        if callee.get('name') == 'allocate' and callee.get('repo') is False and (callee.get('ptargs') or [None])[0] in self.F.rec:
            o = st.new_obj(callee['ptargs'][0], origin=('new',))
            st.effects.append(('fcall', callee['id'], None, tuple(args)))
            return [(st, ('addr', o))]
        return Sym.intrinsic(self, e, callee, recv, args, st)


class Frag:
    """An abstract heap for one core<Node> instantiation inside a symex State."""

    def __init__(self, F, S, core):
        self.F, self.S, self.core = F, S, core
        self.node_cls = F.rec[core]['targs'][0]
        self.st = State()
        self.tree = self.st.new_obj(core, origin=('frag',))
        self.names = {}
        self.bh = {}            # summary oid -> black height of the sub-tree it stands for
        link = [a for a in [self.node_cls] + F.ancestors(self.node_cls) if a.startswith('ipr::util::rb_tree::link<')]
        if not link:
            raise AnalysisBroken(f'{self.node_cls} is not an rb_tree link')
        self.link = link[0]
        self.acc = {}
        for nm in ('left', 'right', 'parent'):
            fid = f'{self.link}::{nm}()'
            if fid not in F.fn:
                raise AnalysisBroken(f'accessor {fid} not in facts')
            self.acc[nm] = fid
        # data members by what they are, not by what they are called
        self.F_ROOT = F.role_field(core, lambda fl: fl['t'].rstrip().endswith('*'), 'root of the tree', inherited=True)
        self.F_COUNT = F.role_field(core, lambda fl: fl['t'] in ('long', 'int', 'unsigned long', 'std::ptrdiff_t', 'unsigned int', 'std::size_t'), 'number of nodes', inherited=True)
        self.F_COLOR = F.role_field(self.link, lambda fl: 'Color' in fl['t'], 'colour of the node', inherited=True)
        en = F.enums.get('ipr::util::rb_tree::Color')
        if not en:
            raise AnalysisBroken('enum rb_tree::Color not found')
        self.colors = {e['name']: ('k', int(e['value']), 'enum:ipr::util::rb_tree::Color::' + e['name']) for e in en['enumerators']}
        self.colval = {int(e['value']): e['name'] for e in en['enumerators']}
        self.st.heap[self.tree[1]].fields[self.F_ROOT] = NULL
        self.st.heap[self.tree[1]].fields[self.F_COUNT] = ('sym', 'count')

    def node(self, name, color, summary_bh=None):
        o = self.st.new_obj(self.node_cls, origin=('frag',))
        self.names[o[1]] = name
        self.st.heap[o[1]].fields[self.F_COLOR] = self.colors[color]
        for nm in ('left', 'right', 'parent'):
            self.set(o, nm, NULL)
        if summary_bh is not None:
            self.bh[o[1]] = summary_bh
            # the children of a summarised sub-tree are never looked at: poison them
            self.set(o, 'left', ('sym', 'opaque'))
            self.set(o, 'right', ('sym', 'opaque'))
        return o

    def key(self, n, which, st=None):
        st = st or self.st
        outs = self.S.run(self.acc[which], this=n, args=[], state=st.fork())
        if len(outs) != 1:
            raise AnalysisBroken('link accessor is not straight-line')
        return outs[0][2]

    def set(self, n, which, target, st=None):
        st = st or self.st
        k = self.key(n, which)
        st.symstore[k] = target if target == NULL or target[0] == 'sym' else ('addr', target)

    def get(self, st, n, which):
        v = st.symstore.get(self.key(n, which, st), None)
        if v is None or v == NULL:
            return None
        if v[0] == 'addr':
            return v[1]
        return v

    def link2(self, parent, side, child):
        self.set(parent, side, child if child is not None else NULL)
        if child is not None:
            self.set(child, 'parent', parent)

    def color(self, st, n):
        c = st.heap[n[1]].fields.get(self.F_COLOR)
        return self.colval.get(c[1]) if isinstance(c, tuple) and c[0] == 'k' else None

    def nm(self, n):
        if n is None:
            return 'null'
        if isinstance(n, tuple) and n[0] == 'obj':
            return self.names.get(n[1], f'#{n[1]}')
        return str(n)


def inorder(fr, st, n, depth=0):
    if n is None:
        return []
    if depth > 12:
        return ['<cycle>']
    if n[0] != 'obj':
        return [str(n)]
    if n[1] in fr.bh:
        return [fr.nm(n)]
    return inorder(fr, st, fr.get(st, n, 'left'), depth + 1) + [fr.nm(n)] + inorder(fr, st, fr.get(st, n, 'right'), depth + 1)


def check_subtree(fr, st, n, parent, problems, allow_red_root=False, depth=0):
    """Returns the set of black heights of the paths below n; records link / red-red problems."""
    if n is None:
        return {0}
    if depth > 12:
        problems.append('cycle')
        return {0}
    if n[0] != 'obj':
        problems.append(f'dangling link {n}')
        return {0}
    par = fr.get(st, n, 'parent')
    if par != parent:
        problems.append(f'parent link of {fr.nm(n)} is {fr.nm(par)}, its parent is {fr.nm(parent)}')
    if n[1] in fr.bh:
        if fr.color(st, n) != BLACK:
            problems.append(f'summarised sub-tree {fr.nm(n)} was recoloured')
        return {fr.bh[n[1]]}
    col = fr.color(st, n)
    l, r = fr.get(st, n, 'left'), fr.get(st, n, 'right')
    if col == RED:
        for c in (l, r):
            if c is not None and c[0] == 'obj' and fr.color(st, c) == RED:
                problems.append(f'red {fr.nm(n)} has red child {fr.nm(c)}')
    hs = set()
    for c in (l, r):
        for h in check_subtree(fr, st, c, n, problems, depth=depth + 1):
            hs.add(h + (1 if col == BLACK else 0))
    return hs


def build_fixup_state(F, S, core, p_side, z_side, regime, uncle, context):
    fr = Frag(F, S, core)
    sub = (lambda name: fr.node(name, BLACK, summary_bh=H)) if regime == 'h>0' else (lambda name: None)
    z = fr.node('z', RED)
    p = fr.node('p', RED)
    g = fr.node('g', BLACK)
    other = 'right' if z_side == 'left' else 'left'
    fr.link2(z, 'left', sub('zl'))
    fr.link2(z, 'right', sub('zr'))
    fr.link2(p, z_side, z)
    fr.link2(p, other, sub('s'))
    fr.link2(g, p_side, p)
    u_side = 'right' if p_side == 'left' else 'left'
    if uncle == 'red':
        u = fr.node('u', RED)
        fr.link2(u, 'left', sub('ul'))
        fr.link2(u, 'right', sub('ur'))
        fr.link2(g, u_side, u)
    else:
        u = fr.node('u', BLACK, summary_bh=H) if regime == 'h>0' else None
        fr.link2(g, u_side, u)
    gg = None
    gg_side = None
    if context == 'root':
        fr.st.heap[fr.tree[1]].fields[fr.F_ROOT] = ('addr', g)
        root = g
    else:
        gg_side, gg_col = context
        gg = fr.node('gg', gg_col)
        ggo = fr.node('ggo', BLACK, summary_bh=99)
        fr.link2(gg, gg_side, g)
        fr.link2(gg, 'right' if gg_side == 'left' else 'left', ggo)
        top = fr.node('ROOT', BLACK, summary_bh=98)
        fr.set(gg, 'parent', top)           # something above, never looked into
        fr.st.heap[fr.tree[1]].fields[fr.F_ROOT] = ('addr', top)
        root = top
    return fr, dict(z=z, p=p, g=g, u=u, gg=gg, gg_side=gg_side, root=root)


def run(ck, F, prefix='C08'):
    ck.explanation = (
        'Inductive step of the red-black insertion proof, machine-checked on the instantiated code: all abstract '
        'pre-states of (loop invariant and loop condition) of fixup_insert are enumerated (parent side x node side x '
        'height regime x uncle colour x context above the grandparent), one iteration of the real loop body (rotations '
        'inlined) is interpreted on the abstract heap, and the post-state must keep the in-order sequence, have consistent '
        'parent links, the same black height on every path, no red-red pair except the invariant\'s (z, parent) two levels '
        'up, and a black root on exit.  find/insert descents are interpreted on explicit 3-node trees with a symbolic '
        'comparator, enumerating every descent decision.')
    ck.assume('soundness of the abstraction (these fragments cover every reachable concrete state of a valid tree) is the '
              'textbook argument (CLRS 13.3), on paper; the comparator is a total order (C01/C04/C07 KEY rules)')
    S = Sym(F, opaque=contracts.default_opaque(F), max_depth=40, max_paths=200)
    S.concrete_loops = True
    cores = sorted(n for n, r in F.rec.items() if r.get('template') == 'ipr::util::rb_tree::core'
                   and f'{n}::fixup_insert({F.rec[n]["targs"][0]} *)' in F.fn)
    if len(cores) < 2:
        raise AnalysisBroken(f'{len(cores)} instantiations of rb_tree::core::fixup_insert found')
    intrusive = [c for c in cores if not F.rec[c]['targs'][0].startswith('ipr::util::rb_tree::node<')]
    owning = [c for c in cores if F.rec[c]['targs'][0].startswith('ipr::util::rb_tree::node<')]
    chosen = intrusive[:1] + owning[:1]
    if ck.tier == 'thorough':
        chosen = cores
    ck.extra['core_instantiations'] = len(cores)
    ck.extra['analysed_instantiations'] = [contracts.short(c) for c in chosen]
    R_fix = ck.rule(f'{prefix}.fixup-step', 'one iteration of the re-balancing loop, from every abstract state satisfying the loop '
                    'invariant, preserves search order, parent links and black height, and either terminates with a valid '
                    'red-black fragment (root black) or re-establishes the invariant two levels up', floor=150)
    for core in chosen:
        N = F.rec[core]['targs'][0]
        fid = f'{core}::fixup_insert({N} *)'
        f = F.fn[fid]
        loops = [n for n in stmts(f['body']) if n.get('k') == 'while']
        after = [n for n in stmts(f['body']) if n.get('k') != 'while']
        if len(loops) != 1:
            raise AnalysisBroken(f'{fid}: expected one loop')
        loop = loops[0]
        nstates = 0
        for p_side in ('left', 'right'):
            for z_side in ('left', 'right'):
                for regime in ('h=0', 'h>0'):
                    for uncle in ('black-or-null', 'red'):
                        for context in ('root', ('left', BLACK), ('left', RED), ('right', BLACK), ('right', RED)):
                            nstates += 1
                            inst = f'{contracts.short(core)}|p:{p_side}|z:{z_side}|{regime}|uncle:{uncle}|ctx:{context if context == "root" else context[0] + "-" + context[1]}'
                            try:
                                verdict = one_iteration(F, S, core, f, loop, after, p_side, z_side, regime, uncle, context)
                            except Unsupported as e:
                                raise AnalysisBroken(f'{fid}: outside the evaluator language: {e}')
                            ck.check(R_fix, inst, not verdict, f'{fid} from state [{inst}]: ' + '; '.join(verdict), loc=f['loc'], fn=fid)
        ck.extra.setdefault('fixup_states', 0)
        ck.extra['fixup_states'] += nstates
    descent_rules(ck, F, S, intrusive, owning, prefix)
    if prefix == 'C08':
        # the intrusive tree of an overload set is searched with one comparator and filled with another overload of it: the two must
        # be the same total order, or a key that was inserted is not found (KEY obligations of the scope tables, shared with C07)
        import c07 as _c07
        _c07.scope_keys(ck, F, 'C08')
    # the element a new tree node holds is built from the key by direct-initialisation `T(key)`: with list-initialisation `T{key}`
    # an element type that has an initializer-list constructor is built from the one-element list instead (std::vector<size_t>{n}
    # holds n, not n zeros) -- the node is linked where the key belongs but does not compare equal to it
    R_pl = ck.rule(f'{prefix}.payload-direct-init', 'the owning tree constructs the element of a new node from the key by direct-initialisation '
                   '(parentheses), for whatever element type it is instantiated with: list-initialisation would prefer an '
                   'initializer-list constructor of the element type and store something that does not compare equal to the key', floor=2)
    mk = sorted((f for f in F.fn.values() if f['name'] == 'make_node' and (f.get('parent') or '').startswith('ipr::util::rb_tree::container<')
                 and f.get('body')), key=lambda f: f['id'])
    if len(mk) < 2:
        raise AnalysisBroken('no instantiation of rb_tree::container<T>::make_node found')
    for f in mk:
        sites = [n for n in walk(f['body']) if n.get('k') == 'new' or (n.get('k') == 'call' and (n.get('callee') or {}).get('name') == 'construct_at')]
        lists = [n for n in sites if n.get('k') == 'new' and ((n.get('init') or {}).get('list') or (n.get('init') or {}).get('k') == 'initlist')]
        ck.check(R_pl, contracts.short(f['parent']), bool(sites) and not lists,
                 f'{f["id"]}: the element is ' + ('list-initialised (`T{key}`)' if lists else 'not constructed in this function'), loc=f['loc'], fn=f['id'])


def one_iteration(F, S, core, f, loop, after, p_side, z_side, regime, uncle, context):
    fr, n = build_fixup_state(F, S, core, p_side, z_side, regime, uncle, context)
    st = fr.st
    g, z = n['g'], n['z']
    pre_seq = inorder(fr, st, g)
    pre_problems = []
    pre_h = check_subtree(fr, st, g, fr.get(st, g, 'parent'), pre_problems)
    # the only defect of the pre-state is the red-red pair (p, z)
    pre_problems = [x for x in pre_problems if x != 'red p has red child z']
    if pre_problems or len(pre_h) != 1:
        raise AnalysisBroken(f'internal: pre-state is not an invariant state: {pre_problems} {pre_h}')
    h0 = next(iter(pre_h))
    gg = n['gg']
    gg_col0 = fr.color(st, gg) if gg else None
    st.envs.append({'this': fr.tree, ('p', 0): ('addr', z), '__fn__': f['id']})
    c0 = S.ev(loop['c'], st)
    if len(c0) != 1 or S.truth(c0[0][1], c0[0][0]) is not True:
        raise AnalysisBroken('internal: loop condition does not hold in the enumerated pre-state')
    outs = S.exec(loop['b'], st)
    problems = []
    if len(outs) != 1:
        return [f'{len(outs)} abstract outcomes (a condition of the loop body is not decided by the fragment)']
    st1, sig = outs[0]
    if st1.throw is not None or sig is not None:
        return [f'loop body leaves abnormally ({st1.throw or sig})']
    znew = st1.envs[-1][('p', 0)]
    znew = znew[1] if isinstance(znew, tuple) and znew[0] == 'addr' else None
    # where is the fragment attached now?
    if context == 'root':
        r = st1.heap[fr.tree[1]].fields.get(fr.F_ROOT)
        r = r[1] if isinstance(r, tuple) and r[0] == 'addr' else None
        above = None
    else:
        r = fr.get(st1, gg, n['gg_side'])
        above = gg
        if fr.color(st1, gg) != gg_col0:
            problems.append('the great-grandparent was recoloured')
        other = 'right' if n['gg_side'] == 'left' else 'left'
        if fr.nm(fr.get(st1, gg, other)) != 'ggo' or fr.nm(fr.get(st1, gg, 'parent')) != 'ROOT':
            problems.append('links outside the fragment were modified')
        if fr.nm(st1.heap[fr.tree[1]].fields.get(fr.F_ROOT, (None, None))[1]) != 'ROOT':
            problems.append('the root pointer was changed although the fragment is not at the root')
    if r is None:
        return problems + ['the fragment is detached from the tree']
    if inorder(fr, st1, r) != pre_seq:
        problems.append(f'in-order sequence changed: {pre_seq} -> {inorder(fr, st1, r)} (search order broken)')
    # does the loop continue?
    c1 = S.ev(loop['c'], st1)
    if len(c1) != 1:
        return problems + ['loop condition undecided after the iteration']
    cont = S.truth(c1[0][1], c1[0][0])
    if cont is None:
        return problems + ['loop condition undecided after the iteration']
    sub = []
    hs = check_subtree(fr, st1, r, above, sub)
    if cont:
        # invariant again: z' is the fragment root, red, with a red parent above; everything below is valid
        if znew != r:
            problems.append(f'the loop continues with z = {fr.nm(znew)}, which is not the root of the repaired fragment')
        if fr.color(st1, r) != RED or gg is None or fr.color(st1, gg) != RED:
            problems.append('the loop continues although there is no red-red pair at the fragment root')
        problems.extend(sub)
        if hs != {h0}:
            problems.append(f'black heights below the fragment root are {sorted(hs)}, they were {h0}')
    else:
        # exit: run the statements after the loop (root blackening)
        st2 = st1
        for s_after in after:
            res = S.exec(s_after, st2)
            if len(res) != 1:
                return problems + ['statements after the loop branch']
            st2 = res[0][0]
        sub = []
        rr = r
        if context == 'root':
            rr = st2.heap[fr.tree[1]].fields.get(fr.F_ROOT)
            rr = rr[1] if isinstance(rr, tuple) and rr[0] == 'addr' else None
            if rr is None or fr.color(st2, rr) != BLACK:
                problems.append('the root is not black on exit')
        hs = check_subtree(fr, st2, rr, above, sub)
        problems.extend(sub)
        if len(hs) != 1:
            problems.append(f'paths below the fragment root have different black heights {sorted(hs)}')
        elif context != 'root' and hs != {h0}:
            problems.append(f'black height of the fragment changed from {h0} to {sorted(hs)}')
        if context != 'root' and fr.color(st2, rr) == RED and fr.color(st2, gg) == RED:
            problems.append('on exit the fragment root is red under a red parent')
    return problems


# ---------------------------------------------------------------------------------------------------
# descent agreement, linking of the new node, count
# ---------------------------------------------------------------------------------------------------

def small_tree(F, S, core, n_nodes):
    fr = Frag(F, S, core)
    nodes = {}
    if n_nodes >= 1:
        a = fr.node('a', BLACK)
        fr.st.heap[fr.tree[1]].fields[fr.F_ROOT] = ('addr', a)
        nodes['a'] = a
    if n_nodes == 3:
        b = fr.node('b', RED)
        c = fr.node('c', RED)
        fr.link2(a, 'left', b)
        fr.link2(a, 'right', c)
        nodes.update(b=b, c=c)
    fr.st.heap[fr.tree[1]].fields[fr.F_COUNT] = ('k', n_nodes, 'int')
    return fr, nodes


def descent_rules(ck, F, S, intrusive, owning, prefix='C08'):
    R1 = ck.rule(f'{prefix}.descent', 'find and insert descend the same way for the same comparison result (negative: left, positive: '
                 'right, zero: found); insert links the new node exactly into the empty slot where the descent ended, sets its '
                 'parent, colours it red (black at the root) and re-balances from it', floor=6)
    R2 = ck.rule(f'{prefix}.count-and-reuse', 'the owning flavour returns the existing element and allocates nothing when the key is found; '
                 'the element count grows by exactly one per inserted node', floor=6)
    S.concrete_loops = True
    picks = []
    for tmpl in ('ipr::util::rb_tree::chain', 'ipr::util::rb_tree::container'):
        cands = []
        for n, r in sorted(F.rec.items()):
            if r.get('template') != tmpl:
                continue
            fs = {f['name'] for f in F.fns_in(n)}
            if 'find' in fs and 'insert' in fs:
                cands.append(n)
        if not cands:
            raise AnalysisBroken(f'no instantiation of {tmpl} with both find and insert')
        picks.append(cands[0])
    comparator_result_rule(ck, F, picks)
    reinsert_rule(ck, F, picks[0], prefix)
    # the node a link belongs to is obtained by a conversion the compiler checks (static_cast adjusts for the position of the link
    # base inside the node): a reinterpret_cast between link and node is right only while the link is the first sub-object
    R_rc = ck.rule(f'{prefix}.no-reinterpreted-links', 'no function of the tree utility reinterprets a pointer between the link base and the '
                   'node type (or between node types): parent links written through such a pointer point into the middle of a node '
                   'whose link base is not its first sub-object (a polymorphic node, a second base)', floor=20)
    for f in sorted(F.fn.values(), key=lambda f: f['id']):
        if not (f.get('parent') or '').startswith('ipr::util::rb_tree::') or not f.get('body'):
            continue
        bad = [f'line {n.get("ln")}: `{(n.get("e") or {}).get("t")}` reinterpreted as `{n.get("t")}`' for n in walk(f['body'])
               if n.get('k') == 'cast' and n.get('explicit') == 'reinterpret' and 'rb_tree::' in (((n.get('e') or {}).get('t') or '') + (n.get('t') or ''))]
        bad += [f'line {n.get("ln")}: `{(n.get("e") or {}).get("t")}` reinterpreted as `{n.get("t")}`' for n in walk(f['body'])
                if n.get('k') == 'cast' and n.get('explicit') == 'reinterpret' and 'rb_tree::' not in (((n.get('e') or {}).get('t') or '') + (n.get('t') or ''))
                and f['parent'].startswith(('ipr::util::rb_tree::link<', 'ipr::util::rb_tree::core<', 'ipr::util::rb_tree::chain<'))]
        ck.check(R_rc, contracts.short(contracts.fn_qname(f['id'])) + '/' + str(len(f.get('params', []))), not bad,
                 f'{f["id"]}: ' + '; '.join(sorted(set(bad))[:2]), loc=f['loc'], fn=f['id'])
    # each flavour twice: as the library instantiates it (comparators returning int), and as the probe unit instantiates it with
    # a comparator whose result is a comparison category (`<=>`) -- a branch of the utility that depends on the result type
    # would otherwise never be seen
    runs = [(tcls, None) for tcls in picks]
    for tmpl in ('ipr::util::rb_tree::chain', 'ipr::util::rb_tree::container'):
        pr = sorted({f['parent'] for f in F.fn.values() if f['name'] in ('find', 'insert') and 'ipr_probe::' in f['id']
                     and (f.get('parent') or '').startswith(tmpl + '<')})
        if not pr and getattr(F, 'probe3_error', None):
            # the tree no longer compiles with such a comparator (its result is stored in an int, switched on, ...): the client gets a
            # compile error, not a wrong tree; what remains is judged on the library's own instantiations
            ck.note(f'{tmpl}: not instantiable with a comparator that returns a comparison category in this tree ('
                    + F.probe3_error.strip().splitlines()[0][:160] + '); descent rules judged on int-valued comparators only')
            continue
        if not pr:
            raise AnalysisBroken(f'the probe instantiation of {tmpl}::find / insert with a comparison-category comparator is missing')
        runs.append((pr[0], 'ipr_probe::'))
    for tcls, want in runs:
        for n_nodes, problems, find0, insert0, ndesc in descent_check(F, tcls, want):
            inst = f'{contracts.short(tcls)}{" with a three-way comparator" if want else ""}/{n_nodes}-node tree'
            ck.check(R1, inst, not problems[0], f'{tcls}: ' + '; '.join(problems[0]), loc=find0['loc'], fn=insert0['id'],
                     detail={'descents': ndesc})
            ck.check(R2, inst, not problems[1], f'{tcls}: ' + '; '.join(problems[1]), loc=insert0['loc'], fn=insert0['id'])


def reinsert_rule(ck, F, tcls, prefix):
    """Handing the intrusive tree a node that is already one of its members (the comparison of the node with itself is zero)
    changes nothing: the descent ends at the node, nothing is relinked, recoloured or re-balanced."""
    R = ck.rule(f'{prefix}.member-reinserted', 'inserting into the intrusive tree a node that is already a member of it (found equal to itself) '
                'leaves every link and colour of every node as it was: no member is reset, detached or re-linked before the search has '
                'established that it is new', floor=2)
    S = Sym(F, opaque=lambda fid: F.fn.get(fid) is None)
    S.concrete_loops = True
    core = [b['name'] for b in F.rec[tcls]['bases'] if b['name'].startswith('ipr::util::rb_tree::core<')][0]
    inserts = [f for f in F.fns_in(tcls) if f['name'] == 'insert' and 'ipr_probe::' not in f['id']]
    if not inserts:
        raise AnalysisBroken(f'{tcls}: insert is not instantiated')
    fn = inserts[0]
    for zname in ('a', 'b'):
        fr, nodes = small_tree(F, S, core, 3)
        fr.st.heap[fr.tree[1]].cls = tcls
        z = nodes[zname]
        before = {(nm, w): fr.get(fr.st, n_, w) for nm, n_ in nodes.items() for w in ('left', 'right', 'parent')}
        colours = {nm: fr.color(fr.st, n_) for nm, n_ in nodes.items()}
        Sx = TreeSym(F, opaque=lambda fid: F.fn.get(fid) is None or contracts.fn_simple(fid) in ('fixup_insert', 'operator()') or bool((F.fn.get(fid) or {}).get('lambda_call')), max_depth=30, max_paths=400)
        Sx.concrete_loops = True
        try:
            outs = Sx.run(fn['id'], this=fr.tree, args=[('addr', z), ('sym', 'comp')], state=fr.st)
        except Unsupported as e:
            raise AnalysisBroken(f'{fn["id"]}: {e}')
        problems, reached = [], 0
        for st, k, v in outs:
            if k != 'return':
                continue
            d = decisions_of(fr, st)
            # the path on which the walk reaches the node itself and finds it equal (the only one a total order allows)
            want = [('a', 'zero')] if zname == 'a' else [('a', 'neg'), ('b', 'zero')]
            if [x for x in d] != want:
                continue
            reached += 1
            for (nm, w), val in before.items():
                now = fr.get(st, nodes[nm], w)
                if now != val:
                    problems.append(f'the {w} link of node {nm} becomes {fr.nm(now)} (was {fr.nm(val)})')
            for nm, c0 in colours.items():
                if fr.color(st, nodes[nm]) != c0:
                    problems.append(f'node {nm} is recoloured')
            if [e for e in st.effects if e[0] in ('call', 'fcall') and contracts.fn_simple(e[1]) == 'fixup_insert']:
                problems.append('re-balancing is started although nothing was linked')
        ck.check(R, f'{contracts.short(tcls)}/member {zname}', reached > 0 and not problems,
                 f'{fn["id"]}, given the member node {zname} of a three-node tree again: ' + ('; '.join(sorted(set(problems))[:3]) if reached else
                 'no path reaches the node and finds it equal to itself') + ': the sub-trees hanging from it are cut off', loc=fn['loc'], fn=fn['id'])


def comparator_result_rule(ck, F, picks):
    R = ck.rule('C08.comparator-result-unconverted', 'the descent loops test the comparator\'s result itself: a variable that receives it '
                'has a type that follows its initialiser (auto / decltype / the comparator\'s own result type), never a type fixed by the '
                'text of the template -- otherwise a total order whose result is wider than that type is truncated (keys whose difference '
                'is a multiple of 2^32 compare equal, the sign of others flips) and find and insert disagree', floor=4)
    for tcls in picks:
        for fn in [f for f in F.fns_in(tcls) if f['name'] in ('find', 'insert') and f.get('body') is not None]:
            parms = set(range(len(fn['params'])))
            n = 0
            bad = []

            def is_cmp_call(x):
                x = strip_casts(x)
                if x.get('k') != 'call' or (x.get('callee') or {}).get('name') != 'operator()':
                    return False
                r = strip_casts(x.get('recv') or x.get('this') or x.get('obj') or {})
                return r.get('k') == 'ref' and r.get('kind') == 'parm'
            for node in walk(fn['body']):
                if node.get('k') == 'decl':
                    for v in node.get('vars', []):
                        if v.get('init') is not None and is_cmp_call(v['init']):
                            n += 1
                            if not v.get('follows_init'):
                                bad.append(f'`{v["name"]}` is declared `{v.get("t")}` whatever the comparator returns')
            calls = sum(1 for node in walk(fn['body']) if is_cmp_call(node))
            if calls == 0:
                raise AnalysisBroken(f'{fn["id"]}: no call of the comparator parameter found')
            ck.check(R, contracts.short(contracts.fn_qname(fn['id'])), not bad, f'{fn["id"]}: ' + '; '.join(bad), loc=fn['loc'], fn=fn['id'],
                     detail={'comparator calls': calls, 'held in variables': n})


def descent_check(F, tcls, want=None):
    """find and insert of one tree class interpreted on explicit trees of 0, 1 and 3 nodes with an uninterpreted comparator:
    yields (size, (descent problems, count/reuse problems), find, insert, number of descents)."""
    S = Sym(F, opaque=lambda fid: F.fn.get(fid) is None)
    S.concrete_loops = True
    core = [b['name'] for b in F.rec[tcls]['bases'] if b['name'].startswith('ipr::util::rb_tree::core<')][0]
    N = F.rec[core]['targs'][0]
    own = N.startswith('ipr::util::rb_tree::node<')
    finds = [f for f in F.fns_in(tcls) if f['name'] == 'find' and ((want in f['id']) if want else 'ipr_probe::' not in f['id'])]
    inserts = [f for f in F.fns_in(tcls) if f['name'] == 'insert' and ((want in f['id']) if want else 'ipr_probe::' not in f['id'])]
    if not finds or not inserts:
        raise AnalysisBroken(f'{tcls}: find or insert is not instantiated')
    for n_nodes in (0, 1, 3):
        table = {}
        for fn in (finds[0], inserts[0]):
            fr, nodes = small_tree(F, S, core, n_nodes)
            fr.st.heap[fr.tree[1]].cls = tcls
            # arguments: key / node and an opaque comparator
            cmp_ = ('sym', 'comp')
            if fn['name'] == 'find':
                args = [('sym', 'key'), cmp_]
            elif own:
                args = [('sym', 'key'), cmp_]
            else:
                znode = fr.node('new', RED)
                args = [('addr', znode), cmp_]
            Sx = TreeSym(F, opaque=lambda fid: F.fn.get(fid) is None or contracts.fn_simple(fid) in ('fixup_insert', 'operator()') or bool((F.fn.get(fid) or {}).get('lambda_call')), max_depth=30, max_paths=400)
            Sx.concrete_loops = True
            try:
                outs = Sx.run(fn['id'], this=fr.tree, args=args, state=fr.st)
            except Unsupported as e:
                raise AnalysisBroken(f'{fn["id"]}: {e}')
            for st, k, v in outs:
                if k != 'return':
                    table.setdefault(fn['name'], []).append(('throw', None, None, None))
                    continue
                decisions = decisions_of(fr, st)
                table.setdefault(fn['name'], []).append((decisions, v, st, fr))
        yield n_nodes, agree(F, table, own, n_nodes), finds[0], inserts[0], len(table.get('insert', []))


def decisions_of(fr, st):
    """Sequence of (node compared, sign) decisions taken on this path: for every comparator call the path conditions test
    against zero (in whatever order and with whatever operators: < > == != <= >=), the set of signs consistent with all of
    them; a decision is a call whose sign is determined."""
    order = []
    feas = {}
    for c, val in st.conds:
        if not (isinstance(c, tuple) and len(c) == 4 and c[0] == 'op' and c[1] in ('<', '>', '==', '!=', '<=', '>=')):
            continue
        op, a, b = c[1], c[2], c[3]
        if isinstance(a, tuple) and a[:2] == ('k', 0) and not (isinstance(b, tuple) and b[:2] == ('k', 0)):
            a, b = b, a
            op = {'<': '>', '>': '<', '<=': '>=', '>=': '<=', '==': '==', '!=': '!='}[op]
        if not (isinstance(b, tuple) and b[:2] == ('k', 0) and b[2] != 'null'):
            continue
        if not any(isinstance(t, tuple) and t and t[0] in ('call', 'vcall') for t in subterms(a)):
            continue
        sat = {'<': {'neg'}, '>': {'pos'}, '==': {'zero'}, '!=': {'neg', 'pos'}, '<=': {'neg', 'zero'}, '>=': {'zero', 'pos'}}[op]
        if not val:
            sat = {'neg', 'zero', 'pos'} - sat
        if a not in feas:
            feas[a] = {'neg', 'zero', 'pos'}
            order.append(a)
        feas[a] &= sat
    signs = []
    for call in order:
        who = None
        for t in subterms(call):
            if isinstance(t, tuple) and t and t[0] == 'obj' and t[1] in fr.names:
                who = fr.names[t[1]]
                break
        signs.append((who, next(iter(feas[call])) if len(feas[call]) == 1 else '?'))
    return tuple(signs)


def subterms(t):
    if isinstance(t, tuple):
        yield t
        for x in t:
            yield from subterms(x)


def where_linked(fr, st, target):
    """(parent name, side) of the node `target` in the post-state."""
    for oid, nm in fr.names.items():
        n = ('obj', oid)
        for side in ('left', 'right'):
            if fr.get(st, n, side) == target:
                return (nm, side)
    r = st.heap[fr.tree[1]].fields.get(fr.F_ROOT)
    if isinstance(r, tuple) and r[0] == 'addr' and r[1] == target:
        return ('root', None)
    return None


def agree(F, table, own, n_nodes):
    p1, p2 = [], []
    finds = {d: (v, st, fr) for d, v, st, fr in table.get('find', []) if d != 'throw'}
    inserts = {d: (v, st, fr) for d, v, st, fr in table.get('insert', []) if d != 'throw'}
    if any(d == 'throw' for d, *_ in table.get('find', []) + table.get('insert', [])):
        p1.append('a descent may throw')
    if set(finds) != set(inserts):
        p1.append(f'find explores descents {sorted(finds)} but insert explores {sorted(inserts)}: they do not walk the tree the same way')
    expect_paths = {0: 1, 1: 3, 3: 7}[n_nodes]
    if len(inserts) != expect_paths:
        p1.append(f'{len(inserts)} descents for a {n_nodes}-node tree (expected {expect_paths})')
    for d, (v, st, fr) in sorted(inserts.items()):
        found = bool(d) and d[-1][1] == 'zero'
        last = d[-1] if d else None
        # which node did find return?
        fv = finds.get(d)
        if fv is not None:
            fval = fv[0]
            tgt = None
            for t in subterms(fval):
                if isinstance(t, tuple) and t and t[0] == 'obj' and t[1] in fv[2].names:
                    tgt = fv[2].names[t[1]]
                    break
            if found and tgt != last[0]:
                p1.append(f'descent {d}: find reports {tgt} although the comparison with {last[0]} was zero')
            if not found and fval != NULL and tgt is not None:
                p1.append(f'descent {d}: find reports {tgt} for a key that is not in the tree')
        # the new node
        newn = None
        calls = [e for e in st.effects if e[0] in ('call', 'fcall') and contracts.fn_simple(e[1]) == 'fixup_insert']
        cnt = st.heap[fr.tree[1]].fields.get(fr.F_COUNT)
        cnt0 = n_nodes
        grew = cnt == ('k', cnt0 + 1, 'int')
        same = cnt == ('k', cnt0, 'int')
        allocs = [e for e in st.effects if e[0] in ('call', 'fcall', 'new') and (e[0] == 'new' or contracts.fn_simple(e[1]) in ('allocate', 'make_node'))]
        # the nodes that were in the tree are still where they were (re-balancing is judged by the fix-up rule, not here)
        root_now = st.heap[fr.tree[1]].fields.get(fr.F_ROOT)
        a_node = [('obj', oid) for oid, nm in fr.names.items() if nm == 'a']
        if n_nodes > 0:
            if not (isinstance(root_now, tuple) and root_now[0] == 'addr' and a_node and root_now[1] == a_node[0]):
                p1.append(f'descent {d}: the root of the tree is {fr.nm(root_now[1]) if isinstance(root_now, tuple) and root_now[0] == "addr" else root_now} after the '
                          'insertion, the nodes that were in the tree are no longer reachable')
            elif n_nodes == 3:
                kids = {fr.nm(fr.get(st, a_node[0], 'left')), fr.nm(fr.get(st, a_node[0], 'right'))}
                if found and kids != {'b', 'c'}:
                    p1.append(f'descent {d}: inserting an equal key relinks the children of the root ({sorted(map(str, kids))})')
        if found:
            if own:
                if allocs:
                    p2.append(f'descent {d}: a node is allocated although the key was found')
                if not same:
                    p2.append(f'descent {d}: count changes although the key was found')
                tgt = None
                for t in subterms(v):
                    if isinstance(t, tuple) and t and t[0] == 'obj' and t[1] in fr.names:
                        tgt = fr.names[t[1]]
                        break
                if tgt != last[0]:
                    p2.append(f'descent {d}: insert of an equal key returns {tgt}, not the existing element {last[0]}')
            if calls:
                p1.append(f'descent {d}: re-balancing is started although nothing was linked')
            continue
        # not found: exactly one new node linked where the descent ended
        if own:
            news = [oid for oid, o in st.heap.items() if oid not in fr.names and o.cls == fr.node_cls]
            if len(news) != 1:
                p2.append(f'descent {d}: {len(news)} nodes created')
                continue
            newn = ('obj', news[0])
        else:
            newn = [('obj', oid) for oid, nm in fr.names.items() if nm == 'new'][0]
        if own:
            # raw storage from the allocator: every link of the new node must have been written (by make_node or by insert)
            # before the node is handed to the re-balancing -- an unwritten link holds whatever the block held before
            for which in ('left', 'right', 'parent'):
                try:
                    kk = fr.key(newn, which, st)
                except AnalysisBroken:
                    kk = None
                if kk is not None and kk not in st.symstore:
                    p1.append(f'descent {d}: the {which} link of the freshly allocated node is never written: it holds whatever the storage held before '
                              '(a stale pointer that a later rotation follows)')
        pos = where_linked(fr, st, newn)
        want = ('root', None) if n_nodes == 0 else (last[0], 'left' if last[1] == 'neg' else 'right')
        if pos != want:
            p1.append(f'descent {d}: the new node is linked at {pos}, the descent ended at {want}')
        par = fr.get(st, newn, 'parent')
        if n_nodes > 0 and fr.nm(par) != last[0]:
            p1.append(f'descent {d}: the new node\'s parent is {fr.nm(par)}, expected {last[0]}')
        col = fr.color(st, newn)
        if n_nodes == 0:
            if col != BLACK:
                p1.append('the first node of a tree is not coloured black')
        else:
            if col != RED:
                p1.append(f'descent {d}: the new node is not coloured red before re-balancing')
            if len(calls) != 1 or calls[0][3] != (('addr', newn),):
                p1.append(f'descent {d}: re-balancing is not started from the new node')
        if not grew:
            p2.append(f'descent {d}: count is {contracts.render(cnt, st, {})} after inserting into a tree of {cnt0}')
    return p1, p2
