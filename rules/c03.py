"""C03 -- words are interned: one String node per distinct byte content, content preserved."""
from facts import AnalysisBroken, walk, strip_casts, stmts
from symex import Sym, State, Unsupported, NULL
import contracts

LEVEL = 'other'
TITLE = 'C03 words are interned: one String node per distinct byte content, content preserved'

INTERN = 'ipr::util::string_pool::intern(std::basic_string_view<char8_t, std::char_traits<char8_t>>)'
ALLOC = 'ipr::util::string::arena::allocate(long)'
MKSTR = 'ipr::util::string::arena::make_string(const char8_t *, long)'
N = ('param', 0)


def const_of(F, q):
    for g in F.globals:
        if g['q'] == q:
            init = g.get('init') or {}
            if 'cv' in init:
                return int(init['cv'])
    return None


def linear(t, var):
    """t == a*var + b  ->  (a, b) or None (integer constants folded by clang are ('k', v, ...))."""
    if t == var:
        return (1, 0)
    if isinstance(t, tuple) and t and t[0] == 'k' and isinstance(t[1], int):
        return (0, t[1])
    if isinstance(t, tuple) and t and t[0] == 'castto':
        return linear(t[2], var)
    if isinstance(t, tuple) and t and t[0] == 'op' and t[1] in ('+', '-'):
        a, b = linear(t[2], var), linear(t[3], var)
        if a is None or b is None:
            return None
        s = 1 if t[1] == '+' else -1
        return (a[0] + s * b[0], a[1] + s * b[1])
    return None


def granules(t, var):
    """t == (var + c1) / d + c2 -> (c1, d, c2) or None."""
    if not (isinstance(t, tuple) and t and t[0] == 'op' and t[1] == '+'):
        return None
    q, c2 = t[2], linear(t[3], var)
    if c2 is None or c2[0] != 0:
        return None
    if not (isinstance(q, tuple) and q[0] == 'op' and q[1] == '/'):
        return None
    num, den = linear(q[2], var), linear(q[3], var)
    if num is None or den is None or num[0] != 1 or den[0] != 0 or den[1] <= 0:
        return None
    return (num[1], den[1], c2[1])


def find(t, pred):
    if isinstance(t, tuple):
        if pred(t):
            return t
        for x in t:
            r = find(x, pred)
            if r is not None:
                return r
    return None


def named_call(t, name):
    return isinstance(t, tuple) and len(t) >= 4 and t[0] in ('call', 'vcall') and contracts.fn_simple(t[1]) == name


def reserved_rows(F):
    kw = [g2 for g2 in F.globals if g2['name'] == 'known_words']
    if not kw:
        raise AnalysisBroken('known_words not found')
    rows = []
    for e in (kw[0].get('init') or {}).get('elts', []):
        lits = [n for n in walk(e) if n.get('k') == 'lit' and n.get('lt') == 'str']
        rows.append(bytes(lits[0]['bytes']) if len(lits) == 1 else None)
    return kw[0], rows


def word_eval(t, W, w):
    """Value of a guard that depends on the word only, for the concrete word w (finite-case evaluation over the rows of the
    reserved-word table); None when the term is outside this little language."""
    if t == W:
        return w
    if not isinstance(t, tuple) or not t:
        return None
    if t[0] == 'k':
        return t[1]
    if t[0] == 'castto':
        return word_eval(t[2], W, w)
    if t[0] in ('call', 'vcall') and len(t) >= 4 and t[2] is not None and t[2] == W and len(t[3]) == 1:
        # a character of the word at a constant position, a prefix / suffix test with a constant
        nm = contracts.fn_simple(t[1])
        a0 = word_eval(t[3][0], W, w)
        if nm in ('operator[]', 'at') and isinstance(a0, int) and not isinstance(a0, bool):
            return w[a0] if 0 <= a0 < len(w) else None
        arg = t[3][0]
        while isinstance(arg, tuple) and arg and arg[0] in ('castto',):
            arg = arg[2]
        lit = None
        for x_ in ([arg] + list(arg[3]) if isinstance(arg, tuple) and arg[:1] == ('call',) else [arg]):
            if isinstance(x_, tuple) and x_[:1] == ('k',) and isinstance(x_[1], tuple):
                lit = bytes(x_[1])
        if nm in ('starts_with', 'ends_with') and lit is not None:
            return w.startswith(lit) if nm == 'starts_with' else w.endswith(lit)
        return None
    if t[0] in ('call', 'vcall') and len(t) >= 4 and t[2] == W and not t[3]:
        nm = contracts.fn_simple(t[1])
        if nm in ('front', 'back'):
            return (w[0] if nm == 'front' else w[-1]) if len(w) else None
        nm = contracts.fn_simple(t[1])
        if nm in ('length', 'size'):
            return len(w)
        if nm == 'empty':
            return len(w) == 0
        return None
    if t[0] == 'un' and t[1] in ('!', 'not'):
        v = word_eval(t[2], W, w)
        return None if v is None else (not v)
    if t[0] == 'op' and len(t) == 4:
        a, b = word_eval(t[2], W, w), word_eval(t[3], W, w)
        if a is None or b is None or isinstance(a, bytes) or isinstance(b, bytes):
            return None
        try:
            return {'<': a < b, '<=': a <= b, '>': a > b, '>=': a >= b, '==': a == b, '!=': a != b, '+': a + b, '-': a - b,
                    '*': a * b, '&&': bool(a) and bool(b), '||': bool(a) or bool(b)}.get(t[1])
        except TypeError:
            return None
    return None


def arena_bounds(ck, F, prefix='C03'):
    """The bounds of arena::allocate, decided in closed form for every length; borrowed by C05 and C19 under their own prefix
    (a header written past its block overwrites a neighbouring object: an earlier String's bytes, or memory nobody owns)."""
    R3 = ck.rule(f'{prefix}.arena-bounds', 'the granule count suffices for header + n bytes for every n, the in-pool path is guarded by the '
                 'remaining count, the fresh-pool path is reached only when the string fits a pool, the oversize block is large enough', floor=5)
    af = F.need_fn(ALLOC)
    S4 = Sym(F, opaque=lambda fid: F.fn.get(fid) is None, max_depth=20)
    outs = S4.run(af['id'])
    headersz = const_of(F, 'ipr::util::string::arena::headersz')
    bufsz = const_of(F, 'ipr::util::string::arena::bufsz')
    poolsz = const_of(F, 'ipr::util::string::arena::poolsz')
    pad = const_of(F, 'ipr::util::string::padding_count')
    if None in (headersz, bufsz, poolsz, pad):
        raise AnalysisBroken(f'arena constants not folded: headersz={headersz} bufsz={bufsz} poolsz={poolsz} padding={pad}')
    srec = F.need_rec('ipr::util::string')
    fields = [(fl['name'], fl['t']) for fl in srec['fields']]
    if len(fields) != 2 or fields[0][1] != 'long' or '[' not in fields[1][1]:
        raise AnalysisBroken(f'layout of util::string changed (a long length followed by the inline bytes expected): {fields}')
    off_data = 8                       # sizeof(long): data follows length (char8_t has alignment 1)
    prec = F.need_rec('ipr::util::string::arena::pool')
    pf = [(fl['name'], fl['t']) for fl in prec['fields']]
    if len(pf) != 2 or not pf[0][1].rstrip().endswith('*') or '[' not in pf[1][1]:
        raise AnalysisBroken(f'layout of arena::pool changed (a link followed by the header storage expected): {pf}')
    F_STORAGE = pf[1][0]
    F_NEXT = F.role_field('ipr::util::string::arena', lambda fl: fl['t'].replace('ipr::util::', '').rstrip() in ('string *', 'ipr::util::string *') or fl['t'].rstrip().endswith('string *'), 'next free header')
    off_storage = 8
    ck.extra['constants'] = {'headersz': headersz, 'bufsz': bufsz, 'poolsz': poolsz, 'padding_count': pad, 'offsetof(data)': off_data}
    NH = ('fld', ('sym', 'this'), F_NEXT)

    def le_facts(conds):
        """(lhs, rhs, strict) with lhs <= rhs (or <) known on the path, whatever way the test was written."""
        out = []
        for c, val in conds:
            if not (isinstance(c, tuple) and c and c[0] == 'op' and c[1] in ('<=', '<', '>=', '>')):
                continue
            op, x, y = c[1], c[2], c[3]
            if not val:
                op = {'<=': '>', '<': '>=', '>=': '<', '>': '<='}[op]
            if op in ('>=', '>'):
                x, y, op = y, x, {'>=': '<=', '>': '<'}[op]
            out.append((x, y, op == '<'))
        return out

    # the in-pool path: nothing allocated, the old next_header returned, next_header advanced by the granule count
    rets = [(st, v) for st, k, v in outs if k == 'return']
    if len(rets) != len(outs):
        ck.fail(R3, 'no-throw', 'arena::allocate can throw on a path', loc=af['loc'], fn=af['id'])
    inpool = [(st, v) for st, v in rets if not any(named_call(t, 'operator new') for t in subterms(v))
              and not any(named_call(t, 'operator new') for kv in st.symstore.items() for x in kv for t in subterms(x))]
    if len(inpool) > 1:
        # a path guarded by `granule count <= K` for a constant K below the smallest possible count is never taken
        # (e.g. `remaining is 0 when there is no pool yet`): m = (n + c1)/d + c2 >= c2 for every n >= 0
        def infeasible(st):
            for x, y, strict in le_facts(st.conds):
                gx = granules(x, N)
                ly = linear(y, N)
                if gx is not None and ly is not None and ly[0] == 0 and (ly[1] - (1 if strict else 0)) < gx[2]:
                    return True
            return False
        inpool = [(st, v) for st, v in inpool if not infeasible(st)]
        rets = [(st, v) for st, v in rets if not infeasible(st)]
    if len(inpool) != 1:
        raise AnalysisBroken(f'arena::allocate has {len(inpool)} paths that allocate nothing (1 expected)')
    st0, v0 = inpool[0]
    nh0 = st0.symstore.get(NH)
    mterm = nh0[3] if isinstance(nh0, tuple) and nh0[0] == 'op' and nh0[1] == '+' and nh0[2] == NH else None
    g = granules(mterm, N) if mterm is not None else None
    if g is None:
        raise AnalysisBroken('the in-pool path does not advance next_header by a granule count of the form (n + c1)/d + c2: '
                             + (contracts.render(nh0, st0, {}) if nh0 else 'next_header unchanged'))
    c1, d, c2 = g
    ck.extra['granule_formula'] = f'm = (n + {c1})/{d} + {c2}'
    ck.check(R3, 'granules-suffice', d == headersz and c1 >= 0 and d * c2 + c1 - (d - 1) >= off_data,
             f'm = (n+{c1})/{d}+{c2} granules of {headersz} bytes: m*{d} >= n + {d * c2 + c1 - (d - 1)} but header+data need n + {off_data} '
             f'(for every n: floor((n+c1)/d) >= (n+c1-(d-1))/d)', loc=af['loc'], fn=af['id'], detail={'c1': c1, 'd': d, 'c2': c2})
    guards = [(x, y, strict) for x, y, strict in le_facts(st0.conds) if x == mterm]
    okrem, txt = False, 'no test of the granule count against the remaining count'
    def end_of_storage(t):
        # `storage + K` or `&storage[K]`: the offset K, when the base is the storage of a pool
        while isinstance(t, tuple) and t and t[0] == 'castto':
            t = t[2]
        if isinstance(t, tuple) and t[:1] == ('op',) and len(t) == 4 and t[1] == '+':
            return linear(t[3], N)
        if isinstance(t, tuple) and t[:1] == ('addr',) and isinstance(t[1], tuple) and t[1][:1] == ('index',):
            return linear(t[1][2], N)
        return None
    for x, rem, strict in guards:
        txt = contracts.render(rem, st0, {})
        okrem = okrem or (rem[0] == 'op' and rem[1] == '-' and rem[3] == NH and F_STORAGE in txt and end_of_storage(rem[2]) == (0, bufsz))
    ck.check(R3, 'in-pool', okrem and v0 == NH,
             f'in-pool path: the granule count is bounded by {txt}; returns {contracts.render(v0, st0, {})}', loc=af['loc'], fn=af['id'])
    seen = {'in-pool'}
    for st, v in rets:
        if (st, v) == inpool[0]:
            continue
        news = list({t for t in subterms(v) if named_call(t, 'operator new')})
        if len(news) != 1:
            ck.fail(R3, 'allocating path', f'a path of allocate returns {contracts.render(v, st, {})}, not storage of one fresh block',
                    loc=af['loc'], fn=af['id'])
            continue
        sz = linear(news[0][3][0], N)
        if sz is None:
            raise AnalysisBroken('size of a fresh block is not linear in n: ' + contracts.render(news[0][3][0], st, {}))
        # bounds on n known on this path
        ub = [(linear(y, N)[1] - (1 if strict else 0)) for x, y, strict in le_facts(st.conds) if x == N and linear(y, N) and linear(y, N)[0] == 0]
        lb = [(linear(x, N)[1] + (1 if strict else 0)) for x, y, strict in le_facts(st.conds) if y == N and linear(x, N) and linear(x, N)[0] == 0]
        returns_storage = v[0] == 'fld' and v[2] == F_STORAGE and v[1] == ('deref', news[0])
        if sz[0] == 0:
            kind = 'fresh-pool'
            seen.add(kind)
            T = min(ub) if ub else None
            nh = st.symstore.get(NH)
            adv = isinstance(nh, tuple) and nh[0] == 'op' and nh[1] == '+' and nh[3] == mterm and nh[2] == v
            ok = T is not None and (T + c1) // d + c2 <= bufsz and sz[1] >= off_storage + bufsz * headersz and returns_storage
            ck.check(R3, kind, ok and adv,
                     f'fresh-pool path (n <= {T if T is not None else "unbounded"}): needs m <= {(T + c1) // d + c2 if T is not None else "?"} of the '
                     f'{bufsz} granules of a pool of {sz[1]} bytes; returns the storage of the new pool={returns_storage}; next_header advanced by m={adv}',
                     loc=af['loc'], fn=af['id'])
        else:
            kind = 'oversize'
            seen.add(kind)
            need_extra = off_storage + off_data
            ok = sz[0] >= 1 and sz[1] >= need_extra - (sz[0] - 1) * (min(lb) if lb else 0) and returns_storage
            ck.check(R3, kind, ok,
                     f'oversize path (n >= {min(lb) if lb else "?"}): block of {sz[0]}*n + {sz[1]} bytes, link + header + data need n + {need_extra}; '
                     f'returns the storage of the new block={returns_storage}', loc=af['loc'], fn=af['id'])
    ck.check(R3, 'three-paths', seen == {'in-pool', 'oversize', 'fresh-pool'}, f'allocate paths recognised: {sorted(seen)}', loc=af['loc'], fn=af['id'])

    # ---------------------------------------------------------------- the cursor stays inside the current pool
    R3c = ck.rule(f'{prefix}.cursor-in-current-pool', 'after every path of allocate the cursor (next free header) points into the storage of the pool '
                  'the arena regards as current: when the current pool changes the cursor moves into the new one, and when the cursor is left '
                  'alone the current pool is too -- the remaining count is never a difference of pointers into two different blocks', floor=3)
    F_MEM2 = F.role_field('ipr::util::string::arena', lambda fl: fl['t'].rstrip().endswith('pool *'), 'current pool')
    MEM2 = ('fld', ('sym', 'this'), F_MEM2)
    for pi, (st, k, v) in enumerate(S4.run(af['id'])):
        if k != 'return':
            continue
        mem_after = st.symstore.get(MEM2, MEM2)
        nh_after = st.symstore.get(NH, NH)

        def pool_of(t):
            # the block a header pointer points into: the old cursor -> the old current pool; X->storage (+ k) -> X
            if t == NH:
                return MEM2
            if isinstance(t, tuple) and t[0] == 'op' and t[1] in ('+', '-') and len(t) == 4:
                return pool_of(t[2])
            if isinstance(t, tuple) and t[0] == 'fld' and t[2] == F_STORAGE and isinstance(t[1], tuple) and t[1][0] == 'deref':
                return t[1][1]
            if isinstance(t, tuple) and t[0] in ('addr', 'castto', 'decay'):
                return pool_of(t[-1] if t[0] != 'addr' else t[1])
            if isinstance(t, tuple) and t[0] == 'index':
                return pool_of(t[1])
            return None
        po = pool_of(nh_after)
        ck.check(R3c, f'allocate/path{pi}', po is not None and po == mem_after,
                 f'arena::allocate, path ({contracts.render_conds(st.conds, st, {})[:90]}): afterwards the current pool is '
                 f'`{contracts.render(mem_after, st, {})[:70]}` but the cursor points into `{contracts.render(po, st, {})[:70] if po is not None else "?"}`: '
                 'the next allocation measures the room left across two unrelated blocks and writes past the end of one of them', loc=af['loc'], fn=af['id'])

    # ---------------------------------------------------------------- the current pool exists wherever it is used
    R3b = ck.rule(f'{prefix}.pool-pointer-valid', 'wherever allocate follows the pointer to the current pool (its storage, its link), that pointer is '
                  'not null: every constructor gives the arena a pool, or the path has tested the pointer -- otherwise a word that takes that '
                  'path first (an oversize first word) dereferences a null pool', floor=1)
    ctors = [g2 for g2 in F.fns_in('ipr::util::string::arena') if g2.get('ctor') and not g2.get('implicit') and g2.get('body') is not None]
    F_MEM = F.role_field('ipr::util::string::arena', lambda fl: fl['t'].rstrip().endswith('pool *'), 'current pool')
    may_be_null = False
    Sc = Sym(F, opaque=lambda fid: F.fn.get(fid) is None, max_depth=20)
    for c in ctors:
        stc = State()
        oc = stc.new_obj('ipr::util::string::arena')
        for s2, k2, _v2 in Sc.run(c['id'], this=oc, args=[('param', i) for i in range(len(c['params']))], state=stc):
            mv = s2.heap[oc[1]].fields.get(F_MEM)
            if mv is None or mv == NULL or (isinstance(mv, tuple) and mv[:2] == ('k', 0)):
                may_be_null = True
    MEMT = ('fld', ('sym', 'this'), F_MEM)
    bad_d = []
    for st, k, v in S4.run(af['id']):
        for ptr, ln, nc, _fn, _ne in st.derefs:
            if ptr != MEMT or not may_be_null:
                continue
            known = [(c, val) for c, val in st.conds[:nc]]
            tested = any((c in (('op', '!=', MEMT, NULL), ('op', '!=', NULL, MEMT)) and val) or (c in (('op', '==', MEMT, NULL), ('op', '==', NULL, MEMT)) and not val)
                         or (c == MEMT and val) for c, val in known)
            if not tested:
                bad_d.append(f'line {ln} under ({contracts.render_conds(st.conds[:nc], st, {})[:100]})')
    ck.check(R3b, 'arena::allocate', not bad_d, 'arena::allocate follows the pool pointer where it may still be null (a constructor leaves the arena '
             'without a pool): ' + '; '.join(sorted(set(bad_d))[:3]), loc=af['loc'], fn=af['id'], detail={'constructor_can_leave_null': may_be_null})

    return {'S4': S4, 'af': af, 'NH': NH, 'F_STORAGE': F_STORAGE, 'srec': srec}


def one_pool(ck, F, prefix):
    """One Lexicon, one string pool: every route that interns a spelling goes through the same pool; borrowed by C04."""
    R = ck.rule(f'{prefix}.one-pool', 'a Lexicon (with all its factory bases) holds exactly one util::string_pool: with a second pool, a spelling '
                'interned through one entry point and again through another has two String nodes in the same Lexicon', floor=1)
    LEX = 'ipr::impl::Lexicon'
    F.need_rec(LEX)
    pools = []
    for c in [LEX] + F.ancestors(LEX):
        for fl in (F.rec.get(c) or {}).get('fields', []):
            if fl['t'].replace('const ', '').strip() == 'ipr::util::string_pool':
                pools.append(f'{contracts.short(c)}::{fl["name"]}')
        for b in (F.rec.get(c) or {}).get('bases', []):
            if b['name'] == 'ipr::util::string_pool':
                pools.append(f'{contracts.short(c)} (base)')
    ck.check(R, 'Lexicon', len(pools) == 1, f'string pools of a Lexicon: {pools}', loc=F.rec[LEX]['loc'])


def run(ck, F):
    ck.explanation = (
        'string_pool::intern, arena::make_string and arena::allocate are evaluated symbolically (all paths); the rule '
        'reads from the path conditions and effects that a new String is created only after a failed content search of '
        'the bucket selected by the hash of the word, that the stored view is the arena copy, and decides the bounds of '
        'the arena write by closed-form inequalities over the granule formula m = (n + c1)/d + c2 with the constants '
        'folded by the compiler (valid for every length n, including the inline-header, granule, pool-capacity and '
        'oversize boundaries).  The reserved-word table is read from its initialiser.')
    ck.assume('std::hash / std::map / std::find_if / std::lower_bound / std::copy behave as specified')
    one_pool(ck, F, 'C03')
    import words as _words_w
    _words_w.word_passed_whole(ck, F, 'C03')
    S = Sym(F, opaque=lambda fid: F.fn.get(fid) is None or F.fn[fid]['name'] in ('word_if_known', 'make_string'), max_depth=40)
    f = F.intern_fn()
    try:
        outs = S.run(f['id'])
    except Unsupported as e:
        raise AnalysisBroken(f'{INTERN}: {e}')
    R1 = ck.rule('C03.find-before-insert', 'intern returns the empty-string constant for the empty word, the reserved-word node for a '
                 'reserved word, an existing String whose content equals the word, and creates a String only after that search of '
                 'the bucket selected by the hash of the word failed', floor=4)
    W = ('param', 0)
    kinds = {}
    found_pred = []
    for st, k, v in outs:
        if k != 'return':
            ck.fail(R1, 'no-throw', f'intern may throw {v}', loc=f['loc'], fn=f['id'])
            continue
        emp = [e for e in st.effects if e[0] == 'emplace']
        conds = st.conds
        c_empty = [val for c, val in conds if named_call(c, 'empty') and c[2] == W]
        c_known = [val for c, val in conds if named_call(c, 'word_if_known') and c[3] == (W,)]
        # the bucket search, whichever way it is written (std::find_if over the whole bucket, a range-for): the evaluator
        # summarises it as `some element of <bucket> satisfies <predicate>` / `no element of <bucket> does`
        elem = find(v, lambda t: isinstance(t, tuple) and len(t) == 2 and t[0] == 'elem') if v is not None else None
        noel = [c for c, val in conds if isinstance(c, tuple) and c and c[0] == 'noelem' and val]

        def selected_by_hash(bucket):
            sel = bucket if bucket and named_call(bucket, 'operator[]') else None
            return sel is not None and find(sel[3][0], lambda t: isinstance(t, tuple) and len(t) >= 4 and t[0] == 'call' and 'std::hash<' in t[1] and t[3] == (W,)) is not None \
                and linear_free(sel[3][0], W)
        if c_empty == [True]:
            kinds['empty'] = (v == ('global', 'ipr::String::empty_string()::empty') or 'empty_string' in contracts.render(v, st, {})) and not emp
        elif c_known == [True]:
            kinds['reserved'] = find(v, lambda t: named_call(t, 'word_if_known')) is not None and not emp
        elif elem is not None and v == elem:
            bucket = elem[1]
            preds = [c for c, val in conds if val and find(c, lambda t: t == elem) is not None]
            kinds['existing'] = selected_by_hash(bucket) and not emp and len(preds) == 1
            if len(preds) == 1:
                found_pred.append((preds[0], elem))
        elif noel:
            bucket = noel[0][1]
            ok = selected_by_hash(bucket) and len(emp) == 1 and emp[0][2] == bucket
            # the stored view is built from the arena copy, not from the argument
            if ok:
                node = st.heap[emp[0][3][1]]
                txt = node.fields.get(F.role_field('ipr::impl::String', lambda fl: 'basic_string_view' in fl['t'] or 'word_view' in fl['t'], 'view of the characters'))

                def unc(t):
                    while isinstance(t, tuple) and t and t[0] == 'castto':
                        t = t[2]
                    return t
                good_txt = False
                if isinstance(txt, tuple) and txt[0] == 'call' and contracts.fn_simple(txt[1]) == 'basic_string_view' and len(txt[3]) == 2:
                    a0, a1 = unc(txt[3][0]), unc(txt[3][1])
                    if a0[0] == 'fld' and a1[0] == 'fld' and a0[2] == 'data' and a1[2] == 'length' and a0[1] == a1[1]:
                        x = a0[1]
                        mk = x[1] if x[0] == 'deref' else None
                        good_txt = mk is not None and named_call(mk, 'make_string') and len(mk[3]) == 2 \
                            and named_call(mk[3][0], 'data') and mk[3][0][2] == W \
                            and (named_call(mk[3][1], 'length') or named_call(mk[3][1], 'size')) and mk[3][1][2] == W
                kinds['created'] = good_txt and (v == emp[0][3] or named_call(v, 'front'))
            else:
                kinds['created'] = False
        else:
            ck.fail(R1, f'intern/unrecognised outcome', f'intern has an outcome that is none of empty / reserved / existing / created: returns '
                    f'{contracts.render(v, st, {})[:160]}', loc=f['loc'], fn=f['id'])
    # a path that ends in the bucket (existing or created) without a failed reserved-word search is acceptable only when its
    # condition excludes every row of the reserved-word table (decided row by row: the rows are constants)
    _kwg, _rows = reserved_rows(F)
    for st, k, v in outs:
        if k != 'return':
            continue
        conds = st.conds
        if [val for c, val in conds if named_call(c, 'empty') and c[2] == W] == [True]:
            continue
        c_known = [val for c, val in conds if named_call(c, 'word_if_known') and c[3] == (W,)]
        if c_known:
            continue            # True: the reserved outcome; False: the search failed
        wordonly = [(c, val) for c, val in conds if find(c, lambda t: t == W) is not None
                    and find(c, lambda t: isinstance(t, tuple) and t and t[0] in ('elem', 'noelem', 'sym', 'obj', 'global')) is None
                    and not (isinstance(c, tuple) and c and c[0] in ('noelem',))]
        passing, undecided = [], None
        for r in _rows:
            if r is None:
                continue
            vals = [(word_eval(c, W, r), val, c) for c, val in wordonly]
            und = [c for x, val, c in vals if x is None]
            if und:
                undecided = und[0]
                break
            if all(bool(x) == val for x, val, c in vals):
                passing.append(r)
        if undecided is not None:
            raise AnalysisBroken('intern: a path reaches the hash buckets without searching the reserved-word table, under a guard on the '
                                 'word that cannot be decided for the rows of the table: ' + contracts.render(undecided, st, {})[:200])
        ck.check(R1, 'intern/reserved-first/' + ('&'.join(contracts.render(c, st, {})[:40] + '=' + str(val) for c, val in wordonly) or 'unguarded'),
                 not passing, f'intern: the reserved word(s) {[p.decode("utf-8", "replace") for p in passing[:4]]} reach the hash buckets without '
                 f'the reserved-word table being searched (guard: {[contracts.render(c, st, {})[:80] + " is " + str(val) for c, val in wordonly]}): '
                 'a second String with the content of a reserved word is created', loc=f['loc'], fn=f['id'])
    for k in ('empty', 'reserved', 'existing', 'created'):
        ck.check(R1, 'intern/' + k, kinds.get(k) is True, f'intern: the `{k}` outcome is missing or malformed ({kinds.get(k)})', loc=f['loc'], fn=f['id'])
    # the predicate is full content equality with the word
    R1b = ck.rule('C03.content-equality', 'the bucket search compares the whole content with the word', floor=1)
    good = False
    lam_loc = f['loc']
    if found_pred:
        v, elem = found_pred[0]
        S5 = Sym(F, opaque=lambda fid: F.fn.get(fid) is None)
        cf = F.final_overrider('ipr::impl::String', 'ipr::String::characters() const')
        content = None
        if cf and cf in F.fn:
            r5 = S5.run(cf, this=elem, args=[], state=State())
            content = r5[0][2] if len(r5) == 1 else None
        # whole-content equality: std::operator==(string_view, string_view) on (content of the element, the word)
        good = isinstance(v, tuple) and v[0] == 'call' and contracts.fn_simple(v[1]) == 'operator==' and 'basic_string_view' in v[1] \
            and len(v[3]) == 2 and W in v[3] \
            and any((named_call(a, 'characters') and a[2] == elem) or (content is not None and a == content) for a in v[3])
    ck.check(R1b, 'eq predicate', good, 'the bucket search does not test `content of the element == the word` (whole string_view equality): '
             + (contracts.render(found_pred[0][0], State(), {})[:200] if found_pred else 'no search found'), loc=lam_loc)

    # ---------------------------------------------------------------- make_string
    R2 = ck.rule('C03.arena-copy', 'make_string records the length n and copies exactly [s, s+n) to the data of the header it allocated', floor=2)
    S3 = Sym(F, opaque=lambda fid: F.fn.get(fid) is None or fid == ALLOC, max_depth=20)
    mf = F.need_fn(MKSTR)
    for i, (st, k, v) in enumerate(S3.run(mf['id'])):
        hdr = find(v, lambda t: named_call(t, 'allocate'))
        lw = [e for e in st.effects if e[0] == 'write' and e[1][0] == 'fld' and e[1][2] == 'length']
        cp = [e for e in st.effects + [('val', v)] if False]
        # a recognised bulk copy (copy / copy_n / memcpy / char_traits::copy ...) of exactly n bytes from s to data[0 ..)
        import arena as _arena
        copies = _arena.bulk_copies(F, mf)[i][3] if i < len(_arena.bulk_copies(F, mf)) else []
        okc = any(src == ('param', 0) and cnt == {('param', 1): 1} and dst == {} for src, cnt, dst in copies)
        lv = lw[-1][2] if lw else None
        while isinstance(lv, tuple) and lv and lv[0] == 'castto':
            lv = lv[2]
        ok_len = len(lw) >= 1 and lv == ('param', 1)
        ck.check(R2, f'make_string#{i}', ok_len and okc, f'make_string: length write={[contracts.render(e[2], st, {}) for e in lw]}, '
                 f'copies (source, count, destination index)={[(contracts.render(c[0], st, {})[:40], c[1], c[2]) for c in copies]}', loc=mf['loc'], fn=mf['id'])
    ck.check(R2, 'make_string returns header', all(k == 'return' and find(v, lambda t: named_call(t, 'allocate')) is not None for st, k, v in S3.run(mf['id'])),
             'make_string does not return the allocated header', loc=mf['loc'], fn=mf['id'])

    # ---------------------------------------------------------------- write footprint of the callers of allocate
    R2b = ck.rule('C03.write-footprint', 'a function that fills a header obtained from allocate(A) writes the length field and '
                  'data[0 .. A) only: every write and bulk copy through the header is placed as an affine function of the length '
                  'parameter and compared with A for every length (no byte beyond what allocate guarantees, e.g. an extra terminator)', floor=1)
    import arena
    for fid, loc, inst, ok, msg in arena.footprint(F):
        ck.check(R2b, inst, ok, msg, loc=loc, fn=fid)

    # ---------------------------------------------------------------- bounded write (E8)
    AB = arena_bounds(ck, F)
    S4, af, NH, F_STORAGE, srec = AB['S4'], AB['af'], AB['NH'], AB['F_STORAGE'], AB['srec']

    # ---------------------------------------------------------------- immutability
    R4 = ck.rule('C03.immutable', 'a String\'s view is const, the only writes through a util::string are in make_string, buckets are '
                 'reference-stable lists and the arena releases storage only in its destructor', floor=4)
    srec2 = F.need_rec('ipr::impl::String')
    txt = [fl for fl in srec2['fields'] if 'basic_string_view' in fl['t'] or 'word_view' in fl['t']]
    ck.check(R4, 'String view const', len(txt) == 1 and txt[0]['const'] and not txt[0]['mutable'], 'the character view held by impl::String is not a const member', loc=srec2['loc'])
    writers = set()
    for g2 in F.fn.values():
        for n in walk(g2.get('body')):
            if n.get('k') == 'binop' and n.get('op') == '=':
                lhs = strip_casts(n['l'])
                if lhs.get('k') == 'member' and lhs.get('cls') == 'ipr::util::string':
                    writers.add(g2['id'])
    ck.check(R4, 'writers of util::string', writers <= {MKSTR}, f'util::string objects are written in {sorted(writers)}', loc=srec['loc'])
    sp = F.need_rec('ipr::util::string_pool')
    # where the String nodes live (a base or a data member of the pool): a reference-stable sequence per bucket
    homes = [b['name'] for b in sp['bases']] + [fl['t'] for fl in sp['fields']]
    holders = [h for h in homes if 'ipr::impl::String' in h]
    stable = [h for h in holders if any(k + '<ipr::impl::String' in h for k in ('forward_list', 'std::list', 'list', 'deque'))
              and not any(k + '<ipr::impl::String' in h for k in ('vector', 'basic_string'))]
    ck.check(R4, 'bucket kind', bool(holders) and len(stable) == len(holders),
             f'string_pool keeps its String nodes in {[h[:100] for h in holders]}: not (only) reference-stable sequences', loc=sp['loc'])
    dels = set()
    for g2 in F.fn.values():
        if not (g2.get('parent') or '').startswith('ipr::util::string'):
            continue
        for n in walk(g2.get('body')):
            if n.get('k') == 'call' and (n.get('callee') or {}).get('name') in ('operator delete', 'free'):
                dels.add(g2['id'])
            if n.get('k') == 'delete':
                dels.add(g2['id'])
    ck.check(R4, 'release only in destructor', all(F.fn[d2].get('dtor') for d2 in dels) and bool(dels),
             f'arena storage is released in {sorted(dels)}', loc=srec['loc'])

    # ---------------------------------------------------------------- reserved words
    R5 = ck.rule('C03.reserved-words', 'the reserved-word table is strictly increasing in byte order (the order its binary search uses) '
                 'and a hit is confirmed by an equality test', floor=2)
    kw = [g2 for g2 in F.globals if g2['name'] == 'known_words']
    if not kw:
        raise AnalysisBroken('known_words not found')
    rows = []
    for e in (kw[0].get('init') or {}).get('elts', []):
        lits = [n for n in walk(e) if n.get('k') == 'lit' and n.get('lt') == 'str']
        rows.append(bytes(lits[0]['bytes']) if len(lits) == 1 else None)
    bad = [i for i in range(1, len(rows)) if rows[i] is None or rows[i - 1] is None or not rows[i - 1] < rows[i]]
    ck.check(R5, 'known_words sorted', len(rows) >= 50 and not bad and all(rows), f'known_words rows out of order at {bad[:4]}', loc=kw[0]['loc'],
             detail={'rows': len(rows)})
    wk = [g2 for g2 in F.fn.values() if g2['name'] == 'word_if_known']
    if not wk:
        raise AnalysisBroken('word_if_known not found')
    body = wk[0]['body']
    # recognised search idioms over the *whole* sorted table (each sound for every word, given a strict `<` on the text):
    #   A  lower_bound(table, w, lt), then the hit is confirmed by an equality test on the text (and the end is excluded)
    #   B  equal_range(table, w, lt2), null exactly when the range is empty
    def whole_table(call):
        # [begin(known_words), end(known_words)), the two ends possibly kept in locals that are never reassigned
        from facts import through_locals
        args2 = [through_locals(wk[0], a) for a in (call.get('args') or [])[:2]]
        return sum(1 for a in args2 for n in walk(a) if n.get('k') == 'ref' and n.get('name') == 'known_words') >= 2
    algos = [n for n in walk(body) if n.get('k') == 'call' and (n.get('callee') or {}).get('name') in ('lower_bound', 'equal_range')
             and (n.get('callee') or {}).get('repo') is False]
    idiom, over, confirm = None, False, False
    cmp_cls = None
    projected = False
    #   C  std::ranges::lower_bound / equal_range(table, w, less, &row::text): rows ordered by `<` on their projected text
    ralgos = [n for n in walk(body) if n.get('k') == 'call' and ((n.get('callee') or {}).get('parent') or '') in
              ('std::ranges::__lower_bound_fn', 'std::ranges::__equal_range_fn')]
    if not algos and len(ralgos) == 1:
        a0 = ralgos[0]
        a0 = dict(a0, callee=dict(a0['callee'], name='lower_bound' if 'lower' in a0['callee']['parent'] else 'equal_range'))
        cargs = a0.get('args', [])
        rng_ok = bool(cargs) and strip_casts(cargs[0]).get('k') == 'ref' and strip_casts(cargs[0]).get('name') == 'known_words'
        cmp_ok = len(cargs) >= 4 and any(x in (cargs[2].get('t') or '') + str(strip_casts(cargs[2]).get('t')) for x in ('ranges::less', 'std::less'))
        prj_ok = len(cargs) >= 4 and any(m.get('k') == 'ref' and m.get('kind') == 'fn' and (m.get('fn') or {}).get('name') == 'text' for m in walk(cargs[3]))
        if rng_ok and cmp_ok and prj_ok:
            projected = True
            algos = [dict(a0, args=[])]
    if len(algos) == 1:
        a0 = algos[0]
        idiom = a0['callee']['name']
        over = whole_table(a0) or projected
        cargs = a0.get('args', [])
        if len(cargs) == 4:
            ct = strip_casts(cargs[3])
            cmp_cls = (ct.get('cls') or ct.get('t') or '').replace('const ', '').replace('&', '').replace('(anonymous namespace)', '(anon)').strip()
            if not cmp_cls or cmp_cls not in F.rec:
                # a lambda variable: its closure type is the parent of the call operator it names
                refs = [n for n in walk(cargs[3]) if n.get('k') in ('ref', 'lambda', 'ctor')]
                for r in refs:
                    for t in (r.get('cls'), r.get('t')):
                        t = (t or '').replace('const ', '').replace('&', '').replace('(anonymous namespace)', '(anon)').strip()
                        if t in F.rec:
                            cmp_cls = t
        if idiom == 'lower_bound':
            neq = any(n.get('k') == 'call' and (n.get('callee') or {}).get('name') in ('operator!=', 'operator==') and
                      any(m.get('k') == 'ref' and m.get('kind') == 'parm' for m in walk(n)) and any((m.get('callee') or {}).get('name') == 'text' for m in walk(n) if m.get('k') == 'call')
                      for n in walk(body))
            endt = any(n.get('k') == 'binop' and n.get('op') in ('>=', '==', '!=', '<') for n in walk(body))
            confirm = neq and endt
        else:
            # first == last  <=>  no equivalent row
            confirm = any(n.get('k') == 'binop' and n.get('op') in ('==', '!=') and len([m for m in walk(n) if m.get('k') == 'ref' and m.get('kind') in ('local', 'binding')]) >= 2
                          for n in walk(body))
    ck.check(R5, 'word_if_known', bool(idiom) and over and confirm,
             f'word_if_known: search idiom={idiom}, over the whole table={over}, hit confirmed / empty range excluded={confirm}', loc=wk[0]['loc'], fn=wk[0]['id'])
    # the ordering used by the search: every call operator of the comparator is `text of the row < word` (or the mirror image)
    ops = [g2 for g2 in F.fn.values() if g2['name'] == 'operator()' and len(g2['params']) == 2 and
           ((cmp_cls and g2.get('parent') == cmp_cls) or (not cmp_cls and g2.get('lambda_call') and '(lambda word_lt)' in g2['id']))]
    good = bool(ops) or projected
    S6 = Sym(F, opaque=lambda fid: F.fn.get(fid) is None)
    for g2 in ops:
        try:
            o6 = S6.run(g2['id'], this=('sym', 'cmp'), args=[('param', 0), ('param', 1)])
        except Unsupported:
            good = False
            continue
        ok1 = False
        if len(o6) == 1 and o6[0][1] == 'return':
            v = o6[0][2]
            if isinstance(v, tuple) and v[:2] == ('op', '<') and len(v) == 4 and isinstance(v[3], tuple) and v[3][:2] == ('k', 0):
                v = ('call', 'std::operator<', None, (v[2], v[3]))      # `(a <=> b) < 0`, the comparison category test evaluated
            if isinstance(v, tuple) and v[0] == 'call' and contracts.fn_simple(v[1]) == 'operator<' and len(v[3]) == 2:
                l, r = v[3]
                if isinstance(l, tuple) and l[0] == 'call' and contracts.fn_simple(l[1]) == 'operator<=>' and len(l[3]) == 2:
                    l, r = l[3]          # C++20: a < b is (a <=> b) < 0

                def roots(t, acc):
                    if isinstance(t, tuple):
                        if t and t[0] == 'param':
                            acc.add(t[1])
                        else:
                            for x in t:
                                roots(x, acc)
                    return acc
                # left operand from the first argument, right operand from the second; one is the word itself, the other the
                # text of the row
                ok1 = roots(l, set()) == {0} and roots(r, set()) == {1} and ((l == ('param', 0)) != (r == ('param', 1)))
        good = good and ok1
    ck.check(R5, 'word_lt', good, 'the comparator of the reserved-word search is not `text of the row < word` in the order of its arguments', loc=wk[0]['loc'])


def subterms(t):
    if isinstance(t, tuple):
        yield t
        for x in t:
            yield from subterms(x)


def linear_free(t, var):
    """True if the only dependence of t on anything is through std::hash(var) (bucket selected by the hash of w only)."""
    bad = [x for x in subterms(t) if isinstance(x, tuple) and x and x[0] in ('param', 'fld', 'sym') and x != var
           and not (x[0] == 'sym')]
    return not bad
