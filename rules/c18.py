"""C18 -- printing terminates and leaves the stream and the printer as it found them."""
from facts import AnalysisBroken, walk, strip_casts
from symex import Sym, State, Unsupported
import json
import contracts
import ppgraph

LEVEL = 'other'
TITLE = 'C18 printing terminates and leaves the stream and the printer as it found them'

LOGIC_DERIVED = {'std::logic_error', 'std::domain_error', 'std::invalid_argument', 'std::length_error', 'std::out_of_range'}
STICKY = {'std::oct', 'std::hex', 'std::dec', 'std::showbase', 'std::noshowbase', 'std::boolalpha', 'std::noboolalpha',
          'std::showpos', 'std::noshowpos', 'std::uppercase', 'std::nouppercase', 'std::showpoint', 'std::noshowpoint',
          'std::fixed', 'std::scientific', 'std::hexfloat', 'std::defaultfloat', 'std::left', 'std::right', 'std::internal',
          'std::skipws', 'std::noskipws', 'std::unitbuf', 'std::nounitbuf', 'std::setbase', 'std::setfill',
          'std::setprecision', 'std::setiosflags', 'std::resetiosflags'}
STREAM_STATE_METHODS = {'flags', 'setf', 'unsetf', 'precision', 'fill', 'imbue', 'copyfmt'}
PRINTER_FILES = ('src/io.cxx', 'include/ipr/io')


def sticky_in(f):
    """sticky manipulators inserted / formatting-state setters called in one function (shared with C17)"""
    sticky = []
    for n in walk(f.get('body')):
        if n.get('k') == 'ref' and n.get('kind') == 'fn':
            q = (n['fn'].get('q') or '').split('<')[0]
            if q in STICKY:
                sticky.append(q)
        if n.get('k') == 'call':
            c = n.get('callee') or {}
            if c.get('name') in STREAM_STATE_METHODS and (c.get('parent') or '').startswith(('std::ios_base', 'std::basic_ios', 'std::basic_ostream')):
                sticky.append(c['q'].split('<')[0].split('::')[-1] + '()')
            q = (c.get('q') or '').split('<')[0]
            if q in STICKY:
                sticky.append(q)
    return sticky


def printer_functions(F):
    return [f for f in F.fn.values() if f['loc'].split(':')[0] in PRINTER_FILES]


from symex import linear_form as _linear


def ppgraph_subterms(t):
    if isinstance(t, tuple):
        yield t
        for x in t:
            yield from ppgraph_subterms(x)


def run(ck, F):
    ck.explanation = (
        'Termination: every public printer entry (xpr_expr, xpr_type, xpr_stmt, xpr_decl) is executed symbolically on '
        'a fully wired abstract object of every concrete expression class the factories or the process constants can '
        'produce; accept/visit are resolved through the final-overrider tables of the printer visitor in use, default '
        'hooks and identity links (a composite type is named by a Type_id built from itself) included.  Re-entering '
        'the same function with the same node is unbounded recursion for every such node on any graph; operands are '
        'symbolic and end the walk (structural recursion on proper sub-nodes).  Stream state, constant bytes and '
        'indentation are decided on the same executions and by a scan of every function of the printer.')
    ck.assume('recursion through cyclic data (a graph containing itself) and stack depth on deep acyclic graphs are runtime '
              'quantities and not decided')
    S = Sym(F, opaque=ppgraph.printer_opaque(F), max_depth=160, max_paths=400)
    S.recursion_guard = True
    nodes = ppgraph.wired_nodes(F)
    ents = ppgraph.entries(F)
    R1 = ck.rule('C18.no-dispatch-cycle', 'offered to a printer entry, a node of any concrete class is never handed back to the '
                 'same function (directly, through default hooks, parenthesise-and-redispatch, or through its own Type_id)', floor=500)
    R1b = ck.rule('C18.refusal-is-logic-error', 'whatever a printer entry throws for a node it does not support derives from '
                  'std::logic_error', floor=300)
    R4 = ck.rule('C18.indentation-balanced', 'after printing a complete declaration or statement the pending indentation is back '
                 'where it started, on every path (nested statements assumed balanced: induction)', floor=200)
    n_runs = 0
    # the indentation counter: the int member that Printer::indent(int) adjusts
    ind = [f for f in F.fns_in('ipr::Printer') if f['name'] == 'indent' and len(f['params']) == 1]
    written = {strip_casts(n.get('l') or {}).get('name') for f in ind for n in walk(f.get('body')) if n.get('k') == 'binop' and n.get('op') in ('+=', '=', '-=')}
    written.discard(None)
    if len(written) != 1:
        raise AnalysisBroken(f'Printer::indent(int) adjusts {sorted(written)}: one indentation counter expected')
    indent_fld = ('fld', ppgraph.PRINTER, written.pop())
    classes = 0
    variants = []
    for cls, ifc, st, obj, prov in nodes:
        variants.append((cls, ifc, st, obj, prov, ''))
        s2 = ppgraph.completed(st, obj)
        if s2 is not None:
            variants.append((cls, ifc, s2, obj, prov, '+links'))
    for cls, ifc, st, obj, prov, tag in variants:
        if not F.derives_from(cls, 'ipr::Expr'):
            continue
        classes += 1
        label = (contracts.short(ifc) if ifc else '?') + '[' + contracts.short(cls) + tag + ppgraph.variant_tag(prov) + ']'
        for kind, fn in sorted(ents.items()):
            if kind == 'xpr_type' and not F.derives_from(cls, 'ipr::Type'):
                continue
            n_runs += 1
            inst = f'{kind}({label})'
            status, res = ppgraph.run_entry(F, S, fn, st, obj)
            if status == 'unsupported':
                raise AnalysisBroken(f'{inst}: outside the evaluator language: {res}')
            if status == 'cycle':
                cyc = [contracts.short(contracts.fn_qname(x)) for x in res]
                ck.fail(R1, inst, f'printing a {contracts.short(ifc or cls)} with {kind} recurses without bound: ' + ' -> '.join(cyc),
                        loc=F.fn[res[-1]]['loc'] if res[-1] in F.fn else None, fn=res[-1], detail={'cycle': res, 'built_by': prov})
                continue
            ck.ok(R1, inst, detail={'outcomes': sorted({k for _s, k, _v in res})})
            bad = sorted({v for _s, k, v in res if k == 'throw' and v not in LOGIC_DERIVED})
            ck.check(R1b, inst, not bad, f'{inst} can throw {bad}', loc=fn['loc'], fn=fn['id'])
            if kind in ('xpr_stmt', 'xpr_decl'):
                drift = []
                for s2, k, v in res:
                    if k != 'return':
                        continue
                    fin = s2.symstore.get(indent_fld, indent_fld)
                    if _linear(fin) != _linear(indent_fld):
                        drift.append(contracts.render(fin, s2, {}))
                ck.check(R4, inst, not drift, f'{inst}: pending indentation ends at {sorted(set(drift))} instead of its initial value',
                         loc=fn['loc'], fn=fn['id'])
    ck.extra['printer_runs'] = n_runs
    ck.extra['classes'] = classes

    # ---------------------------------------------------------------- stream state
    R2 = ck.rule('C18.no-sticky-state', 'no function of the printer inserts a sticky manipulator or alters the stream\'s '
                 'formatting state', floor=150)
    R3 = ck.rule('C18.constant-bytes', 'every character / string constant in the printer that can reach the stream is printable '
                 'ASCII or a newline', floor=150)
    pf = printer_functions(F)
    if len(pf) < 150:
        raise AnalysisBroken(f'only {len(pf)} printer functions found')
    for f in sorted(pf, key=lambda f: f['id']):
        inst = contracts.short(contracts.fn_qname(f['id'])) + '/' + str(len(f['params']))
        if f.get('lambda_call'):
            inst += '@' + f['loc'].split(':')[-1] if False else ''
        sticky = []
        for n in walk(f.get('body')):
            if n.get('k') == 'ref' and n.get('kind') == 'fn':
                q = (n['fn'].get('q') or '').split('<')[0]
                if q in STICKY:
                    sticky.append(q)
            if n.get('k') == 'call':
                c = n.get('callee') or {}
                if c.get('name') in STREAM_STATE_METHODS and (c.get('parent') or '').startswith(('std::ios_base', 'std::basic_ios', 'std::basic_ostream')):
                    sticky.append(c['q'].split('<')[0].split('::')[-1] + '()')
                q = (c.get('q') or '').split('<')[0]
                if q in STICKY:
                    sticky.append(q)
        ck.check(R2, f['id'], not sticky, f'{f["id"]} alters the stream state with {sorted(set(sticky))}: every later number is printed '
                 'in that base / format', loc=f['loc'], fn=f['id'])
        # constants: literals outside throw expressions
        in_throw = set()
        for n in walk(f.get('body')):
            if n.get('k') == 'throw':
                for m in walk(n):
                    in_throw.add(id(m))
        bad = []
        for n in walk(f.get('body')):
            if id(n) in in_throw or n.get('k') != 'lit':
                continue
            if n.get('lt') == 'str':
                b = n.get('bytes', [])
                if any((x < 0x20 and x != 0x0a) or x >= 0x7f for x in b):
                    bad.append('string ' + repr(bytes(b)))
            elif n.get('lt') == 'char':
                x = int(n['cv'])
                if (x < 0x20 and x != 0x0a) or x >= 0x7f:
                    # character constants used as case labels / comparisons never reach the stream
                    bad.append(None)
        bad = [b for b in bad if b]
        ck.check(R3, f['id'], not bad, f'{f["id"]} holds constant(s) {bad} that reach the stream as control bytes', loc=f['loc'], fn=f['id'])
    # single characters picked out of a table of strings (the two delimiters of an enclosure): for every row that can be selected
    # there, the position exists in the row and holds a printable byte (an empty row yields its terminator, a NUL)
    R3t = ck.rule('C18.table-characters', 'a character read at a constant position from a row of a constant table of strings, the row being '
                  'selected by an enumeration value, is a printable byte of that row for every enumerator that is not excluded by an '
                  'earlier test-and-return on that value: no row is too short for the position (its terminator, or padding, is a NUL)', floor=1)
    from facts import local_init as _local_init

    def _bare8(x):
        if isinstance(x, dict):
            if x.get('k') == 'cast':
                return _bare8(x.get('e'))
            if x.get('k') == 'call' and len(x.get('args') or []) == 1 and (x.get('callee') or {}).get('name') in ('rep', 'to_underlying'):
                return _bare8(x['args'][0])
            return tuple(sorted((k, _bare8(v)) for k, v in x.items() if k not in ('ln', 't', 'col')))
        if isinstance(x, list):
            return tuple(_bare8(v) for v in x)
        return x

    def _enum_t(x):
        for _ in range(4):
            t = (x.get('t') or '').replace('const ', '').strip()
            if t in F.enums:
                return t
            if x.get('k') == 'cast':
                x = x.get('e') or {}
            elif x.get('k') == 'call' and len(x.get('args') or []) == 1:
                x = x['args'][0]
            else:
                break
        return None
    def _sc8(x):
        while isinstance(x, dict) and x.get('k') == 'cast':
            x = x.get('e')
        return x or {}
    tables8 = {g['q']: g for g in F.globals if g['loc'].split(':')[0] in PRINTER_FILES and 'init' in g and (g.get('init') or {}).get('k') == 'initlist'}
    n_tc = 0
    for f in sorted(pf, key=lambda f: f['id']):
        dom8 = None
        for n in walk(f.get('body')):
            if n.get('k') != 'index' or 'cv' not in _sc8(n.get('idx') or {}):
                continue
            j = int(_sc8(n['idx'])['cv'])
            row = _sc8(n.get('base') or {})
            if row.get('k') == 'ref' and row.get('kind') == 'local':
                row = _sc8(_local_init(f, row) or {})
            if row.get('k') != 'index':
                continue
            tab = _sc8(row.get('base') or {})
            g = tables8.get((tab.get('q') or '').replace('(anonymous namespace)', '(anon)')) or next((g_ for g_ in tables8.values() if g_['name'] == tab.get('name') and g_.get('in_function', f['id']) == f['id']), None)
            if g is None:
                continue
            rows8 = []
            for e_ in g['init'].get('elts', []):
                lits = [x for x in walk(e_) if x.get('k') == 'lit' and x.get('lt') == 'str']
                rows8.append(bytes(lits[0].get('bytes', [])) if len(lits) == 1 else None)
            sel = row.get('idx') or {}
            en = _enum_t(sel)
            if dom8 is None:
                import domguards as _dg
                dom8 = _dg.dominating(f)
            cand = list(range(len(rows8)))
            if en is not None:
                vals = sorted(int(x['value']) for x in F.enums[en].get('enumerators', []))
                cand = [v for v in vals]
                # enumerators excluded by the conditions that dominate the read (a test-and-return before it, the branch it sits in)
                for c, truth in dom8.get(id(n), []):
                    c = _sc8(c)
                    ops, eq = None, None
                    if c.get('k') == 'binop' and c.get('op') in ('==', '!='):
                        ops, eq = (c.get('l'), c.get('r')), c['op'] == '=='
                    elif c.get('k') == 'call' and (c.get('callee') or {}).get('name') in ('operator==', 'operator!=') and len(c.get('args') or []) == 2:
                        ops, eq = tuple(c['args']), c['callee']['name'] == 'operator=='
                    if ops:
                        for a_, b_ in (ops, ops[::-1]):
                            if _bare8(a_) == _bare8(sel) and 'cv' in _sc8(b_ or {}):
                                K_ = int(_sc8(b_)['cv'])
                                cand = [v for v in cand if (v == K_) == (eq == truth)]
            n_tc += 1
            bad = []
            for v in cand:
                if not (0 <= v < len(rows8)) or rows8[v] is None:
                    continue
                b = rows8[v]
                if j >= len(b):
                    bad.append(f'row {v} ({b!r}) has no character at position {j}: its terminator / padding (NUL) is printed')
                elif (b[j] < 0x20 and b[j] != 0x0a) or b[j] >= 0x7f:
                    bad.append(f'row {v} holds the control byte {b[j]:#x} at position {j}')
            ck.check(R3t, f'{contracts.short(contracts.fn_qname(f["id"]))}:{g["name"]}[..][{j}]', not bad,
                     f'{f["id"]} (line {n.get("ln")}): ' + '; '.join(bad[:2]), loc=f['loc'], fn=f['id'])
    if n_tc == 0:
        ck.check(R3t, 'inventory', True, 'no character is picked out of a table row in the printer')

    # unformatted output with an explicit extent: write(buffer, n) / put(c) on the stream or its buffer
    c_string_insertions(ck, F, 'C18')
    loop_counters(ck, F, 'C18')
    small_integer_insertions(ck, F, 'C18')
    R5 = ck.rule('C18.explicit-extent-writes', 'an unformatted write of the printer (ostream::write / put, streambuf::sputn / sputc) takes its '
                 'bytes from a whole character view (data() and size() of the same object: a spelling of the graph) or from a constant '
                 'whose bytes up to the largest extent the call can ask for are printable: no terminating NUL or control byte reaches the '
                 'stream through an extent that is too large', floor=150)
    gl = {g['q']: g for g in F.globals}

    def strip_all(e):
        # here every cast is transparent: array-to-pointer decay, integral widening of an extent, reads
        while isinstance(e, dict) and e.get('k') == 'cast' and 'e' in e and e.get('explicit') != 'reinterpret':
            e = e['e']
        return e

    def const_bytes(e):
        """bytes of a constant character array an expression designates (with its terminating NUL), or None"""
        e = strip_all(e)
        if e.get('k') == 'lit' and e.get('lt') == 'str':
            return list(e.get('bytes', [])) + [0]
        if e.get('k') == 'ref' and e.get('kind') == 'global':
            g = gl.get(e.get('q'))
            if g is not None and g.get('const') and 'init' in g:
                lits = [m for m in walk(g['init']) if m.get('k') == 'lit' and m.get('lt') == 'str']
                if len(lits) == 1:
                    return list(lits[0].get('bytes', [])) + [0]
        if e.get('k') in ('addr', 'unop') and e.get('op') in (None, '&') and 'e' in e:
            inner = strip_all(e['e'])
            if inner.get('k') == 'index':
                base = const_bytes(inner.get('base') or inner.get('e') or {})
                idx = strip_all(inner.get('idx') or inner.get('i') or {})
                if base is not None and str(idx.get('cv')) == '0':
                    return base
        return None

    def upper(e):
        """largest value an extent expression can take, when the expression says so (a constant, min with a constant)"""
        e0 = e
        e = strip_all(e)
        for x in (e0, e):
            if 'cv' in x:
                try:
                    return int(x['cv'])
                except (TypeError, ValueError):
                    pass
        if e.get('k') == 'call' and (e.get('callee') or {}).get('name') == 'min' and (e['callee'].get('q') or '').startswith('std::min'):
            bs = [upper(a) for a in e.get('args', [])[:2]]
            bs = [b for b in bs if b is not None]
            return min(bs) if bs else None
        if e.get('k') == 'cond':
            a, b = upper(e.get('then') or {}), upper(e.get('else') or {})
            return max(a, b) if a is not None and b is not None else None
        return None

    def whole_view(buf, n, fn=None):
        from facts import local_init as _li

        def through(e):
            # every cast is transparent for this question (a char8_t* read as char* designates the same bytes), and a local that is
            # never reassigned stands for its initialiser
            for _ in range(6):
                while isinstance(e, dict) and e.get('k') in ('cast', 'paren') and 'e' in e:
                    e = e['e']
                if isinstance(e, dict) and e.get('k') == 'ref' and e.get('kind') == 'local' and fn is not None:
                    i = _li(fn, e)
                    if i is None:
                        break
                    e = i
                else:
                    break
            return e or {}

        def key(e):
            e = through(e)
            if e.get('k') == 'ref':
                return ('ref', e.get('kind'), e.get('id', e.get('idx')), e.get('name'))
            return json.dumps(e, sort_keys=True, default=str) if e else None
        b, m = through(buf), through(n)
        if b.get('k') == 'call' and m.get('k') == 'call' and (b.get('callee') or {}).get('name') in ('data', 'begin', 'c_str') \
                and (m.get('callee') or {}).get('name') in ('size', 'length'):
            rb, rm = b.get('obj'), m.get('obj')
            return rb is not None and rm is not None and key(rb) == key(rm)
        return False
    _dom5 = {}
    for f in sorted(pf, key=lambda f: f['id']):
        bad = []
        for n in walk(f.get('body')):
            if n.get('k') != 'call':
                continue
            c = n.get('callee') or {}
            par = c.get('parent') or ''
            if not (c.get('name') in ('write', 'put', 'sputn', 'sputc') and par.startswith(('std::basic_ostream<', 'std::basic_streambuf<', 'std::ostream', 'std::streambuf'))):
                continue
            a = n.get('args', [])
            if c['name'] in ('put', 'sputc'):
                x = upper(a[0]) if a else None
                if x is None:
                    raise AnalysisBroken(f'{f["id"]}: {c["name"]} of a byte that is not a constant (line {n.get("ln")})')
                if (x < 0x20 and x != 0x0a) or x >= 0x7f:
                    bad.append(f'{c["name"]}({x}) at line {n.get("ln")}')
                continue
            if len(a) != 2:
                raise AnalysisBroken(f'{f["id"]}: {c["name"]} with {len(a)} arguments')
            if whole_view(a[0], a[1], f):
                continue
            cb = const_bytes(a[0])
            ub = upper(a[1])
            if cb is not None and ub is None:
                # an extent computed at run time: bounded only by the tests that dominate the call
                import domguards as _dg
                if f['id'] not in _dom5:
                    _dom5[f['id']] = _dg.dominating(f)
                ext = strip_all(a[1])
                key5 = lambda x: (x.get('k'), x.get('kind'), x.get('id', x.get('idx')), x.get('name')) if isinstance(x, dict) and x.get('k') == 'ref' else None
                for c5, truth in _dom5[f['id']].get(id(n), []):
                    c5 = strip_all(c5)
                    if c5.get('k') != 'binop' or c5.get('op') not in ('<', '<=', '>', '>='):
                        continue
                    l5, r5, op5 = strip_all(c5['l']), strip_all(c5['r']), c5['op']
                    if not truth:
                        op5 = {'<': '>=', '<=': '>', '>': '<=', '>=': '<'}[op5]
                    if key5(l5) is not None and key5(l5) == key5(ext) and upper(c5['r']) is not None and op5 in ('<', '<='):
                        b5 = upper(c5['r']) - (1 if op5 == '<' else 0)
                        ub = b5 if ub is None else min(ub, b5)
                    if key5(r5) is not None and key5(r5) == key5(ext) and upper(c5['l']) is not None and op5 in ('>', '>='):
                        b5 = upper(c5['l']) - (1 if op5 == '>' else 0)
                        ub = b5 if ub is None else min(ub, b5)
                if ub is None:
                    bad.append(f'{c["name"]} of a number of bytes computed at run time (line {n.get("ln")}) from a constant of {len(cb) - 1} characters: nothing '
                               'keeps the count within the constant, the write reads past it')
                    continue
            if cb is None or ub is None:
                raise AnalysisBroken(f'{f["id"]}: unformatted {c["name"]} at line {n.get("ln")} whose buffer is not a constant / whole view, or '
                                     'whose extent has no constant upper bound: outside the recognised forms')
            if ub > len(cb):
                bad.append(f'{c["name"]} of up to {ub} bytes from a constant of {len(cb) - 1} characters (line {n.get("ln")}): reads past the constant')
            else:
                ctl = [x for x in cb[:ub] if (x < 0x20 and x != 0x0a) or x >= 0x7f]
                if ctl:
                    bad.append(f'{c["name"]} of up to {ub} bytes from a constant of {len(cb) - 1} characters (line {n.get("ln")}): the bytes '
                               f'{sorted(set(ctl))} (terminating NUL included) reach the stream')
        # a character view built with an explicit count over an array of characters: the count must stop short of the array's last
        # element (the terminating NUL of the literal the array is)
        import re as _re
        roots = [f.get('body')] + [i.get('e') for i in f.get('inits', [])]
        for root in roots:
            for n in walk(root):
                if n.get('k') != 'ctor' or len(n.get('args', [])) != 2:
                    continue
                if not (n.get('cls') or n.get('t') or '').replace('const ', '').startswith('std::basic_string_view<'):
                    continue
                a0 = strip_all(n['args'][0])
                m = _re.search(r'\[(\d+)\]', a0.get('t') or '')
                cnt = upper(n['args'][1])
                if m and cnt is not None and 'char' in (a0.get('t') or '') and cnt >= int(m.group(1)):
                    bad.append(f'a character view of {cnt} elements over an array of {m.group(1)} (line {n.get("ln")}): the terminating NUL of the '
                               'literal is part of the view and is written with it')
        ck.check(R5, f['id'], not bad, f'{f["id"]}: ' + '; '.join(bad), loc=f['loc'], fn=f['id'])

    # a refusal must be able to leave the printer: no noexcept function between an entry and a throw site
    R6 = ck.rule('C18.refusal-propagates', 'no function of the printer that is declared noexcept can reach (through calls, virtual calls '
                 'expanded to every overrider) a function that throws: the std::logic_error raised for an unsupported construct leaves the '
                 'printer as an exception, it never ends the program in std::terminate', floor=150)
    import c17
    throwers = {g['id'] for g in F.fn.values() if any(n.get('k') == 'throw' for n in walk(g.get('body')))}
    for f in sorted(pf, key=lambda f: f['id']):
        if not f.get('noexcept'):
            ck.ok(R6, f['id'])
            continue
        seen, _edges = c17.reachable(F, [f['id']])
        hit = sorted(seen & throwers)
        ck.check(R6, f['id'], not hit, f'{f["id"]} is declared noexcept but reaches {len(hit)} function(s) that throw (e.g. '
                 f'{[contracts.short(contracts.fn_qname(h)) for h in hit[:3]]}): a refusal raised below it calls std::terminate instead of '
                 'reaching the caller as std::logic_error', loc=f['loc'], fn=f['id'])

    # a declaration that is *used* (as the initializer of another one) is printed by its name: printing it in full follows the
    # use back into a declaration, and two declarations that initialise each other (`int& a = b; int& b = a;`) never stop
    R8 = ck.rule('C18.used-declaration-by-name', 'printing a declaration whose initializer is itself a declaration node does not print that '
                 'second declaration in full (no nested request to the declaration / statement printer for it): the recursion of the printer '
                 'follows owned sub-nodes only, so a cycle of uses in the graph cannot make it run for ever', floor=4)
    ents8 = ppgraph.entries(F)
    full_entries = {ents8[k]['id'] for k in ('xpr_decl', 'xpr_stmt') if k in ents8}
    all_entries = {f_['id'] for f_ in ents8.values()}
    base8 = ppgraph.printer_opaque(F)
    S8 = Sym(F, opaque=lambda fid: fid in all_entries or base8(fid), max_depth=64)
    used_cls = next((c for c in sorted(F.rec) if c.startswith('ipr::impl::decl_rep<') and c.endswith('Var>') and not F.rec[c]['abstract']), None)
    if used_cls is None:
        raise AnalysisBroken('no concrete variable declaration class found (decl_rep<Var>)')
    n8 = 0
    for cls, ifc, st, obj, prov in nodes:
        if not F.derives_from(cls, 'ipr::Decl'):
            continue
        fo = F.final_overrider_by_name(cls, 'initializer')
        s2 = ppgraph.completed(st, obj)
        if not fo or s2 is None:
            continue
        try:
            iv = S8.run(fo[0], this=obj, args=[], state=s2.fork())
        except Unsupported:
            continue
        tgt = None
        for s3, k3, v3 in iv:
            if k3 == 'return':
                pool = [v3]
                if isinstance(v3, tuple) and v3[:1] == ('obj',) and v3[1] in s3.heap:
                    pool += list(s3.heap[v3[1]].fields.values())        # an Optional handed back by value: what it holds
                for t in (x for p_ in pool for x in ppgraph_subterms(p_)):
                    if isinstance(t, tuple) and t[:1] == ('param',) and isinstance(t[1], int) and t[1] >= 900:
                        tgt = t
        if tgt is None:
            continue
        used = s2.new_obj(used_cls)
        for o_ in s2.heap.values():
            for fn_, fv_ in list(o_.fields.items()):
                if fv_ == ('addr', tgt):
                    o_.fields[fn_] = ('addr', used)
        n8 += 1
        nested = []

        def record(target, recv, args, st2, nested=nested):
            if target in full_entries:
                nested.append((target, args, st2))
            return []
        S8.opaque_outcomes = record
        status, res = ppgraph.run_entry(F, S8, ents8['xpr_decl'], s2, obj)
        S8.opaque_outcomes = None
        label = (contracts.short(ifc) if ifc else '?') + '[' + contracts.short(cls) + ppgraph.variant_tag(prov) + ']'
        if status != 'ok':
            ck.note(f'used-declaration-by-name: {label}: {status} ({str(res)[:80]})')
            continue
        bad = set()
        for target, args, s4 in nested:
            arg = args[1] if len(args) > 1 else None
            node_ = s4.heap[arg[1]].fields.values() if isinstance(arg, tuple) and arg[:1] == ('obj',) and arg[1] in s4.heap else []
            if any(x in (used, ('addr', used)) or (isinstance(x, tuple) and x[:1] == ('castto',) and used in ppgraph_subterms(x)) for x in node_):
                bad.add(contracts.fn_simple(target) + '(' + contracts.short(F.fn[target]['params'][1]['t']) + ')')
        ck.check(R8, label, not bad, f'printing a {contracts.short(ifc or cls)} whose initializer is a declaration asks for that declaration to be printed in full '
                 f'({sorted(bad)}): with two declarations that initialise each other the printer never returns', loc=ents8['xpr_decl']['loc'], fn=ents8['xpr_decl']['id'])
    if n8 == 0:
        raise AnalysisBroken('no declaration class with a settable initializer link was found')

    # a refusal that is caught inside the printer: the pending indentation is adjusted by explicit, paired calls (not by scope
    # guards), so the exception leaves it wherever the nested printing had got to
    R7 = ck.rule('C18.refusal-keeps-indentation', 'a printer function that catches a refusal raised by nested printing and goes on (the '
                 'handler completes) returns with the pending indentation it started with: evaluated with every nested printing call able '
                 'to throw from an unknown nesting depth, one arbitrary application of each sequence functor included; the inventory '
                 'instance counts the try-blocks met', floor=1)
    tries = {}
    for f in pf:
        if any(n.get('k') == 'try' for n in walk(f.get('body'))):
            root = f['id']
            if '::(lambda' in root:
                root = root[:root.index('::(lambda')]
            tries.setdefault(root, []).append(f['id'])
    ck.check(R7, 'inventory', True, f'{len(tries)} printer function(s) contain a try-block')
    if tries:
        ents_ = ppgraph.entries(F)
        pf_ids = {f['id'] for f in pf}
        base_op = ppgraph.printer_opaque(F)
        entry_ids = {f['id'] for f in ents_.values()}
        St = Sym(F, opaque=lambda fid: fid in entry_ids or base_op(fid), max_depth=64)
        St.apply_functors = True
        HAVOC = ('sym', 'the indentation reached when the refusal was raised')

        def may_throw(target, recv, args, st2):
            if target in entry_ids or target in pf_ids:
                st2.throw = 'std::logic_error'
                st2.symstore[indent_fld] = HAVOC
                return [st2]
            return []
        St.opaque_outcomes = may_throw
        for root, inner in sorted(tries.items()):
            g = F.fn.get(root)
            if g is None or not g.get('body'):
                raise AnalysisBroken(f'{inner[0]}: enclosing function {root} not found')
            st0 = State()
            this = None
            if g.get('parent') and g['parent'] in F.rec and not g.get('static'):
                this = st0.new_obj(g['parent'])
                for c in [g['parent']] + F.ancestors(g['parent']):
                    for fl in (F.rec.get(c) or {}).get('fields', []):
                        if fl['t'].replace('const ', '').strip() in ('ipr::Printer &', 'ipr::Printer *'):
                            st0.heap[this[1]].fields[fl['name']] = ppgraph.PRINTER if fl['t'].rstrip().endswith('&') else ('addr', ppgraph.PRINTER)
            args = [ppgraph.PRINTER if p['t'].replace('const ', '').strip() == 'ipr::Printer &' else ('param', i) for i, p in enumerate(g['params'])]
            try:
                outs = St.run(root, this=this, args=args, state=st0)
            except Unsupported as e:
                raise AnalysisBroken(f'{root}: {e}')
            drift = []
            for s2, k, v in outs:
                if k != 'return':
                    continue
                fin = s2.symstore.get(indent_fld, indent_fld)
                if _linear(fin) != _linear(indent_fld):
                    drift.append(contracts.render(fin, s2, {})[:100])
            ck.check(R7, contracts.short(contracts.fn_qname(root)), not drift,
                     f'{root} catches a refusal (try-block in {[contracts.short(contracts.fn_qname(x)) for x in inner][:2]}) and returns normally '
                     f'with the pending indentation at `{sorted(set(drift))[:2]}` instead of its initial value: everything printed afterwards is shifted',
                     loc=g['loc'], fn=root)

    # static tables of the printer
    for g in F.globals:
        if g['loc'].split(':')[0] in PRINTER_FILES and 'init' in g:
            bad = []
            for n in walk(g['init']):
                if n.get('k') == 'lit' and n.get('lt') == 'str':
                    b = n.get('bytes', [])
                    if any((x < 0x20 and x != 0x0a) or x >= 0x7f for x in b):
                        bad.append(repr(bytes(b)))
            ck.check(R3, 'table ' + g['q'], not bad, f'table {g["q"]} holds {bad}: printed verbatim, these are control bytes',
                     loc=g['loc'])


def c_string_insertions(ck, F, prefix):
    """<prefix>.no-view-as-c-string: a formatted insertion of a `const char*` reads up to the next NUL; the code units of a word (a view
    into the string arena, the characters of a String) are not NUL-terminated, so such a pointer must never be inserted as a C string."""
    import firstunit
    R = ck.rule(f'{prefix}.no-view-as-c-string', 'no formatted insertion of a character pointer (`stream << p`, which reads up to the next NUL) '
                'takes its pointer from the data of a word view or of a String: those code units are not NUL-terminated (the bytes after them belong '
                'to the next word of the arena, or to nothing), so the text printed would depend on what was interned afterwards', floor=1)
    n = 0
    for f in sorted(F.fn.values(), key=lambda f: f['id']):
        if f['loc'].split(':')[0] not in PRINTER_FILES and not f['loc'].startswith(('src/', 'include/')):
            continue
        for m in walk(f.get('body')):
            if m.get('k') != 'call' or (m.get('callee') or {}).get('name') != 'operator<<' or (m.get('callee') or {}).get('repo') is not False:
                continue
            cid = m['callee'].get('id') or ''
            if 'const char *' not in cid and 'const char8_t *' not in cid and 'const signed char *' not in cid and 'const unsigned char *' not in cid:
                continue
            args = m.get('args') or []
            if len(args) < 2:
                continue
            n += 1
            e = args[1]
            while isinstance(e, dict) and e.get('k') in ('cast', 'paren') and 'e' in e:
                e = e['e']
            if e.get('k') == 'ref' and e.get('kind') == 'local':
                from facts import local_init as _li
                e = _li(f, e) or e
                while isinstance(e, dict) and e.get('k') in ('cast', 'paren') and 'e' in e:
                    e = e['e']
            bad = None
            if e.get('k') == 'call' and (e.get('callee') or {}).get('name') in ('data', 'begin', 'cbegin') and e.get('obj') is not None and firstunit._is_word(e['obj']):
                bad = f'{(e["callee"] or {}).get("name")}() of a {(e["obj"].get("t") or "").split("<")[0]}'
            elif e.get('k') == 'unop' and e.get('op') == '&':
                x = e.get('e') or {}
                while isinstance(x, dict) and x.get('k') in ('cast', 'paren') and 'e' in x:
                    x = x['e']
                if x.get('k') == 'call' and (x.get('callee') or {}).get('name') in ('operator[]', 'front', 'at') and x.get('obj') is not None and firstunit._is_word(x['obj']):
                    bad = f'the address of an element of a {(x["obj"].get("t") or "").split("<")[0]}'
            ck.check(R, f'{contracts.short(contracts.fn_qname(f["id"]))}:{m.get("ln")}', bad is None,
                     f'{f["id"]} (line {m.get("ln")}) inserts {bad} as a C string: the insertion runs on past the word until it meets a NUL',
                     loc=f['loc'], fn=f['id'])
    if n == 0:
        ck.check(R, 'inventory', True, '')


def loop_counters(ck, F, prefix):
    """<prefix>.loop-counter-wide-enough: a loop `for (v = ...; v <= bound; step v)` ends only if v can pass the bound.  When the bound is a
    value the client determines (a parameter, or a local computed from one) of a wider integer type than v, the bound can exceed every
    value of v: v wraps (a shifted or doubled unsigned counter reaches 0) and the loop never ends."""
    from symex import _INT_TYPES
    R = ck.rule(f'{prefix}.loop-counter-wide-enough', 'in every counting loop of the library whose bound is a run-time value taken from a parameter, the '
                'control variable is of an integer type at least as wide as the bound: a narrower counter wraps around before it passes a large '
                'bound (a shifted mask becomes 0) and the loop -- reached from the printer through the decomposition of specifier and qualifier '
                'sets -- never ends', floor=1)
    ALIAS = {'std::size_t': 'unsigned long', 'size_t': 'unsigned long', 'std::uintptr_t': 'unsigned long', 'uintptr_t': 'unsigned long',
             'std::ptrdiff_t': 'long', 'ptrdiff_t': 'long', 'std::uint32_t': 'unsigned int', 'std::uint64_t': 'unsigned long',
             'std::int32_t': 'int', 'std::int64_t': 'long', 'std::uint16_t': 'unsigned short', 'std::uint8_t': 'unsigned char'}

    def width(t):
        t = (t or '').replace('const ', '').replace('volatile ', '').strip().rstrip('&').strip()
        t = ALIAS.get(t, t)
        if t in F.enums:
            t = ALIAS.get(F.enums[t].get('underlying') or '', F.enums[t].get('underlying') or 'int')
        w = _INT_TYPES.get(t)
        return w[0] if w else None

    def bare(e):
        while isinstance(e, dict) and e.get('k') in ('cast', 'paren') and 'e' in e and e.get('explicit') is None:
            e = e['e']
        return e or {}

    def from_param(f, e, depth=0):
        """the value is a parameter, or computed from one without passing through a size / length observation"""
        e = bare(e)
        if e.get('k') == 'ref' and e.get('kind') == 'parm':
            return True
        if e.get('k') == 'ref' and e.get('kind') == 'local' and depth < 3:
            from facts import local_init
            i = local_init(f, e)
            return i is not None and from_param(f, i, depth + 1)
        if e.get('k') == 'call' and (e.get('callee') or {}).get('name') in ('rep', 'to_underlying') and len(e.get('args') or []) == 1:
            return from_param(f, e['args'][0], depth + 1)
        if e.get('k') == 'cast' and 'e' in e:
            return from_param(f, e['e'], depth + 1)
        return False
    n_loops = 0
    for f in sorted(F.fn.values(), key=lambda f: f['id']):
        if not f['loc'].startswith(('src/', 'include/')) or f.get('body') is None:
            continue
        for lp in walk(f['body']):
            if lp.get('k') not in ('for', 'while') or lp.get('c') is None:
                continue
            c = bare(lp['c'])
            if c.get('k') != 'binop' or c.get('op') not in ('<', '<=', '>', '>=', '!='):
                continue
            for vside, bside in ((c['l'], c['r']), (c['r'], c['l'])):
                v, b = bare(vside), bare(bside)
                if not (v.get('k') == 'ref' and v.get('kind') == 'local'):
                    continue
                if 'cv' in b or 'cv' in (bside or {}):
                    continue
                # is v stepped by the loop?
                stepped = any(m.get('k') in ('binop', 'unop') and (m.get('op') in ('+=', '-=', '*=', '<<=', '>>=', '/=') or '++' in (m.get('op') or '') or '--' in (m.get('op') or ''))
                              and bare(m.get('l') or m.get('e') or {}).get('k') == 'ref' and bare(m.get('l') or m.get('e') or {}).get('id') == v.get('id')
                              and bare(m.get('l') or m.get('e') or {}).get('name') == v.get('name')
                              for m in list(walk(lp.get('inc'))) + list(walk(lp.get('b'))))
                if not stepped or not from_param(f, b):
                    continue
                wv, wb = width(v.get('t')), width(b.get('t'))
                if wv is None or wb is None:
                    continue
                n_loops += 1
                ck.check(R, f'{contracts.short(contracts.fn_qname(f["id"]))}:{lp.get("ln")}', wv >= wb,
                         f'{f["id"]} (line {lp.get("ln")}): the loop runs `{v.get("name")}` ({v.get("t")}, {wv} bits) against `{b.get("name") or "a value"}` '
                         f'({b.get("t")}, {wb} bits) taken from a parameter: for a bound above the largest {wv}-bit value the counter wraps and the loop '
                         'never ends', loc=f['loc'], fn=f['id'])
    if n_loops == 0:
        ck.check(R, 'inventory', True, '')


def small_integer_insertions(ck, F, prefix):
    """<prefix>.no-small-integer-as-character: `stream << x` with x of type unsigned char / signed char (std::uint8_t, std::int8_t: the
    representation of a small enumeration) writes the *byte* x, not its digits -- a control byte for the small values such a type holds."""
    R = ck.rule(f'{prefix}.no-small-integer-as-character', 'no value of type unsigned char / signed char (std::uint8_t, std::int8_t -- the representation '
                'of a small enumeration, a count) is inserted into the stream or the printer as it is: the stream takes it for a character and writes '
                'one raw byte (0x01 for the value 1), not the number', floor=1)
    n = 0
    for f in sorted(F.fn.values(), key=lambda f: f['id']):
        if f['loc'].split(':')[0] not in PRINTER_FILES:
            continue
        for m in walk(f.get('body')):
            c = m.get('callee') or {}
            if m.get('k') != 'call' or c.get('name') != 'operator<<':
                continue
            cid = c.get('id') or ''
            hit = None
            for ty in ('unsigned char', 'signed char'):
                if cid.startswith(f'ipr::Printer::operator<<<{ty}>(') or (c.get('repo') is False and cid.endswith(f', {ty})') and 'basic_ostream' in cid):
                    hit = ty
            n += 1
            if hit is None:
                continue
            a = (m.get('args') or [{}])[-1]
            const = 'cv' in a or 'cv' in strip_casts(a)
            ck.check(R, f'{contracts.short(contracts.fn_qname(f["id"]))}:{m.get("ln")}', const and 0x20 <= int(a.get('cv', strip_casts(a).get('cv', 0))) < 0x7f,
                     f'{f["id"]} (line {m.get("ln")}) inserts a value of type {hit}: it is written as one raw byte, not as a number', loc=f['loc'], fn=f['id'])
    ck.check(R, 'inventory', n > 0, 'no insertion found in the printer files')
