"""C12 -- regions form a tree rooted at the global region; owners and positions are right."""
from facts import AnalysisBroken, walk, strip_casts
from symex import Sym, State, Unsupported, NULL
import contracts
import wire

LEVEL = 'other'
TITLE = 'C12 regions form a tree rooted at the global region; owners and positions are right'

REGION_CLASSES = ('ipr::impl::Region', 'ipr::impl::homogeneous_region<', 'ipr::impl::eh_region')
# interface -> how to reach the region(s) the entity opens (accessor chains on the entity)
OWNERS = {
    'ipr::Class': [('region',), ('bases#region',)],
    'ipr::Union': [('region',)],
    'ipr::Namespace': [('region',)],
    'ipr::Closure': [('region',)],
    'ipr::Enum': [('region',)],
    'ipr::Block': [('region',)],
    'ipr::Mapping': [('parameters', 'region')],
    'ipr::Lambda': [('parameters', 'region')],
}


def is_region_obj(o):
    return o.cls == 'ipr::impl::Region' or o.cls.startswith('ipr::impl::homogeneous_region<') or o.cls == 'ipr::impl::eh_region'


def regions_in(st, root):
    """All region objects reachable (by fields) from root: oid -> path."""
    out, seen = {}, set()

    def rec(t, path, d):
        if not isinstance(t, tuple) or not t or d > 12:
            return
        if t[0] == 'addr':
            t = t[1]
        if t[0] != 'obj' or t[1] in seen or t[1] not in st.heap:
            return
        seen.add(t[1])
        o = st.heap[t[1]]
        if is_region_obj(o):
            out[t[1]] = path
        for n, v in sorted(o.fields.items()):
            if n in ('parent', 'owned_by', 'where', 'home'):
                continue            # links, not ownership
            rec(v, path + '.' + n, d + 1)
    rec(root, 'R', 0)
    return out


def opt_target(st, t):
    """Value held by an Optional / util::ref / reference field: ('absent',) | target term."""
    if isinstance(t, tuple) and t and t[0] == 'obj' and t[1] in st.heap:
        o = st.heap[t[1]]
        if o.cls.startswith('ipr::Optional<') or o.cls.startswith('ipr::util::ref<'):
            if o.origin and o.origin[0] == 'copy':
                return ('optional', o.origin[1])
            p = o.fields.get(contracts.holder_field(o))
            if p == NULL:
                return ('absent',)
            if isinstance(p, tuple) and p[0] == 'addr':
                return p[1]
            return ('deref', p)
    return t


def run(ck, F):
    ck.explanation = (
        'Every construct that opens a region is built symbolically from its factory; in the resulting object graph '
        'each region\'s parent link, owner link and the positions/home regions of member declarations are read as '
        'terms over the factory parameters (valid for every nesting and creation order).  A parent reference fixed at '
        'construction to an already constructed region and never reassigned cannot form a cycle; the unique '
        'parentless region is the root.')
    S = Sym(F, opaque=contracts.default_opaque(F), max_depth=64)
    R_parent = ck.rule('C12.parent-wiring', 'every region a factory creates is enclosed by the region it was created in: its '
                       'parent is the factory\'s region parameter, the creating region itself, or the enclosing region '
                       'created by the same construct -- never null, never another region', floor=16)
    R_noreassign = ck.rule('C12.parent-immutable', 'no library function assigns a region\'s parent after construction', floor=1)
    R_global = ck.rule('C12.global', 'a region reports itself global exactly when it has no parent; only a unit\'s global namespace '
                       'is built without a parent', floor=4)
    R_owner = ck.rule('C12.owner', 'the region of a class, union, enum, namespace, closure, block, mapping or lambda names that '
                      'entity as its owner (every implementation class of the interface -- sibling rule)', floor=10)
    R_handler = ck.rule('C12.handler', 'a handler\'s body is enclosed by a singleton region binding its exception parameter, itself '
                        'enclosed by the region that encloses the guarded block', floor=3)
    R_unit = ck.rule('C12.units', 'every unit owns a global namespace named by the empty identifier whose region is the parentless '
                     'root; module units store the module that made them', floor=3)

    # ---------------------------------------------------------------- region-opening factories
    fs = wire.all_factories(F)
    seen_ifaces = {}
    n_regions = 0
    for f in sorted(fs, key=lambda f: f['id']):
        try:
            outs = S.run(f['id'])
        except Unsupported as e:
            raise AnalysisBroken(f'{f["id"]}: {e}')
        region_params = {i for i, p in enumerate(f['params']) if p['t'] in ('const ipr::Region &', 'const ipr::Region *')}
        for pi, (st, kind, v) in enumerate(outs):
            if kind != 'return' or v is None:
                continue
            root = v[1] if v[0] == 'addr' else v
            if root[0] != 'obj' or root[1] not in st.heap:
                continue
            regs = regions_in(st, root)
            if not regs:
                continue
            sid = '::'.join(contracts.fn_qname(f['id']).split('::')[-2:]) + '/' + str(len(f['params'])) + (f'#{pi}' if len(outs) > 1 else '')
            for oid, path in sorted(regs.items(), key=lambda x: x[1]):
                n_regions += 1
                o = st.heap[oid]
                par = opt_target(st, o.fields.get('parent'))
                ok = False
                how = contracts.render(par, st, {k: v2 for k, v2 in [(x, 'R' + p[1:]) for x, p in regs.items()]}) if par else 'unset'
                if isinstance(par, tuple):
                    if par[0] == 'param' and par[1] in region_params:
                        ok = True
                    elif par[0] == 'obj' and par[1] in regs and par[1] != oid:
                        ok = True                      # nested inside a region of the same construct
                    elif par == ('sym', 'this') and f.get('parent') == 'ipr::impl::Region':
                        ok = True                      # make_subregion
                    elif par[0] == 'deref' and 'parent' in contracts.render(par, st, {}) and f['name'] == 'new_handler':
                        ok = True                      # enclosing() of the guarded block's region
                    elif par == ('sym', 'this') or (par[0] == 'fld' and par[1] == ('sym', 'this')):
                        # a member builder: the new region hangs under a region of the builder object
                        ok = f.get('parent', '').startswith(('ipr::impl::Class', 'ipr::impl::Enum', 'ipr::impl::Block'))
                if par == ('absent',):
                    ok = f['name'] == 'make_unit' or o.cls == 'ipr::impl::Region' and path.endswith('global_ns.body')
                ck.check(R_parent, f'{sid}:{path}', ok,
                         f'{f["id"]}: region {path} ({contracts.short(o.cls)}) is enclosed by `{how}`, not by the region it was created in',
                         loc=f['loc'], fn=f['id'], detail={'parent': how})
            # owners
            cls = st.heap[root[1]].cls
            for ifc, chains in OWNERS.items():
                if not F.derives_from(cls, ifc):
                    continue
                seen_ifaces.setdefault(ifc, set()).add(cls)
                check_owner(ck, F, S, R_owner, st, root, cls, ifc, f)
            # blocks nested in handlers are a second implementation of ipr::Block
            for oid2, o2 in list(st.heap.items()):
                if oid2 != root[1] and F.derives_from(o2.cls, 'ipr::Block') and o2.origin and o2.origin[0] != 'copy':
                    seen_ifaces.setdefault('ipr::Block', set()).add(o2.cls)
                    check_owner(ck, F, S, R_owner, st, ('obj', oid2), o2.cls, 'ipr::Block', f)
    ck.extra['regions_examined'] = n_regions
    for ifc in OWNERS:
        if ifc not in seen_ifaces:
            raise AnalysisBroken(f'no factory builds an implementation of {ifc}')
    # every concrete implementation class of the owner interfaces must have been built by some factory
    for ifc in OWNERS:
        impls = {n for n, r in F.rec.items() if not r['abstract'] and F.derives_from(n, ifc) and r.get('unit', '') != 'probe.cxx'}
        missing = impls - seen_ifaces[ifc]
        for m in sorted(missing):
            ck.note(f'implementation class {m} of {ifc} is not reached through any analysed factory')

    # ---------------------------------------------------------------- parent never reassigned
    writers = []
    for g in F.fn.values():
        if g.get('ctor'):
            continue
        for n in walk(g.get('body')):
            if n.get('k') == 'binop' and n.get('op') == '=' or (n.get('k') == 'call' and (n.get('callee') or {}).get('name') == 'operator='):
                lhs = strip_casts(n.get('l') or n.get('obj') or {})
                if lhs.get('k') == 'member' and lhs.get('name') == 'parent' and (lhs.get('cls') or '').startswith(('ipr::impl::Region', 'ipr::impl::homogeneous_region')):
                    writers.append(g['id'])
    ck.check(R_noreassign, 'Region::parent', not writers, f'region parent links are assigned after construction in {writers}',
             loc=F.need_rec('ipr::impl::Region')['loc'])

    # ---------------------------------------------------------------- global()
    for cls in sorted(n for n in F.rec if n == 'ipr::impl::Region' or (n.startswith('ipr::impl::homogeneous_region<') and not F.rec[n]['abstract'])):
        gfs = [fo for fo in F.final_overrider_by_name(cls, 'global')]
        if len(gfs) != 1 or gfs[0] not in F.fn:
            continue
        if cls == 'ipr::impl::Region':
            res = {}
            for label, ptr in (('no parent', NULL), ('has parent', ('addr', ('sym', 'other')))):
                st = State()
                o = st.new_obj(cls)
                opt = st.new_obj('ipr::Optional<ipr::Region>', origin=('ctor', ''))
                st.heap[opt[1]].fields[F.role_field('ipr::Optional<ipr::Region>', lambda fl: True, 'held pointer')] = ptr
                st.heap[o[1]].fields['parent'] = opt
                outs = S.run(gfs[0], this=o, args=[], state=st)
                res[label] = [v[1] if v and v[0] == 'k' else None for s, k, v in outs if k == 'return']
            ck.check(R_global, 'Region::global', res == {'no parent': [1], 'has parent': [0]},
                     f'Region::global() yields {res} (expected true exactly without parent)', loc=F.fn[gfs[0]]['loc'], fn=gfs[0])
        else:
            st = State()
            o = st.new_obj(cls)
            outs = S.run(gfs[0], this=o, args=[], state=st)
            vals = [v[1] if v and v[0] == 'k' else None for s, k, v in outs if k == 'return']
            ck.check(R_global, contracts.short(cls) + '::global', vals == [0],
                     f'{cls}::global() yields {vals}; such a region always has a parent', loc=F.fn[gfs[0]]['loc'], fn=gfs[0])

    # ---------------------------------------------------------------- handler
    nh = F.need_fn('ipr::impl::Block::new_handler(const ipr::Name &, const ipr::Type &)')
    outs = [o for o in S.run(nh['id']) if o[1] == 'return']
    if not outs:
        raise AnalysisBroken('Block::new_handler: no returning path')
    for pi, (st, _k, v) in enumerate(outs):
        # one instance per path: a handler built differently for some exception types is judged on each of them
        tag = '' if len(outs) == 1 else f' [path {pi}: {contracts.render_conds(st.conds, st, {})[:90]}]'
        h = v[1]
        ho = st.heap[h[1]]
        eh = ho.fields.get(F.role_field('ipr::impl::Handler', lambda fl: 'eh_region' in fl['t'], 'region of the exception parameter'))
        blk = ho.fields.get(F.role_field('ipr::impl::Handler', lambda fl: 'handler_block' in fl['t'], 'body of the handler'))
        good_eh = good_body = single = False
        if eh and eh[0] == 'obj' and blk and blk[0] == 'obj':
            eho = st.heap[eh[1]]
            par = eho.fields.get('parent')
            txt = contracts.render(par, st, {})
            # enclosing() of the guarded block: *this.lexical_region.parent.ptr
            good_eh = isinstance(par, tuple) and par[0] == 'deref' and par[1] == ('fld', ('fld', ('fld', ('sym', 'this'), 'lexical_region'), 'parent'), F.role_field('ipr::Optional<ipr::Region>', lambda fl: True, 'held pointer'))
            lr = st.heap[blk[1]].fields.get('lexical_region')
            bpar = opt_target(st, st.heap[lr[1]].fields.get('parent')) if lr and lr[0] == 'obj' else None
            good_body = bpar == eh
            single = eho.cls == 'ipr::impl::eh_region' and any('singleton_obj' in b for b in [eho.cls] + F.ancestors(eho.cls))
            # the parameter's region
            ehp = [oid for oid, o in st.heap.items() if o.cls == 'ipr::impl::EH_parameter']
        ck.check(R_handler, 'exception region' + tag, good_eh, 'the exception-parameter region of a new handler is not enclosed by the region '
                 'enclosing the guarded block', loc=nh['loc'], fn=nh['id'])
        ck.check(R_handler, 'body region' + tag, good_body, 'the handler body\'s region is not enclosed by the exception-parameter region',
                 loc=nh['loc'], fn=nh['id'])
        ck.check(R_handler, 'singleton' + tag, single, 'the exception-parameter region is not a singleton region', loc=nh['loc'], fn=nh['id'])

    # ---------------------------------------------------------------- positions / home / level
    positions_rule(ck, F, S)
    # a region binds exactly what its scope holds: size() / elements() of the scope are those of its store (a handler's region is filled
    # by its constructor, the others member by member)
    import c09 as _c09
    _c09.scope_size_rule(ck, F, 'C12')
    level_given(ck, F, 'C12')

    # ---------------------------------------------------------------- units
    mk = F.need_fn('ipr::impl::Module::make_unit()')
    outs = [o for o in S.run(mk['id']) if o[1] == 'return']
    for i, (st, _k, v) in enumerate(outs):
        root = v[1]
        names = {root[1]: 'R'}
        acc = contracts.observe(S, F, st, root, names, accessor_filter=lambda n: n in ('parent_module', 'global_namespace'))
        ck.check(R_unit, f'Module::make_unit#{i}/parent', acc.get('parent_module') == '$this',
                 f'a module unit reports parent module `{acc.get("parent_module")}`', loc=mk['loc'], fn=mk['id'])
        gns = st.heap[root[1]].fields.get(F.role_field(st.heap[root[1]].cls, lambda fl: fl['t'] == 'ipr::impl::Namespace', 'global namespace of the unit', inherited=True))
        good = False
        what = 'no global namespace member'
        if gns and gns[0] == 'obj':
            go = st.heap[gns[1]]
            idv = opt_target(st, go.fields.get('id'))
            body = go.fields.get('body')
            bpar = opt_target(st, st.heap[body[1]].fields.get('parent')) if body and body[0] == 'obj' else None
            own = opt_target(st, st.heap[body[1]].fields.get('owned_by')) if body and body[0] == 'obj' else None
            idtxt = contracts.render(idv, st, {})
            named_empty = 'get_identifier' in idtxt and '""' in idtxt or 'intern' in idtxt and '""' in idtxt
            if not named_empty and isinstance(idv, tuple) and idv[0] == 'obj':
                # identifier object built from the empty word
                named_empty = '""' in contracts.render(idv, st, {})
            good = named_empty and bpar == ('absent',) and own == gns
            what = f'name={idtxt[:80]}, region parent={contracts.render(bpar, st, {}) if bpar else None}, owner is the namespace={own == gns}'
        ck.check(R_unit, f'Module::make_unit#{i}/global namespace', good, 'global namespace of a unit: ' + what, loc=mk['loc'], fn=mk['id'])
    ub = [f for f in F.fn.values() if f.get('ctor') and (f.get('parent') or '').startswith('ipr::impl::unit_base<') and not f.get('copy')]
    ck.check(R_unit, 'unit_base constructors', len(ub) >= 1, 'no unit_base constructor instantiated', loc=mk['loc'])


def positions_rule(ck, F, S, prefix='C12'):
    """Parameters, enumerators and bases report their index; borrowed by C07 under its own prefix."""
    R_pos = ck.rule(f'{prefix}.positions', 'parameters, enumerators and bases report the size of their own sequence before they were '
                    'appended (zero based, converted to the position type without losing bits), their list\'s region as home, and the '
                    'list\'s nesting level', floor=6)
    cases = [
        ('Parameter_list::add_member', 'ipr::impl::Parameter_list::add_member(const ipr::Name &, const ipr::Type &)',
         {'home_region': '$this.region()', 'level': '$this.level()'}),
        ('Enum::add_member', 'ipr::impl::Enum::add_member(const ipr::Name &)', {'home_region': '$this.body'}),
        ('Class::declare_base', 'ipr::impl::Class::declare_base(const ipr::Type &)', {'home_region': '$this.base_subobjects'}),
    ]
    for name, fid, want in cases:
        f = F.need_fn(fid)
        outs = [o for o in S.run(fid) if o[1] == 'return']
        if not outs:
            raise AnalysisBroken(f'{fid}: no returning path')
        for pi, (st, _k, v) in enumerate(outs):
            pname = name if len(outs) == 1 else f'{name} [path {pi}: {contracts.render_conds(st.conds, st, {})[:90]}]'
            root = v[1] if v[0] == 'addr' else v
            if not (isinstance(root, tuple) and root[:1] == ('obj',) and root[1] in st.heap):
                ck.fail(R_pos, pname + '/position', f'{fid}: answers with `{contracts.render(v, st, {})[:80]}`, a member that was already there, instead of '
                        'appending one: the member asked for does not exist, and the one handed back has another position (and possibly type)',
                        loc=f['loc'], fn=fid)
                continue
            emp = [e for e in st.effects if e[0] == 'emplace']
            acc = contracts.observe(S, F, st, root, {root[1]: 'R'}, accessor_filter=lambda n: n in ('position', 'home_region', 'level'))
            # position: a size observation of the container the element went into, taken before the growth, no offset
            pos_fo = [fo for fo in F.final_overrider_by_name(st.heap[root[1]].cls, 'position')]
            pv = S.run(pos_fo[0], this=root, args=[], state=st.fork())[0][2] if pos_fo else None
            while isinstance(pv, tuple) and pv and pv[0] == 'castto':
                pv = pv[2]
            cont = emp[0][2] if len(emp) == 1 else None
            ok_pos = False
            if isinstance(pv, tuple) and pv[0] in ('call', 'vcall') and cont is not None:
                nm = contracts.fn_simple(pv[1])
                if nm == 'size':
                    ok_pos = pv[2] == cont or contracts.render(pv[2], st, {}) in contracts.render(cont, st, {}) or contracts.render(cont, st, {}).startswith(contracts.render(pv[2], st, {}))
                elif nm == 'distance':
                    ok_pos = all(isinstance(a, tuple) and a[0] == 'call' and a[2] == cont for a in pv[3]) and \
                        [contracts.fn_simple(a[1]) for a in pv[3]] == ['begin', 'end']
            ck.check(R_pos, pname + '/position', ok_pos,
                     f'{fid}: position() is `{acc.get("position")}`; expected the size of the member sequence before the append',
                     loc=f['loc'], fn=fid)
            for k2, w in want.items():
                ck.check(R_pos, pname + '/' + k2, acc.get(k2) == w, f'{fid}: {k2}() is `{acc.get(k2)}`, expected `{w}`', loc=f['loc'], fn=fid)


    # any other function of the library that enters members into a parameter list / enumeration / base list (a bulk version, a
    # convenience overload): whatever it appends gets the size before that very append as its position
    known = {c[1] for c in cases}
    from symex import Sym as _Sym
    Sb = _Sym(F, opaque=contracts.default_opaque(F), max_depth=64)
    Sb.apply_functors = True          # loops over data: one arbitrary iteration
    owners = ('ipr::impl::Parameter_list', 'ipr::impl::Enum', 'ipr::impl::Class', 'ipr::impl::Mapping', 'ipr::impl::Lambda')
    for g in sorted(F.fn.values(), key=lambda g: g['id']):
        if g['id'] in known or not g.get('body') or g.get('parent') not in owners or g.get('ctor'):
            continue
        if not any(n.get('k') == 'call' and (n.get('callee') or {}).get('name') == 'push_back'
                   and ((n['callee'].get('parent') or '').startswith('ipr::impl::homogeneous_scope<')) for n in walk(g['body'])):
            continue
        try:
            outs = [o for o in Sb.run(g['id']) if o[1] == 'return']
        except Unsupported as e:
            raise AnalysisBroken(f'{g["id"]}: {e}')
        bad = []
        for st, _k, _v in outs:
            grown = {}
            for e in st.effects:
                if e[0] != 'emplace':
                    continue
                el, cont = e[3], e[2]
                nth = grown.get(cont, 0)
                grown[cont] = nth + 1
                pos_fo = [fo for fo in F.final_overrider_by_name(st.heap[el[1]].cls, 'position')] if el[1] in st.heap else []
                if not pos_fo and el[1] in st.heap:
                    # the element wraps the declaration (a singleton overload set holding it by value)
                    for fv in st.heap[el[1]].fields.values():
                        if isinstance(fv, tuple) and fv[:1] == ('obj',) and fv[1] in st.heap and F.final_overrider_by_name(st.heap[fv[1]].cls, 'position'):
                            el = fv
                            pos_fo = F.final_overrider_by_name(st.heap[fv[1]].cls, 'position')
                            break
                if not pos_fo:
                    continue
                pv = Sb.run(pos_fo[0], this=el, args=[], state=st.fork())[0][2]
                while isinstance(pv, tuple) and pv and pv[0] == 'castto':
                    pv = pv[2]
                inner = pv[2] if isinstance(pv, tuple) and pv[:1] == ('after',) else pv
                is_size = isinstance(inner, tuple) and inner[:1] in (('call',), ('vcall',)) and contracts.fn_simple(inner[1]) == 'size' \
                    and (inner[2] == cont or contracts.render(cont, st, {}).startswith(contracts.render(inner[2], st, {})))
                growth_seen = pv[1] if isinstance(pv, tuple) and pv[:1] == ('after',) else 0
                if not is_size or growth_seen != nth:
                    bad.append(f'an element appended to {contracts.render(cont, st, {})[:50]} gets position `{contracts.render(pv, st, {})[:60]}`')
        sid = '::'.join(contracts.fn_qname(g['id']).split('::')[-2:]) + '/' + str(len(g['params']))
        ck.check(R_pos, sid + '/position', not bad, f'{g["id"]}: ' + '; '.join(sorted(set(bad))[:2]) + ', not the size of the sequence just before that '
                 'append: positions collide with, or skip, those of the members already there', loc=g['loc'], fn=g['id'])


def level_given(ck, F, prefix):
    """A factory that is handed a Mapping_level builds parameter lists that report exactly that level; borrowed by C02."""
    R = ck.rule(f'{prefix}.level-given', 'a factory that takes a nesting level (mappings, lambdas, function declarators, requires-expressions) '
                'builds a parameter list whose level() is that very argument on every path: zero is a level like any other, not a request '
                'to infer one from the surroundings', floor=3)
    import wire as _wire
    S2 = Sym(F, opaque=contracts.default_opaque(F), max_depth=64)
    for f in sorted(_wire.all_factories(F), key=lambda f: f['id']):
        ks = [i for i, p in enumerate(f['params']) if p['t'].replace('const ', '').strip() == 'ipr::Mapping_level']
        if len(ks) != 1:
            continue
        try:
            outs = [o for o in S2.run(f['id']) if o[1] == 'return']
        except Unsupported as e:
            raise AnalysisBroken(f'{f["id"]}: {e}')
        bad, seen = [], 0
        for st, _k, v in outs:
            for oid, o in st.heap.items():
                if o.cls != 'ipr::impl::Parameter_list':
                    continue
                fo = F.final_overrider_by_name(o.cls, 'level')
                if not fo:
                    continue
                seen += 1
                lv = S2.run(fo[0], this=('obj', oid), args=[], state=st.fork())[0][2]
                while isinstance(lv, tuple) and lv and lv[0] == 'castto':
                    lv = lv[2]
                if lv != ('param', ks[0]):
                    bad.append(f'level() is `{contracts.render(lv, st, {})[:60]}`' + (f' when {contracts.render_conds(st.conds, st, {})[:80]}' if st.conds else ''))
        if not seen:
            continue
        sid = '::'.join(contracts.fn_qname(f['id']).split('::')[-2:]) + '/' + str(len(f['params']))
        ck.check(R, sid, not bad, f'{f["id"]}: the parameter list it builds does not report the level P{ks[0]} it was given: ' + '; '.join(sorted(set(bad))[:2]),
                 loc=f['loc'], fn=f['id'])


def check_owner(ck, F, S, R_owner, st, root, cls, ifc, f):
    names = {root[1]: 'R'}
    regs = regions_in(st, root)
    o = st.heap[root[1]]
    # regions directly held by this entity (not those of nested entities)
    mine = []
    for oid, path in regs.items():
        parts = path.split('.')[1:]
        # skip regions that belong to a nested entity (handler blocks, parameter regions of nested mappings ...)
        nested = False
        cur = root
        for p in parts[:-1]:
            nxt = st.heap[cur[1]].fields.get(p)
            if not (isinstance(nxt, tuple) and nxt[0] == 'obj'):
                break
            no = st.heap[nxt[1]]
            if any(F.derives_from(no.cls, i2) for i2 in OWNERS) or F.derives_from(no.cls, 'ipr::Handler') \
                    or no.cls.startswith(('ipr::impl::obj_list<', 'ipr::impl::stable_farm<', 'ipr::impl::decl_factory<')) \
                    or no.cls.startswith('ipr::cxx_form::impl::') or F.derives_from(no.cls, 'ipr::Region'):
                nested = True
                break
            cur = nxt
        if not nested:
            mine.append((oid, path))
    if ifc in ('ipr::Mapping', 'ipr::Lambda'):
        mine = [(oid, p) for oid, p in regs.items() if p.endswith('.parms') and p.count('.') <= 3]
    if not mine:
        ck.fail(R_owner, contracts.short(cls), f'{cls}: no region found in the object built by {f["id"]}', loc=f['loc'], fn=f['id'])
        return
    for oid, path in sorted(mine, key=lambda x: x[1]):
        ro = st.heap[oid]
        own = opt_target(st, ro.fields.get('owned_by'))
        ck.check(R_owner, f'{contracts.short(cls)}:{path}', own == root,
                 f'{cls} (an {contracts.short(ifc)}): its region {path} has owner `{contracts.render(own, st, names) if own else "unset"}`, '
                 f'not the entity itself -- other implementations of {contracts.short(ifc)} set it', loc=F.rec[cls]['loc'], fn=f['id'],
                 detail={'built_by': f['id']})
