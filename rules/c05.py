"""C05 -- node identity is stable: nodes never move, never silently change, never alias."""
import re

from facts import AnalysisBroken, walk, strip_casts
import contracts
import wire

LEVEL = 'other'
TITLE = 'C05 node identity is stable: nodes never move, never silently change, never alias'

LIB_NS = ('ipr::impl::', 'ipr::util::', 'ipr::cxx_form::impl::')
# container templates whose elements keep their address while the container only grows
STABLE = ('std::forward_list<', 'std::list<', 'std::deque<', 'std::map<', 'std::multimap<', 'std::set<',
          'ipr::impl::stable_farm<', 'ipr::impl::obj_list<', 'ipr::impl::obj_sequence<', 'ipr::impl::singleton<',
          'ipr::impl::singleton_obj<', 'ipr::util::rb_tree::container<', 'ipr::util::rb_tree::chain<',
          'ipr::impl::decl_factory<', 'ipr::impl::homogeneous_scope<', 'ipr::impl::homogeneous_region<',
          'ipr::impl::typed_sequence<')
RELOCATING = ('std::vector<', 'std::basic_string<', 'std::unordered_map<', 'std::unordered_set<', 'std::array<', 'std::valarray<')
GROW_ONLY = {'emplace_front', 'emplace_after', 'emplace_back', 'push_back', 'insert_or_assign', 'find', 'begin', 'end', 'cbegin', 'cend',
             'front', 'back', 'size', 'empty', 'at', 'operator[]', 'before_begin', 'max_size', 'get_allocator', 'operator=='}
SHRINKING = {'erase', 'erase_after', 'clear', 'pop_back', 'pop_front', 'resize', 'swap', 'assign', 'remove', 'remove_if', 'unique',
             'sort', 'reverse', 'merge', 'splice_after', 'splice', 'push_front', 'emplace', 'insert', 'insert_after', 'extract',
             'shrink_to_fit', 'operator='}
UNIFYING_MAKES = {'make_literal': 'literals are documented to unify', 'make_template_id': 'template-ids are documented to unify'}


def first_targ(t):
    """First template argument of a type string."""
    i = t.find('<')
    if i < 0:
        return None
    depth, j = 0, i
    for j in range(i, len(t)):
        if t[j] == '<':
            depth += 1
        elif t[j] == '>':
            depth -= 1
            if depth == 0:
                break
        elif t[j] == ',' and depth == 1:
            break
    return t[i + 1:j].strip()


def const_handles(ck, F, prefix, only=None):
    """Unifying factories hand out references to const; borrowed by C01 (types) and C11 (get_qualified)."""
    R = ck.rule(f'{prefix}.unified-handles-const', 'a factory that may answer with a node it handed out before (a unifying factory) returns a '
                'reference or pointer to const: every holder of that node sees it through a read-only handle, so no public path lets one '
                'client rewrite what another client\'s reference observes (the two generative-looking `make_` functions that are documented '
                'to unify are noted)', floor=1 if only else 30)
    cur = wire.compute(F)
    for fid, paths in sorted(cur.items()):
        f = F.fn[fid]
        if not any((p.get('origin') or '').startswith('unified') for p in paths):
            continue
        if only is not None and f['name'] not in only:
            continue
        sid = '::'.join(contracts.fn_qname(fid).split('::')[-2:]) + '(' + ', '.join(contracts.short(p['t']) for p in f['params']) + ')'
        if f['name'] in UNIFYING_MAKES:
            ck.note(f'{sid}: returns a mutable pointer; {UNIFYING_MAKES[f["name"]]}')
            continue
        r = (f.get('ret') or '').strip()
        ck.check(R, sid, r.startswith('const ') and r.endswith(('&', '*')),
                 f'{fid} returns `{r}`: a handle through which the shared node can be modified (its stored operands are public members of '
                 'the implementation class)', loc=f['loc'], fn=fid)


def setters_rule(ck, F, prefix):
    # what the client sets on one declaration is set on that declaration: a setter that writes into the bookkeeping shared by the
    # whole decl-set changes what earlier declarations of the set report
    R_set = ck.rule(f'{prefix}.setters-write-own-node', 'a setter of a declaration class (specifiers) stores into the declaration object itself: no write '
                    'goes through the pointer to the data shared by all declarations of the decl-set, which would change what an earlier '
                    'declaration reports when a later one is given its own specifiers', floor=2)
    from symex import Sym as _SymS, Unsupported as _UnsS
    _Ss = _SymS(F, opaque=contracts.default_opaque(F), max_depth=32)
    setters = [f for f in F.fn.values() if (f.get('parent') or '').startswith('ipr::impl::Decl<') and f.get('body') and not f['id'].endswith(' const')
               and not f.get('ctor') and not f.get('dtor') and f.get('params') and (f.get('ret') or '') == 'void']
    if len(setters) < 2:
        raise AnalysisBroken(f'setters of impl::Decl<...> instantiated by the probe: {[f["id"] for f in setters]}')

    def through_pointer(t):
        # does the location go through a dereference (shared storage) rather than staying inside `this`?
        while isinstance(t, tuple) and t:
            if t[0] == 'deref':
                return True
            if t[0] in ('fld', 'index'):
                t = t[1]
            elif t[0] == 'castto':
                t = t[2]
            else:
                break
        return False
    for f in sorted(setters, key=lambda f: f['id']):
        try:
            outs = _Ss.run(f['id'], this=('sym', 'this'))
        except _UnsS as e:
            raise AnalysisBroken(f'{f["id"]}: {e}')
        bad = sorted({contracts.render(e[1], st, {})[:70] for st, k, v in outs for e in st.effects if e[0] == 'write' and through_pointer(e[1])})
        ck.check(R_set, contracts.short(contracts.fn_qname(f['id'])), not bad, f'{f["id"]} writes {bad}: storage reached through a pointer, shared with the other '
                 'declarations of the set', loc=f['loc'], fn=f['id'])



def run(ck, F):
    ck.explanation = (
        'Reference stability is a property of the container kind, independent of history: every member or base of the '
        'implementation classes that stores node objects by value is classified (forward_list / list / deque / map / tree / '
        'singleton keep addresses while they only grow; vector & co. relocate), every operation the library applies to these '
        'stores is checked to be growth or read access, every make_ factory is checked to allocate a fresh element (contracts), '
        'the interface is checked to be const-only, and factory evaluation shows no write to a node that existed before the call.')
    ck.assume('storage recycled by the system allocator after destruction, and client writes through impl:: pointers, are outside '
              'what a static rule can decide')
    node_like = set()
    for n, r in F.rec.items():
        if n.startswith(LIB_NS) or n.startswith('ipr::impl'):
            if F.derives_from(n, 'ipr::Node') or any(a.startswith('ipr::Sequence<') for a in F.ancestors(n)) \
                    or any(a in ('ipr::Substitution', 'ipr::Capture', 'ipr::Capture_specification', 'ipr::Translation_unit',
                                 'ipr::Module', 'ipr::Attribute', 'ipr::Lexeme', 'ipr::Token') for a in F.ancestors(n)) \
                    or n.startswith('ipr::cxx_form::impl::') or n.startswith(('ipr::impl::master_decl_data<', 'ipr::impl::overload_entry')):
                node_like.add(n)

    def holds_objects(t):
        """Does container type t store repository objects by value?  returns element type or None."""
        e = first_targ(t)
        if e is None:
            return None
        if e.endswith('*') or e.startswith('const void'):
            return None
        if t.startswith('std::map<') or t.startswith('std::multimap<'):
            # mapped type
            inner = t[t.find('<') + 1:]
            parts, depth, cur = [], 0, ''
            for ch in inner:
                if ch == '<':
                    depth += 1
                if ch == '>':
                    depth -= 1
                if ch == ',' and depth == 0:
                    parts.append(cur.strip())
                    cur = ''
                else:
                    cur += ch
            if len(parts) >= 1 and cur:
                parts.append(cur.strip())
            e = parts[1] if len(parts) > 1 else e
            if e.endswith('*'):
                return None
        base = e.replace('const ', '').strip()
        if base.startswith('ipr::') or base.startswith('std::forward_list<ipr::') or base.startswith('std::pair<'):
            return base
        return None

    R1 = ck.rule('C05.STORE', 'every member or base that stores node objects by value is of a reference-stable kind', floor=200)
    stores = 0
    for n, r in sorted(F.rec.items()):
        if not (n.startswith(LIB_NS) or n.startswith('ipr::impl')) or r.get('lambda') or r.get('unit') == 'probe.cxx':
            continue
        slots = [(fl['name'], fl['t']) for fl in r['fields']] + [('<base>', b['name']) for b in r['bases']]
        for name, t in slots:
            t0 = t.replace('const ', '').strip()
            if not (t0.startswith(STABLE) or t0.startswith(RELOCATING)):
                continue
            elem = holds_objects(t0)
            if elem is None:
                continue
            stores += 1
            inst = f'{contracts.short(n)}::{name}'
            if t0.startswith(RELOCATING):
                ck.fail(R1, inst, f'{n}::{name} stores {contracts.short(elem)} objects by value in {t0.split("<")[0]}, which relocates its '
                        'elements when it grows: references handed out earlier would dangle', loc=r['loc'])
            else:
                ck.check(R1, inst, t0.startswith(STABLE), f'{n}::{name}: container kind {t0.split("<")[0]} is not known to be reference-stable',
                         loc=r['loc'], detail={'kind': t0.split('<')[0], 'element': contracts.short(elem)})
    ck.extra['object_stores'] = stores

    # ---------------------------------------------------------------- grow-only use
    R2 = ck.rule('C05.grow-only', 'the library applies only growth and read operations to the stores of node objects', floor=150)
    nsites = 0
    for f in sorted(F.fn.values(), key=lambda f: f['id']):
        if not f['loc'].startswith(('src/', 'include/')):
            continue
        for n in walk(f.get('body')):
            if n.get('k') != 'call':
                continue
            c = n.get('callee') or {}
            par = c.get('parent') or ''
            if not par.startswith('std::') or c.get('repo'):
                continue
            if not par.startswith(('std::forward_list<', 'std::list<', 'std::deque<', 'std::map<', 'std::vector<')):
                continue
            elem = holds_objects(par)
            if elem is None:
                continue
            nsites += 1
            nm = c.get('name')
            inst = f'{contracts.short(contracts.fn_qname(f["id"]))}:{nm}'
            if nm in SHRINKING and not (nm == 'operator=' and False):
                ck.fail(R2, inst, f'{f["id"]} calls {par.split("<")[0]}::{nm} on a store of {contracts.short(elem)} objects: existing nodes '
                        'may be destroyed, moved or re-ordered', loc=f['loc'], fn=f['id'])
            else:
                ck.check(R2, inst, nm in GROW_ONLY or nm.startswith('~') or nm in (par.split('<')[0].split('::')[-1],),
                         f'{f["id"]}: operation {nm} on a node store is not a known growth/read operation', loc=f['loc'], fn=f['id'])
    ck.extra['store_operation_sites'] = nsites

    # ---------------------------------------------------------------- make_ means fresh
    R3 = ck.rule('C05.make-is-fresh', 'every make_ factory returns a freshly allocated node (except the two documented to unify)', floor=150)
    cur = wire.compute(F)
    for fid, paths in sorted(cur.items()):
        f = F.fn[fid]
        if not f['name'].startswith('make_'):
            continue
        sid = '::'.join(contracts.fn_qname(fid).split('::')[-2:]) + '/' + str(len(f['params']))
        if f['name'] in UNIFYING_MAKES:
            ck.note(f'{sid}: {UNIFYING_MAKES[f["name"]]}')
            continue
        if f.get('parent') == 'ipr::impl::Scope':
            # declarations are always fresh decl_rep objects
            pass
        bad = [p.get('origin') for p in paths if 'accessors' in p and not (p.get('origin') or '').startswith('fresh')]
        bad += ['returns ' + p['result'][:60] for p in paths if 'result' in p]
        ck.check(R3, sid, not bad, f'{fid} does not allocate a fresh node on every path: {bad}', loc=f['loc'], fn=fid)

    # what was found once is found again: the ordered indexes are searched the way they are filled (a declaration that a lookup by
    # type answered must not disappear when further overloads are entered)
    import c08 as _c08
    import c11 as _c11
    _c08.run(_c11._Only(ck, {'descent'}), F, prefix='C05')

    setters_rule(ck, F, 'C05')
    # what a scope answered for a name keeps being the answer: its tables are searched the way they are filled (one total order per
    # table, every component compared with itself), and the member stores behind the homogeneous scopes keep entry order
    import c07 as _c07
    _c07.scope_keys(ck, F, 'C05')
    import c17 as _c17
    _c17.insertion_order(ck, F, 'C05')
    # what a substitution answers for a parameter stays what it was when other parameters are bound
    import c16 as _c16
    _c16.latest_binding_rule(ck, F, 'C05')

    # a node that is shared by everyone who asks for the same thing is handed out read-only
    const_handles(ck, F, 'C05')

    # a declaration entered into a scope that already holds declarations is as fresh as the first one
    R3b = ck.rule('C05.declaration-is-fresh', 'every path of a second Scope::make_* request (redeclaration, new type under a known name, new '
                  'name; evaluated on the state the first request left) returns a node that this very request allocated: no path hands '
                  'back a declaration that was entered earlier', floor=16)
    import keyrule as _kr
    from symex import Sym as _SymK, Unsupported as _Uns
    _SK = _SymK(F, opaque=_kr.key_opaque(F), max_depth=64)
    _makers = [g for g in F.fns_in('ipr::impl::Scope') if g['name'].startswith('make_') and g.get('body') is not None]
    if len(_makers) < 8:
        raise AnalysisBroken(f'only {len(_makers)} Scope::make_* functions found')
    for g in sorted(_makers, key=lambda g: g['id']):
        gid = '::'.join(contracts.fn_qname(g['id']).split('::')[-2:]) + '/' + str(len(g['params']))
        try:
            firsts = [r for r in _SK.run(g['id']) if r[1] == 'return']
            seconds = []
            for st1, _k, _v in firsts:
                seconds += [(st1, r) for r in _SK.run(g['id'], args=_kr.qparams(len(g['params'])), state=st1.fork()) if r[1] == 'return']
        except _Uns as e:
            raise AnalysisBroken(f'{g["id"]}: outside the evaluator language: {e}')
        if not seconds:
            raise AnalysisBroken(f'{g["id"]}: no returning path of a second request')
        for j, (st1, (st2, _k2, v2)) in enumerate(seconds):
            node = v2[1] if isinstance(v2, tuple) and v2[:1] == ('addr',) else v2
            fresh = isinstance(node, tuple) and node[:1] == ('obj',) and node[1] in st2.heap and node[1] not in st1.heap
            how = contracts.render_conds(st2.conds[len(st1.conds):], st2, {})[:100]
            ck.check(R3b, f'{gid}#second{j}', fresh, f'{g["id"]} on a scope that already holds a declaration (when {how or "always"}) returns '
                     f'`{contracts.render(v2, st2, {})[:80]}`, not a node allocated by this request: two calls of a generative constructor '
                     'yield the same node', loc=g['loc'], fn=g['id'])

    # what the client hands over as a plain value is copied, not aliased
    R3c = ck.rule('C05.client-values-copied', 'a member of an implementation class whose type is one of the interface\'s plain value structs '
                  '(aggregates the client fills in itself: source and unit locations, ...) holds the value, not a reference or pointer to the '
                  'client\'s object: what a node reports does not change when the client reuses that object, and does not dangle when it dies', floor=3)
    for n_, rec_ in sorted(F.rec.items()):
        if not n_.startswith(('ipr::impl::', 'ipr::cxx_form::impl::')) or rec_.get('lambda'):
            continue
        for fl in rec_['fields']:
            base = fl['t'].replace('const ', '').strip().rstrip('&* ').strip()
            R_ = F.rec.get(base)
            if R_ is None or not base.startswith('ipr::') or base.startswith(('ipr::impl::', 'ipr::util::', 'ipr::cxx_form::impl::')) \
                    or not R_.get('aggregate') or R_.get('polymorphic') or not R_['fields'] and not R_.get('bases'):
                continue
            byref = bool(fl.get('ref')) or fl['t'].rstrip().endswith('*')
            ck.check(R3c, f'{contracts.short(n_)}::{fl["name"]}', not byref,
                     f'{n_}::{fl["name"]} is a `{fl["t"]}`: it designates the {contracts.short(base)} object the client passed in instead of '
                     'holding a copy of it', loc=f'{rec_["loc"].split(":")[0]}:{fl.get("ln", 0)}')

    # ---------------------------------------------------------------- const-only interface
    R4 = ck.rule('C05.const-interface', 'every member function of an interface class is const and no interface class has mutable or '
                 'public non-const data: nothing observable can be changed through the interface', floor=150)
    for n, r in sorted(F.rec.items()):
        if not n.startswith('ipr::') or n.startswith(LIB_NS) or n.startswith('ipr::impl') or r.get('template') and False:
            continue
        if r.get('lambda') or r.get('local') or '(anon)' in n:
            continue
        if not (F.derives_from(n, 'ipr::Node') or n.startswith('ipr::Sequence<') or n in (
                'ipr::Lexicon', 'ipr::Translation_unit', 'ipr::Module_unit', 'ipr::Interface_unit', 'ipr::Module', 'ipr::Module_name',
                'ipr::Substitution', 'ipr::Capture', 'ipr::Capture_specification', 'ipr::Transfer', 'ipr::Logogram',
                'ipr::Linkage', 'ipr::Calling_convention') or n.startswith(('ipr::cxx_form::', 'ipr::Capture_specification::'))):
            continue
        if n.endswith('::Iterator') or n.endswith('Visitor') or '_visitor' in n:
            continue
        bad = []
        for m in r['methods']:
            if m['static'] or m.get('ctor') or m.get('dtor') or m['implicit'] or m['deleted'] or m['name'] == 'operator=':
                continue
            if not m['const']:
                bad.append(m['name'] + '() is not const')
        for fl in r['fields']:
            if fl['mutable']:
                bad.append(f'mutable member {fl["name"]}')
            if fl['access'] == 'public' and not fl['const'] and not fl['ref']:
                bad.append(f'public non-const data member {fl["name"]}')
        ck.check(R4, n, not bad, f'{n}: ' + '; '.join(bad), loc=r['loc'])

    # ---------------------------------------------------------------- no write to pre-existing nodes
    R5 = ck.rule('C05.no-alias-write', 'evaluating a factory writes only to the node(s) it just created and to the factory\'s own '
                 'tables; never to a node that existed before the call', floor=240)
    from symex import Sym, Unsupported
    S = Sym(F, opaque=contracts.default_opaque(F), max_depth=64)
    ALLOW = {'ipr::impl::expr_factory::get_symbol(const ipr::Name &, const ipr::Type &)':
             'a symbol found again is re-typed with the identical type it was found by (the key contains the type)'}
    for f in sorted(wire.all_factories(F), key=lambda f: f['id']):
        try:
            outs = S.run(f['id'])
        except Unsupported as e:
            raise AnalysisBroken(f'{f["id"]}: {e}')
        bad = []
        for st, k, v in outs:
            for e in st.effects:
                if e[0] != 'write':
                    continue
                root = e[1]
                while isinstance(root, tuple) and root and root[0] in ('fld', 'deref', 'addr', 'index'):
                    root = root[1]
                if isinstance(root, tuple) and root and root[0] == 'param':
                    bad.append(contracts.render(e[1], st, {}))
        sid = '::'.join(contracts.fn_qname(f['id']).split('::')[-2:]) + '/' + str(len(f['params']))
        ck.check(R5, sid, not bad, f'{f["id"]} writes to a pre-existing node: {sorted(set(bad))[:3]}', loc=f['loc'], fn=f['id'])
    # (a write to a found element is judged by C05.later-request-leaves-nodes: the value written must equal the value held)

    # ---------------------------------------------------------------- a later request leaves earlier nodes as they were
    R6 = ck.rule('C05.later-request-leaves-nodes', 'a second request to the same factory (any arguments, evaluated on the state the '
                 'first one left: found, redeclared and fresh paths) changes no field of an object that existed before it; it may only '
                 'grow the factory\'s containers', floor=240)
    import keyrule
    SK = Sym(F, opaque=keyrule.key_opaque(F), max_depth=48)

    import history
    deep, rewrite = history.deep, history.rewrite

    def found_equalities(st2, base_eff):
        return history.found_equalities(F, SK, st2, base_eff)

    restored = []
    for f in sorted(wire.all_factories(F), key=lambda f: f['id']):
        sid = '::'.join(contracts.fn_qname(f['id']).split('::')[-2:]) + '/' + str(len(f['params']))
        bad = []
        try:
            for st1, k1, _v1 in S.run(f['id']):
                if k1 != 'return':
                    continue
                snap = {i: dict(o.fields) for i, o in st1.heap.items()}
                base_eff = len(st1.effects)
                for st2, _k2, _v2 in S.run(f['id'], args=keyrule.qparams(len(f['params'])), state=st1.fork()):
                    eqs = None
                    for i, before in snap.items():
                        now = st2.heap[i].fields
                        for name in set(before) | set(now):
                            if before.get(name) == now.get(name):
                                continue
                            # storing again the value the field already holds changes nothing: decided on the values, with the
                            # identities that `found` implies on this path (the comparator's components are all equal)
                            if eqs is None:
                                eqs = found_equalities(st2, base_eff)
                            old_v, new_v = deep(before.get(name), st1), deep(now.get(name), st2)
                            if eqs and rewrite(new_v, eqs) == old_v:
                                restored.append(f'{sid}: {contracts.short(st1.heap[i].cls)} re-stores a value equal to the one held '
                                                f'(equal by the comparator of the table that found the element)')
                                continue
                            bad.append(f'a field of the {contracts.short(st1.heap[i].cls)} built by the first request is overwritten by the '
                                       f'second with {contracts.render(now.get(name), st2, {})[:80]} (was {contracts.render(before.get(name), st1, {})[:80]})')
        except Unsupported as e:
            raise AnalysisBroken(f'{f["id"]} (second request): {e}')
        ck.check(R6, sid, not bad, f'{f["id"]}: ' + '; '.join(sorted(set(bad))[:3]), loc=f['loc'], fn=f['id'])
    for r in sorted(set(restored)):
        ck.note(r)

    # ---------------------------------------------------------------- spelling lives in storage the Lexicon owns
    R7 = ck.rule('C05.owned-bytes', 'every String node created by intern views the arena copy of the word (data and length of one header '
                 'returned by make_string(word.data(), word.length())), never the caller\'s buffer: a spelling cannot change or dangle '
                 'when the caller reuses its buffer', floor=1)
    import arena
    for inst, ok, msg, loc, fid in arena.owned_bytes(F):
        ck.check(R7, inst, ok, msg, loc=loc, fn=fid)

    # a spelling, once written, is not overwritten by a later allocation: each allocation stays inside its own block
    import c03 as _c03
    _c03.arena_bounds(ck, F, prefix='C05')

    # what a node refers to outlives the call that built it
    import history as _history
    _history.call_storage_rule(ck, F, 'C05')

    # immotile: copy/move disabled for node classes (supporting fact)
    movable = [n for n in sorted(node_like) if not F.rec[n]['abstract'] and F.derives_from(n, 'ipr::Node')
               and (F.rec[n]['copy_constructible'] or F.rec[n]['move_constructible'])]
    ck.extra['copyable_node_classes'] = [contracts.short(n) for n in movable][:40]
    ck.extra['copyable_node_classes_count'] = len(movable)
