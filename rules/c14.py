"""C14 -- missing or out-of-range data raises a logic error, never undefined behaviour."""
from facts import AnalysisBroken, walk, strip_casts
from symex import Sym, State, Unsupported, NULL
import contracts
import keyrule

LEVEL = 'other'
TITLE = 'C14 missing or out-of-range data raises a logic error, never undefined behaviour'

LOGIC_DERIVED = {'std::logic_error', 'std::domain_error', 'std::invalid_argument', 'std::length_error', 'std::out_of_range'}
# raw pointer reads in accessors that rest on a construction invariant (checked below by rule C14.invariants)
DEREF_ALLOW = [
    # (function in which the read happens, suffix of the pointer's access path, invariant)
    ('ipr::impl::decl_rep<', 'master_data',
     'decl_rep is only built by decl_factory::declare/redeclare, which pass the address of a freshly emplaced or found '
     'master_decl_data (checked on every path of Scope::make_*, rule C14.invariants)'),
    ('ipr::impl::decl_rep<', 'master_data.overload',
     'master_decl_data::overload is set by its constructor from the overload set returned by the insert-or-find on the '
     'scope table (rule C14.invariants)'),
    ('ipr::impl::ref_sequence<', 'at(P0)',
     'slots of a ref_sequence hold addresses of references: every library call site of its push_back passes an '
     'address-of expression, this, or forwards a builder\'s pointer parameter; the library never resizes one nor builds '
     'one with unfilled slots (rule C14.ref-sequence-slots)'),
    ('ipr::impl::General_substitution::operator[]', '.second',
     'values of the substitution map are addresses of references: its only writer is subst(p, v), which stores &v '
     '(checked by C16.general)'),
]
# throw sites outside node accessors whose type is not a logic_error (recorded, with reason)
THROW_ALLOW = {
    'ipr::impl::(anon)::UnknownLogogramError': 'thrown by project() for an unknown specifier/qualifier name: refusal by the '
                                               'Lexicon (not a node accessor), required by C10',
}


def nonnull(st, ptr):
    # a search algorithm of the standard library over [first, last) answers a position of that range, never null
    if isinstance(ptr, tuple) and ptr and ptr[0] == 'call' and ptr[1].startswith('std::') and ptr[2] is None \
            and contracts.fn_simple(ptr[1]) in ('find_if', 'find_if_not', 'find', 'lower_bound', 'upper_bound', 'next', 'prev') \
            and ptr[3] and isinstance(ptr[3][0], tuple) and ptr[3][0][0] == 'addr':
        return True
    if isinstance(ptr, tuple) and ptr and ptr[0] not in ('k',):
        for c, val in st.conds:
            if not (isinstance(c, tuple) and c and c[0] == 'un' and c[1] == '!'):
                continue
            if c[2] == ptr and val is False:
                return True
    for c, val in st.conds:
        if c in (('op', '==', ptr, NULL), ('op', '==', NULL, ptr)) and val is False:
            return True
        if c in (('op', '!=', ptr, NULL), ('op', '!=', NULL, ptr)) and val is True:
            return True
        if c == ptr and val is True:
            return True
    return False


def concrete_classes(F):
    return sorted(n for n, r in F.rec.items() if not r['abstract'] and not r.get('lambda')
                  and (F.derives_from(n, 'ipr::Node') or any(a.startswith('ipr::Sequence<') for a in F.ancestors(n))
                       or n.startswith('ipr::cxx_form::impl::') or any(a in ('ipr::Substitution', 'ipr::Capture', 'ipr::Capture_specification',
                                                                              'ipr::Translation_unit', 'ipr::Module', 'ipr::Attribute', 'ipr::Lexeme') for a in F.ancestors(n))))


def index_discipline(ck, F, S, conc, rid='C14.index-discipline'):
    # ---------------------------------------------------------------- index discipline
    R3 = ck.rule(rid, 'every Sequence::get overrider refuses an index outside [0, size()) with a logic error, or '
                 'delegates to a checked accessor (at / another get)', floor=10)
    bounded_gets = []
    for cls in conc:
        gets = [fo for fo in F.final_overrider_by_name(cls, 'get') if fo in F.fn and len(F.fn[fo]['params']) == 1]
        for fid in gets:
            f = F.fn[fid]
            if not any(a.startswith('ipr::Sequence<') for a in F.ancestors(cls)):
                continue
            st = State()
            o = st.new_obj(cls)
            try:
                outs = S.run(fid, this=o, args=[('param', 0)], state=st)
            except Unsupported as e:
                if 'loop' not in str(e):
                    raise AnalysisBroken(f'{fid}: {e}')
                # a positional walk written as a loop: explore it up to three steps (every path of that prefix is judged;
                # the range test that matters precedes the walk)
                Sb = Sym(F, opaque=S.opaque, max_depth=S.max_depth)
                Sb.concrete_loops = True
                Sb.loop_cut = 3
                st = State()
                o = st.new_obj(cls)
                try:
                    outs = Sb.run(fid, this=o, args=[('param', 0)], state=st)
                except Unsupported as e2:
                    raise AnalysisBroken(f'{fid}: {e2}')
                bounded_gets.append(contracts.short(cls))
            inst = contracts.short(cls) + '::get'
            verdicts = []
            for s2, k, v in outs:
                if k == 'throw':
                    verdicts.append(v in LOGIC_DERIVED)
                    continue
                def named(t, names):
                    return isinstance(t, tuple) and t and t[0] in ('call', 'vcall') and contracts.fn_simple(t[1]) in names
                subs = list(subterms(v))
                for e in s2.effects:
                    subs.extend(subterms(e))
                has_at = any(named(t, ('at',)) and t[3] == (('param', 0),) for t in subs)
                has_get = any(named(t, ('get',)) and t[3] == (('param', 0),) for t in subs)
                raw = any(named(t, ('operator[]', 'advance', 'next')) or (isinstance(t, tuple) and t and t[0] == 'index') for t in subs)

                def facts_of(conds):
                    """(lhs, rhs, strict): lhs < rhs / lhs <= rhs known on the path, however the test was written."""
                    out = []

                    def visit(c, val):
                        if not (isinstance(c, tuple) and c):
                            return
                        if c[0] == 'un' and c[1] == '!':
                            return visit(c[2], not val)
                        if c[0] == 'op' and ((c[1] == '||' and not val) or (c[1] == '&&' and val)):
                            visit(c[2], val)
                            visit(c[3], val)
                            return
                        if c[0] == 'op' and c[1] in ('<', '<=', '>', '>='):
                            op, x, y = c[1], c[2], c[3]
                            if not val:
                                op = {'<=': '>', '<': '>=', '>=': '<', '>': '<='}[op]
                            if op in ('>=', '>'):
                                x, y, op = y, x, {'>=': '<=', '>': '<'}[op]
                            out.append((x, y, op == '<'))
                    for c, val in conds:
                        visit(c, val)
                    return out
                guard_false = any(x == ('param', 0) and strict and any(named(t, ('size', 'distance')) for t in subterms(y))
                                  for x, y, strict in facts_of(s2.conds))
                single = any((c == ('op', '==', ('param', 0), ('k', 0, 'int')) and val is True)
                             or (c == ('op', '!=', ('param', 0), ('k', 0, 'int')) and val is False) for c, val in s2.conds)
                # a positional walk that ends by dereferencing an iterator: safe when the path condition says that very iterator
                # is not the end of its sequence (compared with end() after the last step)
                its = [t[2] for t in subterms(v) if isinstance(t, tuple) and len(t) >= 4 and t[0] == 'call' and contracts.fn_simple(t[1]) == 'operator*'
                       and t[2] is not None and not t[3]]

                def not_end(it):
                    def flat(c, val):
                        if isinstance(c, tuple) and c and c[0] == 'un' and c[1] == '!':
                            yield from flat(c[2], not val)
                        elif isinstance(c, tuple) and len(c) == 4 and c[0] == 'op' and ((c[1] == '&&' and val) or (c[1] == '||' and not val)):
                            yield from flat(c[2], val)
                            yield from flat(c[3], val)
                        else:
                            yield c, val
                    for c0, v0 in s2.conds:
                        for c, val in flat(c0, v0):
                            if isinstance(c, tuple) and len(c) >= 4 and c[0] == 'call' and contracts.fn_simple(c[1]) in ('operator==', 'operator!=') and len(c[3]) == 2 \
                                    and it in c[3] and any(named(a, ('end', 'cend')) for a in c[3]):
                                if (contracts.fn_simple(c[1]) == 'operator==') != bool(val):
                                    return True
                    return False
                iter_ok = bool(its) and all(not_end(it) for it in its)
                if raw and not its:
                    verdicts.append(guard_false)
                elif its:
                    verdicts.append(guard_false or iter_ok)
                else:
                    verdicts.append(has_at or has_get or single or guard_false)
            ck.check(R3, inst, bool(verdicts) and all(verdicts),
                     f'{fid}: some path indexes the backing store without a range test that throws '
                     f'({[(k, contracts.render_conds(s2.conds, s2, {})[:60]) for s2, k, v in outs]})', loc=f['loc'], fn=fid)

    return bounded_gets


def run(ck, F):
    ck.explanation = (
        'Every public const member function of every concrete node / sequence class (final overriders and the inline '
        'helpers of the interface) is evaluated symbolically on an abstract object whose links are unconstrained (set or '
        'not); every dereference of a pointer value met on any path must be preceded on that path by a null test that '
        'throws (util::check / util::ref / Optional do), or rest on a listed construction invariant that is itself checked. '
        'Sequence::get overriders must be range-guarded or delegate to a checked accessor; every throw site constructs a '
        'type derived from std::logic_error.')
    S = Sym(F, opaque=contracts.default_opaque(F), max_depth=48)

    # ---------------------------------------------------------------- checked primitives
    R1 = ck.rule('C14.checked-primitives', 'util::check, util::ref::get and Optional::get test for null before dereferencing and '
                 'throw a type derived from std::logic_error', floor=3)
    prim = [f for f in F.fn.values() if (f['q'].startswith('ipr::util::check<') and not f.get('parent'))
            or ((f.get('parent') or '').startswith(('ipr::util::ref<', 'ipr::Optional<')) and f['name'] == 'get')]
    kinds = set()
    for f in sorted(prim, key=lambda f: f['id']):
        kind = 'util::check' if f['q'].startswith('ipr::util::check<') else contracts.short(f['parent'].split('<')[0]) + '::get'
        st = State()
        this = st.new_obj(f['parent']) if f.get('parent') else None
        try:
            outs = S.run(f['id'], this=this, state=st)
        except Unsupported as e:
            raise AnalysisBroken(f'{f["id"]}: {e}')
        ok = len(outs) == 2
        for s2, k, v in outs:
            nulls = [val for c, val in s2.conds if isinstance(c, tuple) and c[0] == 'op' and c[1] == '==' and NULL in (c[2], c[3])]
            if k == 'throw':
                ok = ok and v in LOGIC_DERIVED and nulls == [True]
            else:
                ok = ok and nulls == [False] and all(nonnull(s2, d[0]) for d in s2.derefs)
        kinds.add(kind)
        ck.check(R1, kind + '/' + contracts.short((f.get('targs') or f.get('ptargs') or ['?'])[0]), ok,
                 f'{f["id"]}: outcomes {[(k, v if k == "throw" else "value") for s2, k, v in outs]} do not form `null -> logic_error, else the pointer`',
                 loc=f['loc'], fn=f['id'])
    if kinds != {'util::check', 'ref::get', 'Optional::get'}:
        raise AnalysisBroken(f'checked primitives found: {sorted(kinds)}')

    # ---------------------------------------------------------------- unchecked dereference lint
    R2 = ck.rule('C14.no-unchecked-deref', 'no accessor dereferences a pointer that may be null without a preceding throwing test', floor=1100)
    R2c = ck.rule('C14.accessor-returns', 'no accessor, evaluated on an unconstrained object of each concrete class (virtual calls on the '
                  'object resolved to that class\'s final overriders), comes back to a function that is still being evaluated with the same '
                  'object and arguments: such a cycle of const members never ends', floor=1100)
    conc = sorted(n for n, r in F.rec.items() if not r['abstract'] and not r.get('lambda')
                  and (F.derives_from(n, 'ipr::Node') or any(a.startswith('ipr::Sequence<') for a in F.ancestors(n))
                       or n.startswith('ipr::cxx_form::impl::') or any(a in ('ipr::Substitution', 'ipr::Capture', 'ipr::Capture_specification',
                                                                              'ipr::Translation_unit', 'ipr::Module', 'ipr::Attribute', 'ipr::Lexeme') for a in F.ancestors(n))))
    used_allow = set()
    thrown = {}
    nmeth = 0
    for cls in conc:
        st = State()
        o = st.new_obj(cls)
        methods = dict(contracts.accessor_methods(F, cls))
        # members with parameters (positional access, lookup)
        r = F.rec[cls]
        for c in [cls] + F.ancestors(cls):
            rr = F.rec.get(c)
            if not rr:
                continue
            for m in rr['methods']:
                if m['const'] and not m['static'] and m['params'] and not m['implicit'] and not m['deleted'] and m['access'] != 'private' \
                        and m['name'] in ('get', 'operator[]', 'position') and m['name'] + '/' + str(len(m['params'])) not in methods:
                    fid = m['id']
                    if m['virtual']:
                        fo = F.final_overrider(cls, m['id'])
                        fid = fo or fid
                    methods[m['name'] + '/' + str(len(m['params']))] = fid
        for name, fid in sorted(methods.items()):
            if isinstance(fid, tuple) or fid not in F.fn:
                continue
            f = F.fn[fid]
            nmeth += 1
            inst = contracts.short(cls) + '::' + name
            try:
                outs = S.run(fid, this=o, args=[('param', i) for i in range(len(f['params']))], state=st.fork())
            except Unsupported as e:
                if 'statement' in str(e):
                    # loops inside accessors (linear searches): judged structurally elsewhere; report as note
                    ck.note(f'{inst}: {e} (not evaluated)')
                    continue
                if 'loop' in str(e):
                    # a positional walk written as a loop: judge the first three steps of it (bounded, all paths)
                    Sb = Sym(F, opaque=S.opaque, max_depth=S.max_depth)
                    Sb.concrete_loops = True
                    Sb.loop_cut = 3
                    try:
                        outs = Sb.run(fid, this=o, args=[('param', i) for i in range(len(f['params']))], state=st.fork())
                    except Unsupported as e2:
                        raise AnalysisBroken(f'{fid}: {e2}')
                    ck.note(f'{inst}: contains a data-dependent loop, evaluated up to three iterations')
                else:
                    raise AnalysisBroken(f'{fid}: {e}')
            bad = []
            for s2, k, v in outs:
                if k == 'throw':
                    thrown.setdefault(v, set()).add(inst)
                for ptr, ln, nc, fn, _ne in s2.derefs:
                    if nonnull(s2, ptr):
                        continue
                    if isinstance(ptr, tuple) and ptr[0] == 'call' and ptr[1].startswith('std::') and contracts.fn_simple(ptr[1]) == 'operator->':
                        continue        # p-> on a standard iterator: validity of the iterator is the path condition
                    path = contracts.render(ptr, s2, {o[1]: 'R'})
                    key = None
                    for (fnp, suffix, _why) in DEREF_ALLOW:
                        if (fn or fid).startswith(fnp) and path.replace('*', '').endswith(suffix):
                            key = (fnp, suffix)
                    if key:
                        used_allow.add(key)
                        continue
                    bad.append(f'{path} (in {contracts.short(contracts.fn_qname(fn or fid))}, line {ln})')
            ck.check(R2, inst, not bad, f'{fid} on a {contracts.short(cls)}: dereferences possibly-null ' + '; '.join(sorted(set(bad))),
                     loc=f['loc'], fn=fid)
            # an accessor that comes back to a function already being evaluated, on the same object with the same arguments,
            # has changed nothing in between (const members): it never returns
            top_args = tuple(('param', i) for i in range(len(f['params'])))
            loops = set()
            for s2, k, v in outs:
                for e in s2.effects:
                    if e[0] == 'reentry' and e[2] == o and (e[3] == () or (e[1] == fid and e[3] == top_args)):
                        loops.add((e[1], contracts.render_conds(s2.conds, s2, {o[1]: 'R'})[:90]))
            ck.check(R2c, inst, not loops, f'{fid} on a {contracts.short(cls)} re-enters ' +
                     '; '.join(f'{contracts.short(contracts.fn_qname(g))} (when {w or "called"})' for g, w in sorted(loops)[:2]) +
                     ' on the same object with the same arguments while that call is still being evaluated: unbounded recursion '
                     '(stack overflow) where a std::logic_error or a result is owed', loc=f['loc'], fn=fid)
    ck.extra['accessor_evaluations'] = nmeth
    ck.extra['classes'] = len(conc)
    ck.extra['exceptions_reachable_from_accessors'] = {k: len(v) for k, v in thrown.items()}
    # a dynamic_cast to a *reference* type refuses by throwing std::bad_cast, which is not a logic_error
    for g_ in F.fn.values():
        if not g_['loc'].startswith(('src/', 'include/')) or g_.get('body') is None:
            continue
        for m_ in walk(g_['body']):
            if m_.get('k') == 'cast' and m_.get('explicit') == 'dynamic' and not (m_.get('t') or '').rstrip().endswith('*'):
                thrown.setdefault('std::bad_cast', set()).add(contracts.short(contracts.fn_qname(g_['id'])) + ' (dynamic_cast to a reference)')
    R2b = ck.rule('C14.accessor-exceptions', 'every exception an accessor can raise derives from std::logic_error', floor=2)
    for t, who in sorted(thrown.items()):
        ck.check(R2b, t, t in LOGIC_DERIVED, f'{t} (not a logic_error) can be raised by {sorted(who)[:4]}', detail={'raised_by': len(who)})

    # ---------------------------------------------------------------- invariants behind the allow-list
    R5 = ck.rule('C14.invariants', 'the raw links read without test are non-null by construction on every path of every '
                 'Scope::make_* (first and second request)', floor=16)
    S7 = Sym(F, opaque=keyrule.key_opaque(F), max_depth=64)
    makers = [f for f in F.fns_in('ipr::impl::Scope') if f['name'].startswith('make_')]
    if len(makers) < 8:
        raise AnalysisBroken('Scope::make_* anchors missing')
    for f in sorted(makers, key=lambda f: f['id']):
        runs1 = [r for r in S7.run(f['id']) if r[1] == 'return']
        for st1, _k, v1 in runs1:
            check_links(ck, R5, f, 'first', st1, v1)
            for j, (st2, k2, v2) in enumerate(S7.run(f['id'], args=keyrule.qparams(len(f['params'])), state=st1.fork())):
                if k2 == 'return':
                    check_links(ck, R5, f, f'second#{j}', st2, v2)
    for (fnp, suffix, _why) in DEREF_ALLOW:
        if (fnp, suffix) not in used_allow:
            ck.note(f'allow-list entry {(fnp, suffix)} is no longer needed')
    # slots of ref_sequence
    R7 = ck.rule('C14.ref-sequence-slots', 'library call sites that fill a ref_sequence pass a value that is non-null by '
                 'construction; the library never resizes a ref_sequence or creates unfilled slots', floor=8)
    for g in sorted(F.fn.values(), key=lambda g: g['id']):
        if g.get('unit') == 'probe.cxx' and not g['loc'].startswith(('include/', 'src/')):
            continue
        for n in walk(g.get('body')):
            if n.get('k') != 'call':
                continue
            cal = n.get('callee') or {}
            par = cal.get('parent', '')
            if cal.get('name') == 'push_back' and par.startswith('std::vector<const void *'):
                a = strip_casts(n['args'][0])
                while a.get('k') == 'cast':
                    a = strip_casts(a['e'])
                good = (a.get('k') == 'unop' and a.get('op') == '&') or a.get('k') == 'this' or \
                    (a.get('k') == 'ref' and a.get('kind') in ('parm', 'local')) 
                kind = 'address-of' if a.get('k') == 'unop' else ('this' if a.get('k') == 'this' else 'pointer value `' + str(a.get('name')) + '`')
                ck.check(R7, contracts.short(contracts.fn_qname(g['id'])) + f':{kind}', good,
                         f'{g["id"]} stores a possibly-null value into a ref_sequence', loc=g['loc'], fn=g['id'])
            if cal.get('name') in ('resize',) and par.startswith('std::vector<const void *'):
                ck.fail(R7, contracts.short(contracts.fn_qname(g['id'])) + ':resize', f'{g["id"]} resizes a ref_sequence (creates null slots)', loc=g['loc'], fn=g['id'])
            if n.get('k') == 'ctor':
                pass
        for n in walk(g.get('body')):
            if n.get('k') == 'ctor' and (n.get('cls') or '').startswith('ipr::impl::ref_sequence<') and n.get('args'):
                a = strip_casts(n['args'][0])
                if a.get('k') == 'defarg' or n.get('copy'):
                    continue
                if a.get('cv') == '0':
                    continue
                # Warehouse(n) forwards its own parameter: a client obligation, recorded
                if a.get('k') == 'ref' and a.get('kind') == 'parm':
                    ck.note(f'{contracts.short(contracts.fn_qname(g["id"]))} forwards a client-chosen slot count to ref_sequence (client obligation to fill the slots)')
                    continue
                ck.fail(R7, contracts.short(contracts.fn_qname(g['id'])) + ':unfilled', f'{g["id"]} builds a ref_sequence with unfilled slots', loc=g['loc'], fn=g['id'])

    bounded_gets = index_discipline(ck, F, S, conc)

    # ---------------------------------------------------------------- throw sites
    R4 = ck.rule('C14.throw-types', 'every throw expression in the library constructs a type derived from std::logic_error', floor=15)
    for f in sorted(F.fn.values(), key=lambda f: f['id']):
        if f.get('unit') == 'probe.cxx' and f['id'] in seen_throw_fns(F):
            pass
        for n in walk(f.get('body')):
            if n.get('k') == 'throw':
                t = (n.get('thrown') or 'rethrow').replace('const ', '')
                t2 = t.replace('(anonymous namespace)', '(anon)')
                ok = t in LOGIC_DERIVED or any(a in LOGIC_DERIVED for a in F.ancestors(t2))
                inst = contracts.short(contracts.fn_qname(f['id'])) + ' throws ' + contracts.short(t)
                if not ok and t2 in THROW_ALLOW:
                    ck.note(f'{inst}: {THROW_ALLOW[t2]}')
                    continue
                ck.check(R4, inst, ok, f'{f["id"]} throws {t}, which is not derived from std::logic_error', loc=f['loc'], fn=f['id'])
    # ---------------------------------------------------------------- size() agrees with the storage after a failed growth
    R4c = ck.rule('C14.growth-failure-leaves-size', 'when the standard container behind a sequence fails to grow (std::bad_alloc from '
                  'emplace_after / emplace_back, before anything is linked), push_back has not yet changed any member of the sequence: '
                  'a length kept in a member and incremented first would stay one ahead of the storage, and size(), end() and the bounds '
                  'test of get() would then admit an element that does not exist', floor=3)
    Sg = Sym(F, opaque=contracts.default_opaque(F), max_depth=32)
    Sg.growth_may_fail = True
    for f in sorted((f for f in F.fn.values() if f['name'] == 'push_back' and f.get('body')
                     and (f.get('parent') or '').startswith(('ipr::impl::obj_list<', 'ipr::impl::obj_sequence<'))), key=lambda f: f['id']):
        try:
            outs = Sg.run(f['id'])
        except Unsupported as e:
            raise AnalysisBroken(f'{f["id"]}: {e}')
        fails = [(st, v) for st, k, v in outs if k == 'throw' and v == 'std::bad_alloc']
        if not fails:
            raise AnalysisBroken(f'{f["id"]}: no growth of a standard container found in push_back')
        changed = sorted({contracts.render(k, st, {}) for st, _v in fails for k, val in st.symstore.items()
                          if isinstance(k, tuple) and k[:1] == ('fld',) and k[1] == ('sym', 'this') and val != k})
        ck.check(R4c, contracts.short(f['parent']) + '::push_back/' + str(len(f['params'])), not changed,
                 f'{f["id"]}: when the growth fails, {changed} has already been changed: the sequence reports a length its storage does not have',
                 loc=f['loc'], fn=f['id'])

    # ---------------------------------------------------------------- iteration agrees with positional access
    import c15 as _c15
    R_it = ck.rule('C14.iterator-steps', 'Sequence<T>::Iterator dereferences to get(index) of its sequence, ++ and -- move the index by exactly one '
                   '(whatever integer type the step is computed in), and == / != compare sequence and index: within bounds, iteration in '
                   'either direction visits the elements positional access yields', floor=6)
    _c15.iterator_rule(ck, F, Sym(F, opaque=contracts.default_opaque(F), max_depth=24), R_it)

    # an accessor returns a valid result only if what it refers to is still alive: a Product / Sum built from a Warehouse refers to the
    # Lexicon's copy of the sequence, on every path (the empty warehouse included)
    import c01 as _c01
    _c01.warehouse_copy(ck, F, 'C14')

    # ---------------------------------------------------------------- no unchecked downcast
    R4d = ck.rule('C14.downcasts-confirmed', 'a static downcast (base pointer or reference to derived) in the library is one of the sites '
                  'confirmed by reading: anywhere else the dynamic type of the object is not established, and a member read through the '
                  'wrong layout passes the null test with another member\'s bits instead of being refused', floor=1)
    CONFIRMED_DOWNCASTS = {
        'ipr::impl::decl_factory::redeclare': 'the entry handed in was found by the calling Scope::make_X in the overload set of the declared '
                                              'name under the declared type; entries are created by the same family of functions',
    }
    import re as _re3
    sites = {}
    for f in F.fn.values():
        if not (f.get('loc') or '').startswith(('src/', 'include/ipr')):
            continue
        for n in walk(f.get('body')):
            if n.get('k') == 'cast' and n.get('ck') == 'BaseToDerived':
                q = _re3.sub(r'<[^<>]*(?:<[^<>]*>[^<>]*)*>', '', contracts.fn_qname(f['id']))
                sites.setdefault((q, f['loc'].split(':')[0]), []).append((f, n))
    _callers = {}

    def callers_of(fid):
        if not _callers:
            for g in F.fn.values():
                for m in walk(g.get('body')):
                    if m.get('k') == 'call' and m.get('callee'):
                        _callers.setdefault(m['callee'].get('id'), set()).add(g['id'])
        return _callers.get(fid, set())

    def confirmed(f, n, depth=0):
        """the cast sits in a confirmed function, or in a helper of the same class that converts its own parameter and is called
        from confirmed functions only (the argument made for the site carries over: the same object, the same cast)"""
        q = _re3.sub(r'<[^<>]*(?:<[^<>]*>[^<>]*)*>', '', contracts.fn_qname(f['id']))
        if q in CONFIRMED_DOWNCASTS:
            return True
        if depth >= 2 or not f.get('parent'):
            return False
        src = strip_casts(n.get('e') or {})
        if not (src.get('k') == 'ref' and src.get('kind') == 'parm'):
            return False
        cs = callers_of(f['id'])
        if not cs:
            return False
        for cid in cs:
            g = F.fn.get(cid)
            if g is None or (g.get('parent') or '') != f['parent']:
                return False
            # the caller hands its own parameter on
            hands_on = any(m.get('k') == 'call' and (m.get('callee') or {}).get('id') == f['id'] and len(m.get('args', [])) > src.get('idx', 99)
                           and strip_casts(m['args'][src['idx']]).get('kind') == 'parm' for m in walk(g.get('body')))
            gq = _re3.sub(r'<[^<>]*(?:<[^<>]*>[^<>]*)*>', '', contracts.fn_qname(cid))
            if not (hands_on and gq in CONFIRMED_DOWNCASTS):
                return False
        return True
    for (q, _file), lst in sorted(sites.items()):
        f, n = lst[0]
        ck.check(R4d, contracts.short(q), all(confirmed(f_, n_) for f_, n_ in lst),
                 f'{f["id"]} (line {n.get("ln")}) casts a `{(n.get("e") or {}).get("t")}` down to `{n.get("t")}` without establishing what the object is: '
                 'if it is of another kind, the members read afterwards are another class\'s', loc=f['loc'], fn=f['id'])

    # ---------------------------------------------------------------- a refusal must be able to leave the function
    R4b = ck.rule('C14.noexcept-honest', 'a function written noexcept, and every destructor, has no path on which an exception is raised: '
                  'an exception that meets a noexcept boundary ends the program (std::terminate) instead of reaching the caller as a '
                  'std::logic_error -- each such function is evaluated on an unconstrained object, the functions it calls included', floor=3)
    unanalysed = []
    for f in sorted(F.fn.values(), key=lambda f: f['id']):
        if not f.get('body') or f.get('implicit') or not (f.get('noexcept') or f.get('dtor')):
            continue
        if not (f.get('loc') or '').startswith(('include/ipr', 'src/')):
            continue
        inst = '::'.join(contracts.short(x) for x in contracts.fn_qname(f['id']).split('::')[-2:]) + ('' if f.get('dtor') else '/' + str(len(f.get('params', []))))
        try:
            paths = S.run(f['id'])
        except Unsupported as e:
            unanalysed.append(f'{inst}: {e}')
            continue
        thr = [(st, v) for st, k, v in paths if k == 'throw']
        what = '; '.join(sorted({f'{contracts.short(str(v))} when {contracts.render_conds(st.conds, st, {})[:90] or "called"}' for st, v in thr})[:2])
        ck.check(R4b, inst, not thr, f'{f["id"]} is {"a destructor" if f.get("dtor") else "declared noexcept"} but raises {what}: the refusal '
                 'never reaches the caller, the program is terminated', loc=f['loc'], fn=f['id'])
    if unanalysed:
        ck.note(f'noexcept-honest: {len(unanalysed)} function(s) outside the evaluator language, nothing claimed about them: ' + '; '.join(unanalysed[:4]))

    # ---------------------------------------------------------------- no link is left indeterminate by a constructor
    R7 = ck.rule('C14.links-initialised', 'every user-provided constructor of a library class initialises each raw-pointer member that has '
                 'no default member initialiser (in its initialiser list or by assignment in its body): a link that was never set reads '
                 'as null and is refused, never as an indeterminate value that passes the null test', floor=15)
    for name, r in sorted(F.rec.items()):
        if not name.startswith('ipr::') or r.get('lambda'):
            continue
        ptrs = [fl for fl in r['fields'] if fl['t'].rstrip().endswith('*') and 'init' not in fl]
        if not ptrs:
            continue
        for m in r['methods']:
            c = F.fn.get(m['id']) if m.get('ctor') else None
            if c is None or c.get('implicit') or c.get('defaulted') or c.get('body') is None:
                continue
            inits = c.get('inits', [])
            if any(i.get('kind') not in ('base', 'member') for i in inits):
                continue                    # delegating: the target constructor is judged
            inited = {i.get('name') for i in inits if i.get('kind') == 'member'}
            for nd in walk(c.get('body')):
                if nd.get('k') == 'binop' and nd.get('op') == '=':
                    lhs = strip_casts(nd['l'])
                    if lhs.get('k') == 'member':
                        inited.add(lhs.get('name'))
            miss = [fl['name'] for fl in ptrs if fl['name'] not in inited]
            ck.check(R7, contracts.short(contracts.fn_qname(c['id'])) + '/' + str(len(c['params'])), not miss,
                     f'{c["id"]} leaves the pointer member(s) {miss} of {contracts.short(name)} indeterminate: a later read of the link passes '
                     'the null test with a garbage value instead of being refused', loc=c['loc'], fn=c['id'])

    # ---------------------------------------------------------------- nothing is left indeterminate by a constructor
    import initrule as _initrule
    R_ind = ck.rule('C14.members-initialised', 'every user-provided constructor of a library class leaves no scalar sub-object of the new object indeterminate -- directly, or inside a member or base whose own default-initialisation does nothing (a util::ref whose default constructor was defaulted): a link that was never set reads as null and is refused, never as a garbage value that passes the null test', floor=200)
    _SINGULAR = {'ipr::Sequence<': 'a default-constructed Sequence<T>::Iterator is a singular iterator (it may only be assigned to), as the '
                 'iterator requirements allow; the library never reads one'}
    for name_, r_ in sorted(F.rec.items()):
        if not name_.startswith('ipr::') or r_.get('lambda'):
            continue
        for m_ in r_['methods']:
            c_ = F.fn.get(m_['id']) if m_.get('ctor') else None
            if c_ is None or c_.get('implicit') or c_.get('defaulted') or c_.get('body') is None or c_.get('copy'):
                continue
            leaves = _initrule.ctor_leaves(F, c_)
            pass
            why = next((w for k_, w in _SINGULAR.items() if name_.startswith(k_) and name_.endswith('::Iterator')), None)
            if leaves and why:
                ck.note(f'{contracts.short(name_)}: {why}')
                leaves = []
            ck.check(R_ind, contracts.short(contracts.fn_qname(c_['id'])) + '/' + str(len(c_['params'])), not leaves,
                     f'{c_["id"]} leaves {leaves[:4]} of the {contracts.short(name_)} it constructs indeterminate (no initialiser in the constructor, no default '
                     'member initialiser, and default-initialisation of that member does nothing)', loc=c_['loc'], fn=c_['id'])

    # std::get on the function-declaration variant must be dominated by an index() test
    R6 = ck.rule('C14.variant-access', 'std::get on the parameter-list/mapping variant of a function declaration is reached only '
                 'under the matching index() test', floor=3)
    fd = 'ipr::impl::Fundecl'
    F.need_rec(fd)
    for f in sorted(F.fns_in(fd), key=lambda f: f['id']):
        if f.get('ctor') or f['name'] not in ('parameters', 'mapping', 'initializer'):
            continue
        st = State()
        o = st.new_obj(fd)
        outs = S.run(f['id'], this=o, args=[], state=st)
        # std::get<I> is modelled by the evaluator: the alternative when the path condition fixes index() == I,
        # std::bad_variant_access on the paths where it does not
        good = not any(k == 'throw' and v == 'std::bad_variant_access' for s2, k, v in outs)
        ck.check(R6, 'Fundecl::' + f['name'], good, f'{f["id"]}: variant alternative read without the matching index() test', loc=f['loc'], fn=f['id'])


def seen_throw_fns(F):
    return ()


def subterms(t):
    if isinstance(t, tuple):
        yield t
        for x in t:
            yield from subterms(x)


def check_links(ck, R5, f, tag, st, v):
    root = v[1] if v[0] == 'addr' else v
    o = st.heap.get(root[1]) if root[0] == 'obj' else None
    inst = 'Scope::' + f['name'] + '/' + tag
    if o is None:
        ck.fail(R5, inst, 'result is not an object', loc=f['loc'], fn=f['id'])
        return
    dd = o.fields.get('decl_data')
    md = st.heap[dd[1]].fields.get('master_data') if dd and dd[0] == 'obj' else None
    ok = bool(md) and md[0] == 'addr' and md[1][0] == 'obj'
    ovl = None
    if ok:
        ovl = st.heap[md[1][1]].fields.get('overload')
        ok = bool(ovl) and ovl[0] == 'addr' and ovl[1][0] == 'obj'
    ck.check(R5, inst, ok, f'{f["id"]} ({tag}): master_data={contracts.render(md, st, {}) if md else None}, '
             f'overload={contracts.render(ovl, st, {})[:60] if ovl else None}: a raw link read without test may be null',
             loc=f['loc'], fn=f['id'])
