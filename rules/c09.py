"""C09 -- every node has the type its kind prescribes; sequence types track their members."""
import json
import os

from facts import AnalysisBroken, VERIF, walk
from symex import Sym, State, Unsupported
import contracts
import wire

LEVEL = 'other'
TITLE = 'C09 every node has the type its kind prescribes; sequence types track their members'

EXPR = 'ipr::Expr'
TYPE_FN = 'ipr::Expr::type() const'

# From the property statement / interface comments: interface -> built-in kind of its type
FIXED = {
    'ipr::Break': 'Void', 'ipr::Continue': 'Void', 'ipr::Asm': 'Void',
    'ipr::Static_assert': 'Bool', 'ipr::Requires': 'Bool', 'ipr::Restriction': 'Bool',
    'ipr::Class': 'Class', 'ipr::Closure': 'Class', 'ipr::Union': 'Union', 'ipr::Enum': 'Enum',
    'ipr::Namespace': 'Namespace',
}
UDT = ('ipr::Class', 'ipr::Closure', 'ipr::Union', 'ipr::Enum', 'ipr::Namespace')
# interface -> accessor whose result lends its type
BORROW = {
    'ipr::Rewrite': 'target', 'ipr::Where': 'main', 'ipr::Expr_stmt': 'expr', 'ipr::Labeled_stmt': 'stmt',
    'ipr::Goto': 'target', 'ipr::Phased_evaluation': 'expression', 'ipr::Instantiation': 'instance',
    'ipr::Do': 'body', 'ipr::While': 'body', 'ipr::Switch': 'body', 'ipr::For': 'body', 'ipr::For_in': 'body',
    'ipr::Handler': 'body',
}
# interface -> accessor that *is* the type (target type of casts and literals)
IS_TYPE = {'ipr::Cast': 'first', 'ipr::Const_cast': 'first', 'ipr::Dynamic_cast': 'first',
           'ipr::Reinterpret_cast': 'first', 'ipr::Static_cast': 'first', 'ipr::Literal': 'first'}
# symbolic constants: global -> built-in kind
CONSTANTS = {'false_cst': 'Bool', 'true_cst': 'Bool', 'delete_cst': 'Void'}


def builtin_term(kind):
    return f'ipr::impl::(anon)::builtins[ipr::impl::(anon)::Fundamental::{kind}]'


def iface_of(F, cls):
    """Interface leaf class (namespace ipr, non-template, has a Category<> base) implemented by cls."""
    for a in [cls] + F.ancestors(cls):
        r = F.rec.get(a)
        if r and a.startswith('ipr::') and not a.startswith('ipr::impl::') and not a.startswith('ipr::util::') \
                and not r.get('template') and '(' not in a:
            for b in F.ancestors(a)[:4] + [a]:
                pass
            # leaf = has a Category ancestor reached through templates only
            anc = F.ancestors(a)
            if any(F.rec.get(x, {}).get('template') == 'ipr::Category' for x in anc):
                return a
    return None


def scope_size_rule(ck, F, prefix):
    # the elements a scope reports (and hence the factors of its product type) are those of its store *now*: size() is an observation
    # of the store, not a count kept on the side that some way of filling the store does not update
    R_sz = ck.rule(f'{prefix}.scope-size-derived', 'size() of every scope class (heterogeneous and homogeneous) agrees with the store of declarations: '
                   'it is computed from the store itself (its size / the distance between its ends), or it reads a member that every '
                   'constructor sets to the size the store starts with and every member function changes by exactly the number of elements '
                   'it enters, nothing outside the class entering any: the elements, and with them the type of the scope, always reflect '
                   'what has been entered, by whatever route', floor=4)
    import invariants as _inv
    S_plain = Sym(F, max_depth=40)
    S_plain.use_lemmas = False          # the rule judges the induction itself
    for f in _inv.size_functions(F):
        par = f['parent']
        bad = []
        for st, v, kind, m in _inv.size_answers(F, S_plain, f):
            if kind == 'store':
                continue
            if kind == 'member':
                why, judged = _inv.counter_agrees(F, S_plain, par, m, f)
                ck.note(f'{contracts.short(par)}::size reads the member `{m}`: judged by induction over {judged} constructor / member-function path(s)')
                bad.extend(why[:3])
            else:
                bad.append(f'answers `{contracts.render(v, st, {})[:60]}`, which is neither computed from the store nor a member of the scope')
        ck.check(R_sz, contracts.short(par) + '::size', not bad, f'{f["id"]}: ' + '; '.join(bad) + ' -- a count kept beside the store that a store '
                 'filled by another route (a constructor, a direct push) does not match', loc=f['loc'], fn=f['id'])


def run(ck, F):
    ck.explanation = (
        'type() is evaluated symbolically on an abstract object of every concrete expression class the library '
        'instantiates (final overrider resolved per class) and classified: fixed built-in kind, borrowed from a '
        'designated sub-node (compared with the term of that accessor on the same object), the stored target '
        'type, given at construction (factory contracts: the type parameter reaches type()), or the on-demand '
        'product of a live sequence (typed_sequence holds no copy of the types).')
    S = Sym(F, opaque=contracts.default_opaque(F), max_depth=48)
    conc = sorted(n for n, r in F.rec.items() if not r['abstract'] and F.derives_from(n, EXPR))
    if len(conc) < 150:
        raise AnalysisBroken(f'only {len(conc)} concrete expression classes found')

    R_fixed = ck.rule('C09.kind-fixed', 'nodes whose type is fixed by their kind report that built-in (void / bool / class / '
                      'union / enum / namespace / typename) for all operands', floor=34)
    R_borrow = ck.rule('C09.borrowed', 'nodes that borrow their type report the type of the designated sub-node', floor=13)
    R_is = ck.rule('C09.target-type', 'casts and literals report their target type operand', floor=6)

    def obs(cls, accs):
        st = State()
        o = st.new_obj(cls)
        # the object's category code is the one its class is stamped with (C06), not an unknown
        from facts import category_of
        cat = category_of(F, cls)
        if cat is not None:
            st.heap[o[1]].fields['category'] = ('k', cat[1], 'enum:ipr::Category_code::' + cat[0])
        names = {o[1]: 'R'}
        return contracts.observe(S, F, st, o, names, accessor_filter=lambda n: n in accs), st, o

    def value_part(s):
        """non-throwing alternative of an outcome string (drop the guard text)."""
        alts = [a for a in (s or '').split(' | ') if not a.startswith('throw ')]
        if len(alts) != 1:
            return None
        return alts[0].split(' if ')[0]

    seen_ifaces = {}
    for cls in conc:
        ifc = iface_of(F, cls)
        if ifc is None:
            continue
        seen_ifaces.setdefault(ifc, []).append(cls)
        r = F.rec[cls]
        inst = contracts.short(cls)
        is_type_node = F.derives_from(cls, 'ipr::Type')
        want_fixed = FIXED.get(ifc) or ('Typename' if is_type_node and ifc not in UDT else None)
        if want_fixed:
            a, _st, _o = obs(cls, {'type'})
            ck.check(R_fixed, inst, a.get('type') == builtin_term(want_fixed),
                     f'{cls}::type() is `{a.get("type")}`; a {contracts.short(ifc)} has type `{want_fixed.lower()}`',
                     loc=r['loc'], detail={'interface': ifc, 'type': want_fixed})
        elif ifc in BORROW:
            acc = BORROW[ifc]
            a, _st, _o = obs(cls, {'type', acc})
            tv, av = value_part(a.get('type')), value_part(a.get(acc))
            ok = tv is not None and av is not None and (tv == av + '.type()' or tv == '*' + av.lstrip('*') + '.type()'
                                                         or tv == '*' + av + '.ptr.type()')
            if not ok and av is not None and tv is not None:
                # the sub-node is a by-value member of known class: its own type() may have been inlined
                ok = borrowed_inline(F, S, cls, acc, tv)
            ck.check(R_borrow, inst, ok, f'{cls}::type() is `{a.get("type")}` but {acc}() is `{a.get(acc)}`: the type is '
                     f'not borrowed from {acc}()', loc=r['loc'], detail={'from': acc})
        elif ifc in IS_TYPE:
            acc = IS_TYPE[ifc]
            a, _st, _o = obs(cls, {'type', acc})
            ck.check(R_is, inst, a.get('type') is not None and a.get('type') == a.get(acc),
                     f'{cls}::type() is `{a.get("type")}`, its target type operand {acc}() is `{a.get(acc)}`', loc=r['loc'])
    for ifc in list(FIXED) + list(BORROW) + list(IS_TYPE):
        if ifc not in seen_ifaces:
            raise AnalysisBroken(f'no concrete implementation of {ifc} found in the facts')

    # symbolic constants
    R_const = ck.rule('C09.constants', 'truth values have type bool, the deleted-definition constant has type void, nullptr '
                      'has its own decltype(nullptr)', floor=4)
    for g in F.globals:
        if g['name'] in CONSTANTS or g['name'] == 'nullptr_cst':
            if 'init' not in g:
                raise AnalysisBroken(f'initializer of {g["q"]} not in facts')
            # the type a constant reports is the one its initialiser gives it only as long as the object cannot be written
            ck.check(R_const, g['name'] + '/immutable', bool(g.get('const') or g.get('constexpr')),
                     f'{g["q"]} is not a const object (declared `{g["t"]}`): a route that finds it can store another type into it, for every Lexicon '
                     'of the process', loc=g['loc'])
            st = State()
            st.envs[-1]['this'] = ('sym', 'none')
            res = S.ev(g['init'], st)
            if len(res) != 1:
                raise AnalysisBroken(f'{g["q"]}: branching initializer')
            st, o = res[0]
            names = {o[1]: 'R'} if o[0] == 'obj' else {}
            a = contracts.observe(S, F, st, o, names, accessor_filter=lambda n: n == 'type')
            if g['name'] == 'nullptr_cst':
                # type() must be an owned Decltype whose operand is the constant itself
                outs = S.run(F.final_overrider(st.heap[o[1]].cls, TYPE_FN), this=o, args=[], state=st.fork())
                good = False
                if len(outs) == 1 and outs[0][1] == 'return':
                    t = outs[0][2]
                    s2 = outs[0][0]
                    if t[0] == 'obj' and s2.heap[t[1]].cls.endswith('<ipr::Decltype>>'):
                        names2 = {o[1]: 'R', t[1]: 'T'}
                        oa = contracts.observe(S, F, s2, t, names2, accessor_filter=lambda n: n in ('operand', 'expr'))
                        good = oa.get('operand') == 'R' and oa.get('expr') == 'R'
                ck.check(R_const, g['name'], good, 'nullptr does not report an own decltype whose operand is nullptr itself', loc=g['loc'])
            else:
                ck.check(R_const, g['name'], a.get('type') == builtin_term(CONSTANTS[g['name']]),
                         f'{g["q"]} has type `{a.get("type")}`, expected {CONSTANTS[g["name"]].lower()}', loc=g['loc'])

    # given at construction: a trailing Optional<Type> / documented Type parameter reaches type()
    R_given = ck.rule('C09.given', 'a node given a type at construction reports exactly that type: the factory\'s type '
                      'parameter is what type() returns (absent => refused with logic_error)', floor=75)
    cur = wire.compute(F)
    TYPE_PARAM = {   # factories whose type argument is a `const Type&` (position of the parameter)
        'make_demotion': 1, 'make_promotion': 1, 'make_read': 1, 'make_materialization': 1,
        'make_coercion': 2, 'make_narrow': 2, 'make_widen': 2, 'make_pretend': 2, 'make_qualification': 2,
        'make_construction': 0, 'make_using_directive': 1, 'make_eclipsis': 0, 'get_symbol': 1, 'get_this': 0,
    }
    for fid, paths in sorted(cur.items()):
        f = F.fn[fid]
        if not f['params']:
            continue
        last = len(f['params']) - 1
        lt = f['params'][last]['t']
        sid = '::'.join(contracts.fn_qname(fid).split('::')[-2:]) + '/' + str(len(f['params']))
        if lt == 'ipr::Optional<ipr::Type>':
            want = f'*P{last}.ptr if !(P{last}.ptr == nullptr) | throw logic_error if (P{last}.ptr == nullptr)'
        elif f['name'] in TYPE_PARAM and f.get('parent', '').endswith(('expr_factory', 'dir_factory')):
            want = f'P{TYPE_PARAM[f["name"]]}'
        elif f['name'] == 'make_phantom' and len(f['params']) == 1:
            want = 'P0'
        else:
            continue
        for i, p in enumerate(paths):
            if 'accessors' not in p:
                continue
            got = p['accessors'].get('type')
            ck.check(R_given, f'{sid}#{i}', got == want, f'{fid}: type() yields `{got}`, expected the type argument `{want}`',
                     loc=f['loc'], fn=fid)
    # casts and literals: the target type handed to the factory is the type reported, on every path (a path that hands the
    # request on to another factory of the family must hand the same type on)
    R_tgt = ck.rule('C09.target-type-given', 'a factory of a cast or a literal reports the target type it was asked for: on every returning '
                    'path the node\'s type() is the factory\'s type parameter itself, and a path that delegates to another factory of the '
                    'family passes that very parameter on -- no path substitutes a variant of it (unqualified, canonical, ...)', floor=6)
    fam = {}
    for f in wire.all_factories(F):
        rt = (f.get('ret') or '').replace('const ', '').rstrip('*& ').strip()
        if not rt or rt not in F.rec:
            continue
        ifc = rt if rt in IS_TYPE else next((a for a in F.ancestors(rt) if a in IS_TYPE), None)
        tps = [i for i, p in enumerate(f['params']) if p['t'].replace(' ', '') == 'constipr::Type&']
        if ifc is None or len(tps) != 1:
            continue
        fam[f['id']] = (f, tps[0])
    for fid, (f, k) in sorted(fam.items()):
        sid = '::'.join(contracts.fn_qname(fid).split('::')[-2:]) + '(' + ', '.join(contracts.short(p['t']) for p in f['params']) + ')'
        try:
            outs = [o for o in S.run(fid) if o[1] == 'return']
        except Unsupported as e:
            raise AnalysisBroken(f'{fid}: {e}')
        for pi, (st, _k, v) in enumerate(outs):
            t = v
            while isinstance(t, tuple) and t and t[0] in ('addr', 'deref', 'castto'):
                t = t[1] if t[0] != 'castto' else t[2]
            when = contracts.render_conds(st.conds, st, {})[:80]
            if isinstance(t, tuple) and t[:1] == ('obj',) and t[1] in st.heap:
                a = contracts.observe(S, F, st, t, {t[1]: 'R'}, accessor_filter=lambda n: n == 'type')
                ck.check(R_tgt, f'{sid}#{pi}', a.get('type') == f'P{k}',
                         f'{fid} (when {when or "always"}): type() of the node is `{a.get("type")}`, the target type asked for is P{k}',
                         loc=f['loc'], fn=fid)
            elif isinstance(t, tuple) and t[:1] in (('call',), ('vcall',)) and t[1] in fam:
                k2 = fam[t[1]][1]
                arg = t[3][k2] if len(t[3]) > k2 else None
                ck.check(R_tgt, f'{sid}#{pi}', arg == ('param', k),
                         f'{fid} (when {when or "always"}): hands the request on to {contracts.fn_simple(t[1])} with the type '
                         f'`{contracts.render(arg, st, {})}` instead of the target type P{k} it was asked for', loc=f['loc'], fn=fid)
            else:
                ck.check(R_tgt, f'{sid}#{pi}', False, f'{fid} (when {when or "always"}): returns `{contracts.render(v, st, {})[:100]}`, neither a '
                         'node of its own nor the answer of a sibling factory', loc=f['loc'], fn=fid)

    # a node that is found in a table instead of being built reports the type of *this* request only if the table finds equal
    # exactly the requests with the same type (and the same other operands)
    import keyrule
    K = keyrule.KeyChecker(ck, F, 'C09')
    for r in (K.R_diag, K.R_lex, K.R_atom):
        ck.rules[r]['desc'] = ('(an expression node returned from a table instead of being built -- literals, symbols, `this` -- reports the '
                               'type it was asked with only if the table finds equal what is equal) ' + ck.rules[r]['desc'])
    nk = 0
    for fid in sorted(cur):
        f = F.fn[fid]
        if any((p.get('origin') or '').startswith('unified') for p in cur[fid]) and f.get('parent') in contracts.FACTORY_CLASSES \
                and f.get('parent', '').endswith('expr_factory') and any(p['t'].replace(' ', '') == 'constipr::Type&' for p in f['params']):
            K.factory(f)
            nk += 1
    if nk < 2:
        raise AnalysisBroken(f'only {nk} unifying expression factories with a type parameter found')
    K.finish_cover()
    K.finish_partial(())
    for r in (K.R_diag, K.R_lex, K.R_cover, K.R_guard):
        ck.rules[r]['floor'] = 2
    ck.rules[K.R_atom]['floor'] = 1

    # a declaration entered into a populated scope reports the type it was declared with (whatever bookkeeping path it took)
    import c02 as _c02
    _c02.redeclaration_operands(ck, F, 'C09', only={'type'})

    scope_size_rule(ck, F, 'C09')
    # a node given its type at construction keeps reporting it: a typed make_ request returns a node of its own, not an existing one
    # whose type the client can still set (the mutable placeholders)
    import borrow as _borrow
    _borrow.borrow(ck, F, 'C05', 'C09', {'make-is-fresh'})
    # members entered into an enumeration, a parameter list, a base list: the enumerator has the enumeration as its type, a parameter
    # or a base the type it was given -- on every path, whatever else the owner has been told since (an underlying type, ...)
    MEMBER_TYPES = {'ipr::impl::Enum::add_member(const ipr::Name &)': '$this',
                    'ipr::impl::Class::declare_base(const ipr::Type &)': 'P0',
                    'ipr::impl::Parameter_list::add_member(const ipr::Name &, const ipr::Type &)': 'P1',
                    'ipr::impl::Mapping::param(const ipr::Name &, const ipr::Type &)': 'P1'}
    for fid, want in sorted(MEMBER_TYPES.items()):
        paths = cur.get(fid)
        if paths is None:
            raise AnalysisBroken(f'anchor vanished: {fid}')
        for i, p in enumerate(paths):
            if 'accessors' not in p:
                continue
            got = p['accessors'].get('type')
            sid = '::'.join(contracts.fn_qname(fid).split('::')[-2:]) + '/' + str(len(F.fn[fid]['params']))
            ck.check(R_given, f'{sid}#{i}', got == want, f'{fid}: type() of the member yields `{got}`, expected `{want}`' +
                     (f' (when {p.get("when")[:80]})' if p.get('when') else ''), loc=F.fn[fid]['loc'], fn=fid)
    # id-expression of a declaration: that declaration's type
    for fid, paths in cur.items():
        if fid == 'ipr::impl::expr_factory::make_id_expr(const ipr::Decl &)':
            accs = [p['accessors'].get('type') for p in paths if 'accessors' in p]
            got = accs[0] if len(accs) == len(paths) and len(set(accs)) == 1 else f'{len(paths)} outcomes, {len(accs)} of them a new node: {accs}'
            ck.check(R_given, 'make_id_expr(decl)', got == 'P0.type()', f'{fid}: type() yields `{got}`, expected the declaration\'s type',
                     loc=F.fn[fid]['loc'], fn=fid)

    # the type a node reports is the one it was given, whatever is requested afterwards
    R_keep = ck.rule('C09.type-kept', 'the type a factory-built node reports is not changed by a later request to the same factory (any '
                     'arguments; found and fresh paths): type() of the first request\'s node, evaluated before and after the second request, '
                     'is the same term -- up to the identities that `the table found an equal element` implies on that path', floor=200)
    import history
    import keyrule
    SK = Sym(F, opaque=keyrule.key_opaque(F), max_depth=48)
    for f in sorted(wire.all_factories(F), key=lambda f: f['id']):
        sid = '::'.join(contracts.fn_qname(f['id']).split('::')[-2:]) + '/' + str(len(f['params']))
        bad = []
        try:
            for st1, k1, v1 in S.run(f['id']):
                if k1 != 'return' or not isinstance(v1, tuple):
                    continue
                node = v1[1] if v1[0] == 'addr' else v1
                if not (isinstance(node, tuple) and node[0] == 'obj' and node[1] in st1.heap):
                    continue
                tfo = [fo for fo in F.final_overrider_by_name(st1.heap[node[1]].cls, 'type') if fo in F.fn]
                if len(tfo) != 1 or F.fn[tfo[0]]['params']:
                    continue
                before = [(k, history.deep(v, s)) for s, k, v in S.run(tfo[0], this=node, args=[], state=st1.fork())]
                base_eff = len(st1.effects)
                for st2, _k2, _v2 in S.run(f['id'], args=keyrule.qparams(len(f['params'])), state=st1.fork()):
                    s2 = st2.fork()
                    s2.throw = None          # a refused second request must leave the node as it was, too
                    after = [(k, history.deep(v, s)) for s, k, v in S.run(tfo[0], this=node, args=[], state=s2)]
                    if after == before:
                        continue
                    eqs = history.found_equalities(F, SK, st2, base_eff)
                    if eqs and [(k, history.rewrite(v, eqs)) for k, v in after] == before:
                        continue
                    bad.append(f'type() of the node built by the first request was {[contracts.render(v, st1, {})[:60] if k == "return" else "throw " + str(v) for k, v in before]} '
                               f'and is {[contracts.render(v, st2, {})[:60] if k == "return" else "throw " + str(v) for k, v in after]} after a second request')
        except Unsupported as e:
            raise AnalysisBroken(f'{f["id"]} (second request): {e}')
        ck.check(R_keep, sid, not bad, f'{f["id"]}: ' + '; '.join(sorted(set(bad))[:2]), loc=f['loc'], fn=f['id'])

    # sequence types computed on demand
    R_seq = ck.rule('C09.sequence-types', 'the type of a scope / parameter list / expression list is a typed_sequence view of '
                    'the live member sequence: size() and get(i) delegate, nothing is cached', floor=12)
    ts = sorted(n for n, r in F.rec.items() if r.get('template') == 'ipr::impl::typed_sequence')
    if len(ts) < 4:
        raise AnalysisBroken(f'only {len(ts)} typed_sequence instantiations found')
    # inside typed_sequence only: calls on the member sequence stay symbolic
    S2 = Sym(F, opaque=lambda fid: not (F.fn.get(fid, {}).get('parent') or '').startswith('ipr::impl::typed_sequence<'), max_depth=8)
    for cls in ts:
        r = F.rec[cls]
        fields = [fl['name'] for fl in r['fields']]
        ck.check(R_seq, contracts.short(cls) + '/no-cache', len(fields) == 1 and r['fields'][0]['t'].replace('const ', '').rstrip(' &') == r['targs'][0],
                 f'{cls} has data members {fields}: a typed_sequence must hold the member sequence only (no cached types)', loc=r['loc'])
        seqcls = r['targs'][0]
        for meth, nargs in (('size', 0), ('get', 1), ('operand', 0)):
            fos = [fo for fo in F.final_overrider_by_name(cls, meth) if 'typed_sequence' in fo]
            if len(fos) != 1:
                raise AnalysisBroken(f'{cls}: {meth}() overrider not found')
            if fos[0] not in F.fn:
                ck.note(f'{contracts.short(cls)}::{meth} is not instantiated in any unit')
                continue
            st2 = State()
            o2 = st2.new_obj(cls)
            outs = S2.run(fos[0], this=o2, args=[('param', i) for i in range(nargs)], state=st2)
            good = len(outs) == 1 and outs[0][1] == 'return'
            got = None
            if good:
                v = outs[0][2]
                got = contracts.render(v, outs[0][0], {o2[1]: 'R'})
                seq = ('fld', o2, fields[0])
                if meth == 'size':
                    good = v[0] in ('call', 'vcall') and v[2] == seq and not v[3] and contracts.fn_qname(v[1]).endswith('::size')
                elif meth == 'get':
                    good = (v[0] in ('call', 'vcall') and contracts.fn_qname(v[1]).endswith('::type') and not v[3]
                            and v[2][0] in ('call', 'vcall') and contracts.fn_qname(v[2][1]).endswith('::get')
                            and v[2][2] == seq and v[2][3] == (('param', 0),))
                else:
                    good = v == o2
            ck.check(R_seq, contracts.short(cls) + '/' + meth, good,
                     f'{cls}::{meth}() evaluates to `{got}`; expected ' +
                     {'size': 'seq.size()', 'get': 'seq.get(i).type()', 'operand': 'the view itself'}[meth], loc=r['loc'])
    # the nodes hand out exactly that view over the sequence elements()/operand() expose
    for cls, tacc, sacc in [('ipr::impl::Scope', 'type', 'elements'), ('ipr::impl::Expr_list', 'type', 'operand'),
                            ('ipr::impl::Parameter_list', 'type', 'elements')]:
        F.need_rec(cls)
        a, st, o = obs(cls, {tacc, sacc})
        t, s = a.get(tacc) or '', a.get(sacc) or ''
        ck.check(R_seq, contracts.short(cls) + '/view', bool(t) and s.startswith(t + '.seq'),
                 f'{cls}: type() is `{t}` but the members are `{s}`: the product is not a view of the live member sequence',
                 loc=F.rec[cls]['loc'])


def borrowed_inline(F, S, cls, acc, tv):
    """type() may have inlined the type() of a by-value member (Handler::block): compare with the member's own type()."""
    fos = [fo for fo in F.final_overrider_by_name(cls, acc) if fo.endswith('() const')]
    for fo in fos:
        f = F.fn.get(fo)
        if f is None:
            continue
        st = State()
        o = st.new_obj(cls)
        outs = S.run(fo, this=o, args=[], state=st)
        for s, k, v in outs:
            if k != 'return' or v is None:
                continue
            # v designates a member object: find its declared class
            if v[0] == 'fld' and v[1] == o:
                c, fl = F.field(cls, v[2])
                mt = fl['t'].replace('const ', '').strip() if fl else None
                if mt in F.rec:
                    tf = F.final_overrider(mt, TYPE_FN)
                    if tf and tf in F.fn:
                        so = s.fork()
                        mo = so.new_obj(mt)
                        outs2 = S.run(tf, this=mo, args=[], state=so)
                        names = {o[1]: 'R', mo[1]: 'R.' + v[2]}
                        alts = [contracts.render(v2, s2, names) for s2, k2, v2 in outs2 if k2 == 'return']
                        if len(alts) == 1 and alts[0] == tv:
                            return True
    return False
