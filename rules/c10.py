"""C10 -- specifier and qualifier sets are a Boolean algebra with exact decomposition."""
from facts import AnalysisBroken, walk, strip_casts, stmts, unwrap
from symex import Sym, State, Unsupported
import contracts

LEVEL = 'other'
TITLE = 'C10 specifier and qualifier sets are a Boolean algebra with exact decomposition'

# accessor of ipr::impl::Lexicon -> the word it stands for (interface comments, include/ipr/interface)
ACCESSOR_WORD = {
    'export_specifier': 'export', 'static_specifier': 'static', 'extern_specifier': 'extern',
    'mutable_specifier': 'mutable', 'thread_local_specifier': 'thread_local', 'register_specifier': 'register',
    'inline_specifier': 'inline', 'constexpr_specifier': 'constexpr', 'consteval_specifier': 'consteval',
    'virtual_specifier': 'virtual', 'abstract_specifier': '=0', 'explicit_specifier': 'explicit',
    'friend_specifier': 'friend', 'typedef_specifier': 'typedef', 'public_specifier': 'public',
    'protected_specifier': 'protected', 'private_specifier': 'private',
    'const_qualifier': 'const', 'volatile_qualifier': 'volatile', 'restrict_qualifier': 'restrict',
}


def table_words(g):
    """Spellings of a basis table (each row is built from known_word("...") )."""
    init = g.get('init') or {}
    rows = []
    for e in init.get('elts', []):
        lits = [n for n in walk(e) if n.get('k') == 'lit' and n.get('lt') == 'str']
        if len(lits) != 1:
            raise AnalysisBroken(f'row of {g["q"]} is not built from exactly one word literal')
        rows.append(bytes(lits[0]['bytes']).decode('utf-8', 'replace'))
    return rows


def loop_shape(f, table_is_param):
    """Analyse `pos = 0; for (x : table) { if (P(x)) ACTION(1u << pos); ++pos; }` and return a dict."""
    body = stmts(f['body'])
    info = {'ok': False}
    decls = [s for s in body if s.get('k') == 'decl']
    loops = [s for s in body if s.get('k') == 'rangefor']
    if len(loops) != 1:
        info['why'] = f'{len(loops)} range-for loops'
        return info
    loop = loops[0]
    pos = None
    for d in decls:
        for v in d['vars']:
            if v['name'] == 'pos':
                pos = v
    if pos is None or strip_casts(pos.get('init') or {}).get('cv') != '0':
        info['why'] = 'no position counter initialised to 0 before the loop'
        return info
    info['range'] = strip_casts(loop['range'])
    lb = stmts(loop['b'])
    if len(lb) != 2 or lb[0].get('k') != 'if' or lb[0].get('else') is not None:
        info['why'] = 'loop body is not `if (...) ...; ++pos;`'
        return info
    inc = lb[1]
    if not (inc.get('k') == 'unop' and inc.get('op') == '++' and strip_casts(inc['e']).get('k') == 'ref'
            and strip_casts(inc['e']).get('id') == pos['id']):
        info['why'] = 'the position counter is not advanced exactly once at the end of each iteration'
        return info
    if any(n.get('k') in ('continue', 'break', 'otherstmt') for n in walk(loop['b'])):
        info['why'] = 'the loop body can skip the counter update'
        return info
    # every other reference to pos must be the shift `1u << pos`
    shifts = [n for n in walk(lb[0]) if n.get('k') == 'binop' and n.get('op') == '<<']
    posrefs = [n for n in walk(lb[0]) if n.get('k') == 'ref' and n.get('kind') == 'local' and n.get('id') == pos['id']]
    if len(shifts) != 1 or len(posrefs) != 1:
        info['why'] = f'{len(shifts)} shift(s), {len(posrefs)} use(s) of the counter inside the guarded action'
        return info
    sh = shifts[0]
    l, r = strip_casts(sh['l']), strip_casts(sh['r'])
    if not (l.get('k') == 'lit' and l.get('cv') == '1' and r.get('k') == 'ref' and r.get('id') == pos['id']):
        info['why'] = 'the bit of row i is not `1 << i`'
        return info
    info['shift_type'] = l.get('t')
    info['guard'] = lb[0]['c']
    info['action'] = lb[0]['then']
    info['after'] = body[body.index(loop) + 1:]
    info['ok'] = True
    return info


def run(ck, F):
    ck.explanation = (
        'Distinct rows => distinct single bits => the union of a subset has exactly those bits => decompose returns '
        'exactly that subset, for all 2^18 / 2^3 subsets at once; the structural obligations of that argument are '
        'checked on the tables and on the instantiated project/decompose bodies, the set operations by evaluating '
        'the operator templates and `implies` bit-wise (E1 on single bits, lifted by bit-parallelism).')
    S = Sym(F, opaque=contracts.default_opaque(F), max_depth=24)
    # the name of a basic specifier / qualifier is a Logogram, and names are looked up by the identity of that Logogram: equal
    # spellings are one object only if every statically allocated word lives in the reserved-word table, and equality of the value
    # classes looks at the spelling alone
    import words as _words
    import eqrule as _eqrule
    _W, _kw, _strays = _words.static_words_outside_table(F)
    R_sw = ck.rule('C10.static-words-in-the-table', 'every statically allocated word is an element of the reserved-word table: the rows of the '
                   'basis tables name their word through that table, so the name a client builds from the same spelling is the same '
                   'Logogram and maps to the row\'s bit (a row built from a word object of its own is refused by name)', floor=1)
    ck.check(R_sw, 'known_words', not _strays, f'object(s) of {contracts.short(_W)} outside {_kw["q"]}: ' + '; '.join(f'{w} [{l}]' for w, l in _strays[:4]),
             loc=(_strays[0][1] if _strays else _kw['loc']))
    _eqrule.check_equalities(ck, F, 'C10')
    # a basic name maps to its set however the String that spells it was obtained: the reserved spelling is recognised by content
    import borrow as _borrow
    _borrow.borrow(ck, F, 'C04', 'C10', {'reserved-words-first', 'spelling-by-content'})
    if _strays:
        return          # the tables cannot be read as rows of reserved words: reported above
    tables = {}
    for g in F.globals:
        if g['name'] in ('std_specifiers', 'std_qualifiers'):
            tables[g['name']] = g
    if len(tables) != 2:
        raise AnalysisBroken('basis tables std_specifiers / std_qualifiers not found')
    R1 = ck.rule('C10.distinct-rows', 'rows of the basis tables are pairwise distinct, non-empty words and constant data', floor=2)
    words = {}
    for n, g in sorted(tables.items()):
        w = table_words(g)
        words[n] = w
        dup = sorted({x for x in w if w.count(x) > 1})
        ck.check(R1, n, not dup and all(w) and g['constexpr'],
                 f'{g["q"]}: duplicated rows {dup}' if dup else f'{g["q"]} is not constexpr or has an empty word', loc=g['loc'],
                 detail={'rows': w})

    # ---------------------------------------------------------------- project / decompose
    R2 = ck.rule('C10.same-bit', 'project, evaluated with its table unrolled, answers the single bit 1 << i exactly when row i is '
                 'the first row that matches the name; the table is not longer than the carrier is wide', floor=2)
    R3 = ck.rule('C10.refuse-unknown', 'project has one answer per row and refuses (throws) exactly when no row matches: an '
                 'unknown name is refused, not answered', floor=2)
    R6 = ck.rule('C10.decompose-exact', 'decompose, evaluated on the empty set, the full set, every singleton and every adjacent '
                 'pair, collects exactly the rows whose bit is set, in table order, into the collection it returns', floor=2)
    projects = [f for f in F.fn.values() if f['name'] == 'project' and f['q'].startswith('ipr::impl::(anon)::project<')]
    decomps = [f for f in F.fn.values() if f['name'] == 'decompose' and '(anon)::Basis<' in (f.get('parent') or '')]
    if len(projects) < 1 or len(decomps) < 2:
        raise AnalysisBroken(f'{len(projects)} project / {len(decomps)} decompose instantiations found')
    WIDTH = {'unsigned int': 32, 'int': 32, 'unsigned long': 64, 'long': 64, 'unsigned long long': 64, 'unsigned short': 16, 'unsigned char': 8}
    Sx = Sym(F, opaque=lambda fid: F.fn.get(fid) is None, max_depth=24, max_paths=400)

    def mentions(t, x):
        return t == x or (isinstance(t, tuple) and any(mentions(y, x) for y in t))
    import re
    for f in sorted(projects, key=lambda f: f['id']):
        inst = 'project<' + ', '.join(contracts.short(x) for x in f['targs'][:2]) + '>'
        m = re.search(r'\[(\d+)\]', f['params'][1]['t'])
        if not m:
            raise AnalysisBroken(f'{f["id"]}: the table parameter is not an array of known extent')
        n = int(m.group(1))
        width = WIDTH.get(f.get('ret', ''), 0)
        # evaluated with the table unrolled: the outcome for `row i is the first that matches` must be the single bit i
        try:
            outs = Sx.run(f['id'])
        except Unsupported as e:
            raise AnalysisBroken(f'{f["id"]}: outside the evaluator language: {e}')
        by_row, refusals, why = {}, 0, []
        for st, k, v in outs:
            hits = [c for c, val in st.conds if val]
            misses = [c for c, val in st.conds if not val]
            rows_missed = [j for j in range(n) if any(mentions(c, ('index', ('param', 1), ('k', j, 'int'))) for c in misses)]
            if k == 'throw':
                refusals += 1
                if hits or rows_missed != list(range(n)):
                    why.append(f'refuses although only rows {rows_missed} were tried')
                continue
            if len(hits) != 1 or not (isinstance(v, tuple) and v[0] == 'k'):
                why.append(f'an answer {contracts.render(v, st, {})} not selected by exactly one matching row')
                continue
            row = [j for j in range(n) if mentions(hits[0], ('index', ('param', 1), ('k', j, 'int')))]
            if len(row) != 1 or rows_missed != list(range(row[0])) or not mentions(hits[0], ('param', 0)):
                why.append(f'the answer {v[1]} is not selected by `row i is the first row matching the name`')
                continue
            by_row[row[0]] = v[1]
        wrong = {i: by_row.get(i) for i in range(n) if by_row.get(i) != (1 << i)}
        ck.check(R2, inst, not wrong and not why and 0 < n <= width,
                 f'{f["id"]}: rows whose answer is not the single bit of their position: {wrong}; {"; ".join(sorted(set(why)))}; '
                 f'{n} rows, result type of {width} bits', loc=f['loc'], fn=f['id'], detail={'rows': n, 'width': width})
        ck.check(R3, inst, refusals == 1 and len(outs) == n + 1 and not why,
                 f'{f["id"]}: {refusals} refusing outcome(s) among {len(outs)} (expected: one answer per row, and a refusal exactly '
                 f'when no row matches); {"; ".join(sorted(set(why)))}', loc=f['loc'], fn=f['id'])
    for f in sorted(decomps, key=lambda f: f['id']):
        inst = contracts.short(f['parent']) + '::decompose'
        tnames = [t for t in words if t in f['parent']]
        if len(tnames) != 1:
            raise AnalysisBroken(f'{f["id"]}: cannot tell which basis table it decomposes over')
        tname = tnames[0]
        n = len(words[tname])
        width = WIDTH.get((F.enums.get(f['params'][0]['t']) or {}).get('underlying', ''), 0)
        # finite-case evaluation: singletons, adjacent pairs, the empty and the full set; decisions on bit i depend on bit i
        cases = [0, (1 << n) - 1] + [1 << k for k in range(n)] + [(1 << k) | (1 << (k + 1)) for k in range(n - 1)]
        bad = []
        for e in cases:
            try:
                outs = Sx.run(f['id'], this=None, args=[('k', e, 'int')])
            except Unsupported as ex:
                raise AnalysisBroken(f'{f["id"]}: outside the evaluator language: {ex}')
            if len(outs) != 1 or outs[0][1] != 'return':
                bad.append(f'element {e:#x}: {len(outs)} outcomes')
                continue
            st, _k, v = outs[0]
            pushes = [x for x in st.effects if x[0] == 'call' and contracts.fn_simple(x[1]) in ('push_back', 'emplace_back')]
            got, ok_table = [], True
            for x in pushes:
                a = x[3][0]
                while isinstance(a, tuple) and a and a[0] in ('castto', 'addr', 'deref'):
                    a = a[2] if a[0] == 'castto' else a[1]
                if isinstance(a, tuple) and a[0] == 'index' and a[1][0] == 'global' and a[1][1].endswith('::' + tname) and a[2][0] == 'k':
                    got.append(a[2][1])
                else:
                    ok_table = False
            # the collection is built afresh by the call: one kept in static (or thread-local) storage carries the elements of an
            # earlier decomposition into a later one (the empty set would answer with what the previous call left)
            def static_part(t):
                if isinstance(t, tuple):
                    if t[:1] == ('global',) and not t[1].endswith('::' + tname):
                        return t[1]
                    for y in t:
                        r_ = static_part(y)
                        if r_:
                            return r_
                return None
            leak = static_part(v) or next((static_part(x[2]) for x in pushes if static_part(x[2])), None)
            if leak:
                bad.append(f'element {e:#x}: the result is built in / copied from `{contracts.short(leak)}`, storage that outlives the call')
                continue
            want = [i for i in range(n) if e >> i & 1]
            same_vec = all(x[2] == pushes[0][2] for x in pushes) and (not pushes or mentions(v, pushes[0][2]) or v == pushes[0][2])
            if got != want or not ok_table or not same_vec:
                bad.append(f'element {e:#x}: rows {got} collected, expected {want}' + ('' if same_vec else ' (not into the returned collection)'))
        ck.check(R2, inst, 0 < n <= width, f'{f["id"]}: {n} rows over a carrier of {width} bits', loc=f['loc'], fn=f['id'])
        ck.check(R6, inst, not bad, f'{f["id"]}: ' + '; '.join(bad[:4]), loc=f['loc'], fn=f['id'], detail={'cases': len(cases)})

    # ---------------------------------------------------------------- accessors
    R4 = ck.rule('C10.named-accessors', 'every named accessor of the Lexicon asks the basis for the word of its own name and '
                 'yields the single bit of that row', floor=20)
    for acc, word in sorted(ACCESSOR_WORD.items()):
        fs = [f for f in F.fns_in('ipr::impl::Lexicon') if f['name'] == acc]
        if len(fs) != 1:
            raise AnalysisBroken(f'anchor vanished: Lexicon::{acc}')
        f = fs[0]
        tname = 'std_qualifiers' if acc.endswith('_qualifier') else 'std_specifiers'
        lits = [bytes(n['bytes']).decode() for n in walk(f['body']) if n.get('k') == 'lit' and n.get('lt') == 'str']
        calls = [n for n in walk(f['body']) if n.get('k') == 'call' and (n.get('callee') or {}).get('name') == 'operator[]']
        val = calls[0].get('cv') if len(calls) == 1 else None
        want = (1 << words[tname].index(word)) if word in words[tname] else None
        basis_ok = len(calls) == 1 and (tname.replace('std_', '').rstrip('s') in (strip_casts(calls[0].get('obj') or {}).get('name') or ''))
        ck.check(R4, acc, lits == [word] and basis_ok and val is not None and want is not None and int(val) == want,
                 f'Lexicon::{acc} asks for {lits} (expected "{word}") and yields {val} (row bit {want})', loc=f['loc'], fn=f['id'],
                 detail={'word': word, 'bit': want})
    # Basis::operator[] and operator(): T{project(name, table, pred)}
    R4b = ck.rule('C10.basis', 'Basis::operator[] / operator(), evaluated with their own table unrolled, answer the single bit 1 << i exactly when row i is the first row equal to the argument, and refuse when no row is', floor=2)
    bops = [f for f in F.fn.values() if '(anon)::Basis<' in (f.get('parent') or '') and '::(lambda' not in f['parent']
            and f['name'] in ('operator()', 'operator[]')]
    if len(bops) < 2:
        raise AnalysisBroken('Basis::operator()/[] instantiations not found')
    for f in sorted(bops, key=lambda f: f['id']):
        # evaluated with its table unrolled (whatever it is written with: project, a search algorithm, a loop): the answer for
        # `row i of the basis' own table is the first row equal to the argument` is the single bit i of the carrier; when no row
        # is, the request is refused
        tb = 'std_qualifiers' if 'Qualifiers' in f['parent'] else 'std_specifiers'
        g = [x for x in F.globals if x['name'] == tb]
        m2 = re.search(r'\[(\d+)\]', g[0]['t']) if g else None
        if not m2:
            raise AnalysisBroken(f'basis table {tb} not found as an array of known extent')
        n = int(m2.group(1))
        TAB = ('global', g[0]['q'])
        try:
            outs = Sx.run(f['id'])
        except Unsupported as e:
            raise AnalysisBroken(f'{f["id"]}: outside the evaluator language: {e}')
        by_row, refusals, why = {}, 0, []
        for st, k, v in outs:
            hits = [c for c, val in st.conds if val and mentions(c, TAB)]
            misses = [c for c, val in st.conds if not val and mentions(c, TAB)]
            rows_missed = [j for j in range(n) if any(mentions(c, ('index', TAB, ('k', j, 'int'))) for c in misses)]
            if k == 'throw':
                refusals += 1
                if hits:
                    row = [j for j in range(n) if mentions(hits[0], ('index', TAB, ('k', j, 'int')))]
                    why.append(f'refuses the name of row {row} although that row matches')
                elif rows_missed != list(range(n)):
                    why.append(f'refuses although only rows {rows_missed} were tried')
                continue
            val_ = strip(v)
            while isinstance(val_, tuple) and val_ and val_[0] in ('castto', 'after'):
                val_ = val_[2]
            if len(hits) != 1 or not (isinstance(val_, tuple) and val_[0] == 'k'):
                why.append(f'an answer {contracts.render(v, st, {})[:60]} not selected by exactly one matching row')
                continue
            row = [j for j in range(n) if mentions(hits[0], ('index', TAB, ('k', j, 'int')))]
            if len(row) != 1 or rows_missed != list(range(row[0])) or not mentions(hits[0], ('param', 0)):
                why.append(f'the answer {val_[1]} is not selected by `row i is the first row matching the argument`')
                continue
            by_row[row[0]] = val_[1]
        wrong = {i: by_row.get(i) for i in range(n) if by_row.get(i) != (1 << i)}
        ck.check(R4b, contracts.short(f['parent']) + '::' + f['name'] + '/' + contracts.short(f['params'][0]['t']),
                 not wrong and not why and refusals >= 1,
                 f'{f["id"]}: rows of {tb} whose name is not answered with the single bit of their position: {wrong}; {"; ".join(sorted(set(why)))}; '
                 f'{refusals} refusing outcome(s)', loc=f['loc'], fn=f['id'])

    # ---------------------------------------------------------------- public routes
    R4c = ck.rule('C10.public-routes', 'Lexicon::specifiers / qualifiers / decompose have a single outcome: what the basis of their own '
                  'carrier answers for their argument (no shortcut answers a name the basis would refuse)', floor=4)
    So = Sym(F, opaque=lambda fid: '(anon)::Basis<' in fid, max_depth=12)
    routes = [('specifiers', 'ipr::Basic_specifier', 'specifier_basis', 'operator()'),
              ('qualifiers', 'ipr::Basic_qualifier', 'qualifier_basis', 'operator()'),
              ('decompose', 'ipr::Specifiers', 'specifier_basis', 'decompose'),
              ('decompose', 'ipr::Qualifiers', 'qualifier_basis', 'decompose')]
    for name, pt, basis, member in routes:
        fs = [f for f in F.fns_in('ipr::impl::Lexicon') if f['name'] == name and [p['t'] for p in f['params']] == [pt]]
        if len(fs) != 1:
            raise AnalysisBroken(f'anchor vanished: Lexicon::{name}({pt})')
        f = fs[0]
        try:
            outs = So.run(f['id'])
        except Unsupported as e:
            raise AnalysisBroken(f'{f["id"]}: outside the evaluator language: {e}')
        good = len(outs) == 1 and outs[0][1] == 'return'
        got = f'{len(outs)} outcomes: ' + ', '.join(sorted({k if k != 'return' else 'value' for _s, k, _v in outs}))
        if good:
            v = strip(outs[0][2])
            while isinstance(v, tuple) and v and v[0] in ('castto', 'after'):
                v = v[2]
            got = contracts.render(v, outs[0][0], {})
            good = (v[0] == 'call' and contracts.fn_simple(v[1]) == member and '(anon)::Basis<' in v[1]
                    and ('std_' + basis.split('_')[0] + 's') in v[1]
                    and (v[2] is None or (isinstance(v[2], tuple) and v[2][0] == 'global' and v[2][1].endswith('::' + basis)))
                    and [strip(a) for a in v[3]] == [('param', 0)])
        ck.check(R4c, f'Lexicon::{name}({contracts.short(pt)})', good,
                 f'{f["id"]} yields `{got}`; expected {basis}.{member}(P0) on every path', loc=f['loc'], fn=f['id'])

    # ---------------------------------------------------------------- set operations
    R5 = ck.rule('C10.set-operations', 'operator|, &, ^ apply the same-named bit operation to the representations of their two '
                 'operands; implies(a, b) holds exactly when b is a subset of a (E1 on single bits)', floor=6)
    R5o = ck.rule('C10.operands-untouched', 'the binary operations |, &, ^ leave their operands as they were: both are taken by value (or by '
                  'reference to const) and nothing is stored into them -- a & b is the intersection, and afterwards a is still a', floor=6)
    ops = {'operator|': '|', 'operator&': '&', 'operator^': '^'}
    seen = 0
    for f in sorted(F.fn.values(), key=lambda f: f['id']):
        if f['q'].split('<')[0] in ('ipr::operator|', 'ipr::operator&', 'ipr::operator^') and (f.get('targs') or [''])[0] in ('ipr::Specifiers', 'ipr::Qualifiers'):
            seen += 1
            outs = S.run(f['id'])
            good = len(outs) == 1 and outs[0][1] == 'return'
            got = None
            if good:
                v = strip(outs[0][2])
                got = contracts.render(v, outs[0][0], {})
                good = v[0] == 'op' and v[1] == ops[f['name']] and {strip(v[2]), strip(v[3])} == {('param', 0), ('param', 1)}
            ck.check(R5, f['name'] + '<' + contracts.short(f['targs'][0]) + '>', good,
                     f'{f["id"]} evaluates to `{got}`', loc=f['loc'], fn=f['id'])
            # a binary set operation reads its operands: neither is taken by non-const reference, and evaluating it stores nothing
            # into the caller's objects (x & y must leave x as it was)
            byref = [p_['name'] or str(i_) for i_, p_ in enumerate(f['params'])
                     if p_['t'].rstrip().endswith('&') and not p_['t'].lstrip().startswith('const ')]
            wrote = sorted({contracts.render(k_, outs[0][0], {}) for k_, v_ in outs[0][0].symstore.items()
                            if isinstance(k_, tuple) and k_[:1] == ('param',) and v_ != k_} |
                           {contracts.render(e_[1], outs[0][0], {}) for e_ in outs[0][0].effects if e_[0] == 'write' and isinstance(e_[1], tuple)
                            and e_[1][:1] == ('param',)}) if outs else []
            ck.check(R5o, f['name'] + '<' + contracts.short(f['targs'][0]) + '>', not byref and not wrote,
                     f'{f["id"]} takes {byref} by non-const reference' + (f' and stores into {wrote}' if wrote else '') +
                     ': the operand of a binary set operation is overwritten with the result', loc=f['loc'], fn=f['id'])
        if f['q'].startswith('ipr::implies<') and (f.get('targs') or [''])[0] in ('ipr::Specifiers', 'ipr::Qualifiers'):
            seen += 1
            outs = S.run(f['id'])
            good = len(outs) == 1 and outs[0][1] == 'return'
            tt = None
            if good:
                v = outs[0][2]
                tt = {(a, b): bit_eval(v, a, b) for a in (0, 1) for b in (0, 1)}
                good = tt == {(0, 0): 1, (0, 1): 0, (1, 0): 1, (1, 1): 1}
            ck.check(R5, 'implies<' + contracts.short(f['targs'][0]) + '>', good,
                     f'{f["id"]}: truth table on single bits (a,b) -> {tt}; expected b subset of a', loc=f['loc'], fn=f['id'])
    if seen < 4:
        raise AnalysisBroken(f'only {seen} set-operation instantiations over Specifiers/Qualifiers found')
    # compound forms: a op= b stores and yields a op b
    R5c = ck.rule('C10.compound-operations', 'operator|=, &=, ^= yield (and store into their left operand) the result of the '
                  'same-named binary operation on their two operands', floor=6)
    cops = {'operator|=': 'operator|', 'operator&=': 'operator&', 'operator^=': 'operator^'}
    nco = 0
    for f in sorted(F.fn.values(), key=lambda f: f['id']):
        if f['q'].split('<')[0] in ('ipr::operator|=', 'ipr::operator&=', 'ipr::operator^=') and (f.get('targs') or [''])[0] in ('ipr::Specifiers', 'ipr::Qualifiers'):
            nco += 1
            want = ops[cops[f['name']]]
            outs = S.run(f['id'])
            good = len(outs) == 1 and outs[0][1] == 'return'
            got = 'more than one outcome'
            if good:
                v = strip(outs[0][2])
                got = contracts.render(v, outs[0][0], {})
                good = v[0] == 'op' and v[1] == want and [strip(v[2]), strip(v[3])] in ([('param', 0), ('param', 1)], [('param', 1), ('param', 0)])
            ck.check(R5c, f['name'] + '<' + contracts.short(f['targs'][0]) + '>', good,
                     f'{f["id"]} leaves its left operand at `{got}`; expected P0 {want} P1', loc=f['loc'], fn=f['id'])
    if nco < 6:
        raise AnalysisBroken(f'only {nco} compound set-operation instantiations over Specifiers/Qualifiers found')


def strip(t):
    while isinstance(t, tuple) and t and t[0] == 'castto':
        t = t[2]
    if isinstance(t, tuple) and t and t[0] == 'op':
        return ('op', t[1], strip(t[2]), strip(t[3]))
    return t


def bit_eval(t, a, b):
    t = strip(t)
    if t == ('param', 0):
        return a
    if t == ('param', 1):
        return b
    if not isinstance(t, tuple):
        return None
    if t[0] == 'k':
        return t[1]
    if t[0] == 'op':
        x, y = bit_eval(t[2], a, b), bit_eval(t[3], a, b)
        if x is None or y is None:
            return None
        return {'&': x & y, '|': x | y, '^': x ^ y, '==': int(x == y), '!=': int(x != y)}.get(t[1])
    if t[0] == 'call' and contracts.fn_simple(t[1]) in ('operator&', 'operator|', 'operator^') and len(t[3]) == 2:
        x, y = bit_eval(t[3][0], a, b), bit_eval(t[3][1], a, b)
        if x is None or y is None:
            return None
        return {'operator&': x & y, 'operator|': x | y, 'operator^': x ^ y}[contracts.fn_simple(t[1])]
    return None
