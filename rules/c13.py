"""C13 -- Lexicon constants are distinct, correctly spelled, self-describing, process-wide."""
from facts import AnalysisBroken, walk, strip_casts
from symex import Sym, State, Unsupported
import contracts

LEVEL = 'other'
TITLE = 'C13 Lexicon constants are distinct, correctly spelled, self-describing, process-wide'

LEX = 'ipr::impl::Lexicon'
# accessor -> documented C++ spelling (include/ipr/interface, struct Lexicon; "unsigned short" for ushort_type,
# the comment there repeats "unsigned char" by mistake)
SPELLING = {
    'void_type': 'void', 'bool_type': 'bool', 'char_type': 'char', 'schar_type': 'signed char',
    'uchar_type': 'unsigned char', 'wchar_t_type': 'wchar_t', 'char8_t_type': 'char8_t', 'char16_t_type': 'char16_t',
    'char32_t_type': 'char32_t', 'short_type': 'short', 'ushort_type': 'unsigned short', 'int_type': 'int',
    'uint_type': 'unsigned int', 'long_type': 'long', 'ulong_type': 'unsigned long', 'long_long_type': 'long long',
    'ulong_long_type': 'unsigned long long', 'float_type': 'float', 'double_type': 'double',
    'long_double_type': 'long double', 'ellipsis_type': '...', 'typename_type': 'typename', 'class_type': 'class',
    'union_type': 'union', 'enum_type': 'enum', 'namespace_type': 'namespace',
}
SYMBOLS = {   # accessor -> (spelling, row of the built-in table that is its type; nullptr owns its decltype(nullptr))
    # confirmed by reading src/impl.cxx at the pinned commit: truth values are bool, `default` is typed by the `auto`
    # placeholder row, `delete` is void ("nothing ever comes out"), nullptr's type is the Decltype member it owns
    'false_value': ('false', 'Bool'), 'true_value': ('true', 'Bool'), 'nullptr_value': ('nullptr', 'own Decltype'),
    'default_value': ('default', 'Auto'), 'delete_value': ('delete', 'Void'),
}
LINKAGES = {'c_linkage': 'C', 'cxx_linkage': 'C++'}


def lit_of(e):
    lits = [n for n in walk(e) if n.get('k') == 'lit' and n.get('lt') == 'str']
    return bytes(lits[0]['bytes']).decode('utf-8', 'replace') if len(lits) == 1 else None


def run(ck, F):
    ck.explanation = (
        'The accessor bodies are evaluated to the constant they return (a namespace-scope constexpr object, hence the '
        'same node for every Lexicon in the process); the constant\'s row in the built-in table is read from the '
        'table\'s initializer and compared with the documented spelling; self-description is evaluated on an object '
        'of the built-in class; the public routes from a spelling to a node are evaluated symbolically and must test '
        'for the constants before creating anything.')
    ck.assume('the Identifier of a reserved spelling is the reserved-word node itself (C04, reserved-words-first)')
    S = Sym(F, opaque=contracts.default_opaque(F), max_depth=48)
    F.need_rec(LEX)
    fund = F.enums.get('ipr::impl::(anon)::Fundamental')
    if not fund:
        raise AnalysisBroken('enum Fundamental not found')
    fvals = {e['name']: int(e['value']) for e in fund['enumerators']}
    bt = [g for g in F.globals if g['name'] == 'builtins']
    if len(bt) != 1:
        raise AnalysisBroken('built-in table not found')
    bt = bt[0]
    rows = [lit_of(e) for e in (bt.get('init') or {}).get('elts', [])]
    R0 = ck.rule('C13.table', 'the built-in table has one row per Fundamental enumerator (same builtin.def, same order), is '
                 'constexpr, and its rows are pairwise distinct words', floor=1)
    ck.check(R0, 'builtins', len(rows) == len(fvals) and None not in rows and len(set(rows)) == len(rows) and bt['constexpr']
             and sorted(fvals.values()) == list(range(len(rows))),
             f'{len(rows)} rows for {len(fvals)} enumerators; rows={rows}', loc=bt['loc'])

    R1 = ck.rule('C13.builtin-accessors', 'each of the 26 built-in type accessors returns the row of the built-in table that is '
                 'spelled as documented; the rows are pairwise distinct', floor=26)
    chosen = {}
    for acc, word in sorted(SPELLING.items()):
        fs = [f for f in F.fns_in(LEX) if f['name'] == acc]
        if len(fs) != 1:
            raise AnalysisBroken(f'anchor vanished: Lexicon::{acc}')
        f = fs[0]
        outs = S.run(f['id'])
        good = len(outs) == 1 and outs[0][1] == 'return'
        got = None
        if good:
            v = outs[0][2]
            # index(global builtins, enumerator)
            good = v[0] == 'index' and v[1] == ('global', bt['q']) and v[2][0] == 'k' and str(v[2][2]).startswith('enum:')
            if good:
                idx = v[2][1]
                got = rows[idx] if 0 <= idx < len(rows) else None
                chosen[acc] = idx
                good = got == word
        ck.check(R1, acc, good, f'Lexicon::{acc}() designates the built-in spelled `{got}`, documented as `{word}`', loc=f['loc'], fn=f['id'],
                 detail={'spelling': word})
    dup = [a for a in chosen if list(chosen.values()).count(chosen[a]) > 1]
    ck.check(R1, 'pairwise distinct', not dup and len(chosen) == len(SPELLING), f'accessors sharing a row: {sorted(dup)}', loc=bt['loc'])

    # ---------------------------------------------------------------- self description of a built-in
    R2 = ck.rule('C13.self-describing', 'a built-in type names itself by its identifier, is its own underlying expression, has '
                 'type typename and the natural C++ transfer', floor=4)
    bcls = bt['t'].replace('const ', '').split('[')[0].strip()
    if bcls not in F.rec:
        bcls = bcls.replace('(anonymous namespace)', '(anon)')
    F.need_rec(bcls)
    st = State()
    o = st.new_obj(bcls)
    acc = contracts.observe(S, F, st, o, {o[1]: 'R'}, accessor_filter=lambda n: n in ('name', 'operand', 'expr', 'type', 'transfer'))
    idf = [fl['name'] for fl in F.rec[bcls]['fields']]
    ck.check(R2, 'name', len(idf) == 1 and acc.get('name') == 'R.' + idf[0], f'name() of a built-in is `{acc.get("name")}`', loc=F.rec[bcls]['loc'])
    ck.check(R2, 'operand', acc.get('operand') == 'R' and acc.get('expr') == 'R', f'operand()/expr() of a built-in is `{acc.get("operand")}`', loc=F.rec[bcls]['loc'])
    ck.check(R2, 'type', acc.get('type') == f'{bt["q"]}[ipr::impl::(anon)::Fundamental::Typename]', f'type() of a built-in is `{acc.get("type")}`', loc=F.rec[bcls]['loc'])
    ck.check(R2, 'transfer', acc.get('transfer') == 'ipr::impl::(anon)::natural_xfer', f'transfer() of a built-in is `{acc.get("transfer")}`', loc=F.rec[bcls]['loc'])
    # the constructor stores the identifier it is given
    ctor_ok = False
    for e in (bt.get('init') or {}).get('elts', [])[:1]:
        st2 = State()
        st2.envs[-1]['this'] = ('sym', 'none')
        r = S.ev(e, st2)
        if len(r) == 1 and r[0][1][0] == 'obj':
            ob = r[0][0].heap[r[0][1][1]]
            ctor_ok = any(isinstance(v, tuple) and v[0] == 'call' and contracts.fn_simple(v[1]) == 'known_word' for v in ob.fields.values())
    ck.check(R2, 'constructor', ctor_ok, 'a row of the built-in table does not store the reserved word it is built from', loc=bt['loc'])

    # ---------------------------------------------------------------- symbols and linkages
    R3 = ck.rule('C13.symbols-linkages', 'true/false/nullptr/default/delete and the two standard linkages are distinct constants, '
                 'spelled and typed as documented', floor=7)
    seen = {}
    for acc, (word, kind) in sorted(SYMBOLS.items()):
        f = [f for f in F.fns_in(LEX) if f['name'] == acc]
        if len(f) != 1:
            raise AnalysisBroken(f'anchor vanished: Lexicon::{acc}')
        f = f[0]
        outs = S.run(f['id'])
        v = outs[0][2] if len(outs) == 1 and outs[0][1] == 'return' else None
        good = v is not None and v[0] == 'global'
        what = ''
        if good:
            seen[acc] = v[1]
            g = S.global_by_q(v[1])
            good = g is not None and g['constexpr']
            if good:
                st3 = State()
                st3.envs[-1]['this'] = ('sym', 'none')
                r = S.ev(g['init'], st3)
                ob = r[0][1]
                a = contracts.observe(S, F, r[0][0], ob, {ob[1]: 'R'}, accessor_filter=lambda n: n in ('name', 'operand', 'type'))
                spelled = a.get('operand') == f'ipr::impl::(anon)known_word("{word}")'
                if kind == 'own Decltype':
                    tv = S.run(F.final_overrider_by_name(r[0][0].heap[ob[1]].cls, 'type')[0], this=ob, args=[], state=r[0][0].fork())
                    tt = tv[0][2] if len(tv) == 1 and tv[0][1] == 'return' else None
                    if tt is not None and tt[0] == 'addr':
                        tt = tt[1]
                    typed = (tt is not None and tt[0] == 'fld' and tt[1] == ob) or \
                        (tt is not None and tt[0] == 'obj' and tt in r[0][0].heap[ob[1]].fields.values()
                         and 'Decltype' in r[0][0].heap[tt[1]].cls)
                else:
                    typed = a.get('type') == f'{bt["q"]}[ipr::impl::(anon)::Fundamental::{kind}]'
                good = spelled and typed
                what = f'operand={a.get("operand")}, type={a.get("type")}'
        ck.check(R3, acc, good, f'Lexicon::{acc}(): {what or "does not return a constexpr constant"}', loc=f['loc'], fn=f['id'])
    for acc, word in sorted(LINKAGES.items()):
        f = [f for f in F.fns_in(LEX) if f['name'] == acc][0]
        outs = S.run(f['id'])
        v = outs[0][2] if len(outs) == 1 and outs[0][1] == 'return' else None
        good = v is not None and v[0] == 'global'
        if good:
            seen[acc] = v[1]
            g = S.global_by_q(v[1])
            good = g is not None and g['constexpr'] and lit_of(g['init']) == word
        ck.check(R3, acc, good, f'Lexicon::{acc}() is not the constexpr linkage constant spelled "{word}"', loc=f['loc'], fn=f['id'])
    ck.check(R3, 'pairwise distinct', len(set(seen.values())) == len(seen) == len(SYMBOLS) + len(LINKAGES),
             f'constants returned: {seen}', loc=F.rec[LEX]['loc'])

    # each constant is one object: nothing else of its class has static storage (a table of copies is a table of look-alikes)
    R3b = ck.rule('C13.constants-unique', 'each symbolic constant and standard linkage is the only statically allocated object of its kind '
                  'with its spelling: no other namespace-scope or static variable (or array) of the class of a constant is built as a copy '
                  'of a constant or from the spelling of one -- a route that answered from such an object would hand out a look-alike', floor=3)
    cst_q = set(seen.values())
    norm = lambda t: (t or '').replace('const ', '').replace('(anonymous namespace)', '(anon)').strip()
    cst_cls = {}
    for q in cst_q:
        g = S.global_by_q(q)
        if g is not None:
            cst_cls.setdefault(norm(g['t']).split('[')[0].strip(), []).append(q)
    for cls, qs in sorted(cst_cls.items()):
        words_ = {w for w, _k in SYMBOLS.values()} | set(LINKAGES.values())

        def lookalike(g):
            # built as a copy of a constant, or from the spelling of one
            for n in walk(g.get('init')):
                if n.get('k') == 'ref' and n.get('kind') == 'global' and (n.get('q') or '').replace('(anonymous namespace)', '(anon)') in cst_q:
                    return True
                if n.get('k') == 'lit' and n.get('lt') == 'str' and bytes(n.get('bytes', [])).decode('utf-8', 'replace') in words_:
                    return True
            return False
        others = [g['q'] for g in F.globals if g['q'] not in cst_q and norm(g['t']).split('[')[0].rstrip('&* ').strip() == cls
                  and not norm(g['t']).rstrip().endswith(('&', '*')) and g.get('unit') != 'probe.cxx' and lookalike(g)]
        ck.check(R3b, contracts.short(cls), not others, f'besides {[contracts.short(q) for q in qs]}, object(s) of class {contracts.short(cls)} with static storage: '
                 f'{others}', loc=(S.global_by_q(qs[0]) or {}).get('loc'))

    # the constants exist before anything can ask for them
    R3c = ck.rule('C13.constant-initialised', 'every namespace-scope object of the library (the constants, the tables, and what they are built '
                  'from: logograms, conventions, transfers) is constant-initialised: none is initialised by code that runs during program '
                  'start-up, where a constant built earlier would already refer to it while it is still all zeroes (no vptr, no spelling)', floor=10)
    for g in sorted(F.globals, key=lambda g: g['q']):
        if g.get('storage') != 'namespace' or g.get('unit') == 'probe.cxx' or not g['loc'].startswith(('src/', 'include/ipr')) or 'init' not in g:
            continue
        ck.check(R3c, contracts.short(g['q']), bool(g.get('constant_init')), f'{g["q"]} ({g["t"]}) is initialised dynamically: the constants that refer to it '
                 '(they are constant-initialised) can be used before it has been constructed', loc=g['loc'])

    # ---------------------------------------------------------------- process-wide
    R4 = ck.rule('C13.process-wide', 'no constant accessor reads the Lexicon object: each returns the same namespace-scope '
                 'constexpr object in every Lexicon', floor=33)
    for acc in sorted(list(SPELLING) + list(SYMBOLS) + list(LINKAGES)):
        f = [f for f in F.fns_in(LEX) if f['name'] == acc][0]
        outs = S.run(f['id'])
        v = outs[0][2] if len(outs) == 1 and outs[0][1] == 'return' else None

        def parts(t, acc):
            if isinstance(t, tuple):
                if t and t[0] in ('global', 'sym', 'param', 'obj'):
                    acc.append(t)
                else:
                    for x in t:
                        parts(x, acc)
            return acc
        ps = parts(v, []) if v is not None else [('sym', 'none')]
        globs = [x for x in ps if x[0] == 'global']
        other = [x for x in ps if x[0] != 'global']
        gl_ok = globs and all((S.global_by_q(x[1]) or {}).get('constexpr') and (S.global_by_q(x[1]) or {}).get('storage') == 'namespace'
                              for x in globs)
        ck.check(R4, acc, not other and gl_ok,
                 f'Lexicon::{acc}() does not return a namespace-scope constexpr object independent of the Lexicon '
                 f'(built from {[x[:2] for x in ps]})', loc=f['loc'], fn=f['id'])

    # ---------------------------------------------------------------- routes from a spelling to a node
    R5 = ck.rule('C13.routes', 'identifier -> as-type, word -> linkage, identifier -> label, expression -> decltype test for the '
                 'constant (by identity) before creating or looking up a dynamic node', floor=5)
    routes = [
        ('get_as_type(Identifier)', 'ipr::impl::type_factory::get_as_type(const ipr::Identifier &)',
         lambda p: 'result' in p and p['result'].startswith('elem(') and 'builtins' in p['result'] and '== &P0' in p['when']),
        ('get_linkage(String)', 'ipr::impl::expr_factory::get_linkage(const ipr::String &)',
         lambda p: p.get('result', '').endswith('c_link') and 'internal_string("C")' in p['when']),
        ('get_linkage(String)/C++', 'ipr::impl::expr_factory::get_linkage(const ipr::String &)',
         lambda p: p.get('result', '').endswith('cxx_link') and 'internal_string("C++")' in p['when']),
        ('get_linkage(word)', 'ipr::impl::expr_factory::get_linkage(std::basic_string_view<char8_t, std::char_traits<char8_t>>)',
         lambda p: p.get('result', '').endswith('c_link') and '"C"' in p['when']),
        ('get_label(Identifier)', 'ipr::impl::expr_factory::get_label(const ipr::Identifier &)',
         lambda p: p.get('result', '').endswith('default_cst') and 'known_word("default")' in p['when']),
        ('get_decltype(Expr)', 'ipr::impl::type_factory::get_decltype(const ipr::Expr &)',
         lambda p: 'nullptr_cst' in p.get('result', '') and '&P0 == &ipr::impl::(anon)::nullptr_cst' in p['when']),
    ]
    import c07
    def const_base(v):
        t = v
        while isinstance(t, tuple) and t and t[0] in ('addr', 'deref', 'fld', 'elem', 'index', 'castto'):
            t = t[2] if t[0] == 'castto' else t[1]
        return t[1] if isinstance(t, tuple) and t[:1] == ('global',) else None

    def equality_of(c, b):
        """(x, y) when the outcome b of condition c says x equals y"""
        if isinstance(c, tuple) and c[:1] == ('op',) and len(c) == 4 and ((c[1] == '==' and b) or (c[1] == '!=' and not b)):
            return c[2], c[3]
        if isinstance(c, tuple) and c[:1] == ('call',) and len(c[3]) == 2:
            nm = contracts.fn_simple(c[1])
            if (nm.startswith('operator==') and b) or (nm.startswith('operator!=') and not b):
                return c[3][0], c[3][1]
        return None

    SPELLED = {   # route -> (constant returned, the spelling that must select it)
        'get_linkage(String)': ('c_link', 'C'), 'get_linkage(String)/C++': ('cxx_link', 'C++'),
        'get_linkage(word)': ('c_link', 'C'), 'get_label(Identifier)': ('default_cst', 'default'),
        'get_decltype(Expr)': ('nullptr_cst', None),
    }
    for name, fid, pred in routes:
        f = F.need_fn(fid)
        if name in SPELLED:
            # decided on the evaluated paths themselves: some path answers with the constant, and what decides that path is
            # an equality of the argument with the constant's documented spelling (whichever way the test is written)
            cst, sp = SPELLED[name]
            try:
                raw = [p for p in S.run(fid) if p[1] == 'return']
            except Unsupported as e:
                raise AnalysisBroken(f'{fid}: {e}')
            good = False
            seenc = []
            for st, _k, v in raw:
                if not (const_base(v) or '').endswith('::' + cst) or not st.conds:
                    continue
                eq = equality_of(*st.conds[-1])
                seenc.append(contracts.render_conds(st.conds[-1:], st, {})[:80])
                # the argument is compared with the constant's documented spelling (a word literal), or with the constant itself /
                # something read from the constant (its own name, its language string)
                anchored = eq and any((isinstance(x, tuple) and x[:1] == ('k',) and sp is not None and x[1] == tuple(sp.encode()))
                                      or (isinstance(x, tuple) and x[:1] == ('global',) and x[1].endswith('::' + cst))
                                      for side in eq for x in c07._subterms(side))
                if anchored and any(x == ('param', 0) for side in eq for x in c07._subterms(side)):
                    good = True
            ck.check(R5, name, good, f'{fid}: no path answers with {cst} on the strength of a comparison of the argument with ' +
                     (f'the spelling "{sp}" or with ' if sp else '') + f'the constant itself (paths that return it are decided by {seenc or "nothing"})', loc=f['loc'], fn=fid)
            continue
        try:
            paths = contracts.factory_contract(F, f, S)
        except Unsupported as e:
            raise AnalysisBroken(f'{fid}: {e}')
        first_nodes = [i for i, p in enumerate(paths) if 'accessors' in p]
        hits = [i for i, p in enumerate(paths) if pred(p)]
        if name == 'get_as_type(Identifier)':
            # the search summarised as `some element of the range ...`: the range must be the built-in table itself, whole -- not a
            # part of it, nor another object (a span over the tail of the table skips the rows in front of it)
            rawp = [p_ for p_ in S.run(fid) if p_[1] == 'return']
            ranges = set()
            for st_, _k, v_ in rawp:
                t_ = v_
                while isinstance(t_, tuple) and t_ and t_[0] in ('addr', 'deref'):
                    t_ = t_[1]
                if isinstance(t_, tuple) and t_[:1] == ('elem',):
                    ranges.add(t_[1])
            other = sorted(contracts.render(r_, rawp[0][0], {}) for r_ in ranges if r_ != ('global', bt['q']))
            if other:
                ck.fail(R5, name, f'{fid}: the built-in spelling is searched for in {other}, not in the whole table {bt["q"]}: the rows outside '
                        'that range are never matched and their spelling yields a look-alike', loc=f['loc'], fn=fid)
                continue
        if not hits and name == 'get_as_type(Identifier)':
            # the same search written as an index loop: every row of the table must be tried, by identity of its name
            import re
            rows_hit = {}
            for i, p in enumerate(paths):
                m = re.fullmatch(re.escape(bt['q']) + r'\[(\d+)\]', p.get('result', ''))
                if m and '== &P0' in p['when']:
                    rows_hit[int(m.group(1))] = i
            if set(rows_hit) == set(range(len(rows))):
                hits = [max(rows_hit.values())]
            elif rows_hit:
                ck.fail(R5, name, f'{fid}: the search for a built-in spelling tries rows {sorted(rows_hit)} of the table only; '
                        f'row(s) {sorted(set(range(len(rows))) - set(rows_hit))} are never matched, so their spelling yields a look-alike',
                        loc=f['loc'], fn=fid)
                continue
        ck.check(R5, name, bool(hits) and (not first_nodes or min(hits) < min(first_nodes)),
                 f'{fid}: no path returns the constant before a dynamic node is produced: '
                 f'{[(p["when"][:50], p.get("result") or p.get("class")) for p in paths]}', loc=f['loc'], fn=fid)
    # the constant is tested for on the way to every other answer; and the route is the function the client's call selects
    R5b = ck.rule('C13.constant-first', 'on each route, every path that answers with something other than a constant (a new node, an element '
                  'found in one of the Lexicon\'s tables) has first evaluated, with a negative outcome, every test by which the route '
                  'recognises a constant: no answer remembered or looked up earlier can stand in for the constant', floor=5)
    R5c = ck.rule('C13.routes-visible', 'each route is what a call on the Lexicon selects: no class between the factory that defines it and '
                  'impl::Lexicon declares a member of the same name without a using-declaration for the factory\'s overloads (such a member '
                  'hides the overload that recognises the built-in spelling, and the call converts its argument and builds a look-alike)', floor=5)

    def judge_route(f, label):
        try:
            ps = [p for p in S.run(f['id']) if p[1] == 'return']
        except Unsupported as e:
            raise AnalysisBroken(f'{f["id"]}: {e}')
        tests = []
        for st, _k, v in ps:
            if const_base(v) is None:
                continue
            if st.conds and st.conds[-1] not in tests:
                tests.append(st.conds[-1])      # what decided this answer, with its outcome
        if not tests:
            ck.fail(R5b, label, f'{f["id"]}: no path answers with a constant', loc=f['loc'], fn=f['id'])
            return
        bad = []
        for st, _k, v in ps:
            if const_base(v) is not None:
                continue
            for tcond, tval in tests:
                neg = (tcond, not tval) in st.conds
                # a search of a constant table: `no element satisfied the test` is the negative outcome of the element test
                if not neg:
                    tabs = {const_base(x) for x in c07._subterms(tcond) if isinstance(x, tuple) and x[:1] == ('elem',)} - {None}
                    neg = any(b and isinstance(c, tuple) and c[:1] == ('noelem',) and const_base(c[1]) in tabs for c, b in st.conds)
                if not neg:
                    bad.append(f'answers `{contracts.render(v, st, {})[:70]}` when {contracts.render_conds(st.conds, st, {})[:110] or "called"} '
                               f'without having tested `{contracts.render(tcond, st, {})[:90]}`')
                    break
        ck.check(R5b, label, not bad, f'{f["id"]}: ' + '; '.join(bad[:2]) + ': a spelling that denotes a constant can get this answer instead '
                 'of the constant (a look-alike)', loc=f['loc'], fn=f['id'])

    import c07
    seen_routes = set()
    for name, fid, _pred in routes:
        if fid in seen_routes:
            continue
        seen_routes.add(fid)
        f = F.need_fn(fid)
        label = contracts.short(fid) if hasattr(contracts, 'short') else name
        judge_route(f, label)
        home = f.get('parent')
        hidden = []
        for cls in sorted(c for c in F.rec if c != home and F.derives_from(c, home)):
            r = F.rec[cls]
            mine = [m for m in r.get('methods', []) if m['name'] == f['name'] and not m.get('implicit')]
            if not mine or any(u['name'] == f['name'] for u in r.get('usings', [])):
                continue
            same = [m for m in mine if m['params'] == [p['t'] for p in f['params']]]
            if same and same[0]['id'] in F.fn and F.fn[same[0]['id']].get('body'):
                judge_route(F.fn[same[0]['id']], label + ' as redeclared in ' + contracts.short(cls))
                continue
            hidden.append(f'{contracts.short(cls)} declares {[contracts.short(m["id"]) for m in mine]} and no using-declaration for {f["name"]}')
        ck.check(R5c, label, not hidden, f'{fid} is hidden from a client that holds the derived object: ' + '; '.join(hidden) +
                 ' -- the call selects the derived member (converting its argument), which never tests for the constant', loc=f['loc'], fn=fid)

    # spelling -> identifier: a reserved spelling (every built-in type and symbolic constant is named by one) never reaches the
    # insertion of a dynamic Identifier; the routes identifier -> as-type / label above compare by identity with the constants'
    # names, so a look-alike Identifier yields a look-alike type or label
    R6 = ck.rule('C13.reserved-spellings', 'asking for the Identifier of a spelling yields the reserved-word node for every row of the '
                 'reserved-word table: each path of get_identifier that inserts a dynamic Identifier follows a failed search of that table or '
                 'is taken for no row (guards on the spelling evaluated row by row) -- otherwise identifier -> as-type / label cannot reach '
                 'the constant', floor=2)
    import words
    import keyrule
    gids = [f for f in F.fn.values() if f['name'] == 'get_identifier' and (f.get('parent') or '').endswith('name_factory') and len(f['params']) == 1]
    if len(gids) < 2:
        raise AnalysisBroken(f'get_identifier overloads found: {len(gids)}')
    # word -> String: the routes word -> linkage / label recognise the constants by the identity of the interned String, so a
    # reserved spelling must be interned as the reserved-word node
    intern = F.intern_fn()
    iroutes = words.spelling_routes(F, intern['id'], lambda fid: F.fn.get(fid) is None or F.fn[fid]['name'] in ('word_if_known', 'make_string'))
    ibad = [(w, [x.decode('utf-8', 'replace') for x in ps[:3]]) for w, ps, _s in iroutes if ps]
    ck.check(R6, 'intern(word)', bool(iroutes) and not ibad,
             f'{intern["id"]}: the reserved spelling(s) {[b[1] for b in ibad]} are interned as dynamic Strings (path {[b[0][:100] for b in ibad]}): '
             'the routes that recognise a constant by the identity of its spelling (word -> linkage, identifier -> label) yield a look-alike',
             loc=intern['loc'], fn=intern['id'])
    for f in sorted(gids, key=lambda f: f['id']):
        routes_ = words.spelling_routes(F, f['id'], keyrule.key_opaque(F))
        bad = [(w, [x.decode('utf-8', 'replace') for x in ps[:3]]) for w, ps, _s in routes_ if ps]
        ck.check(R6, 'get_identifier(' + contracts.short(f['params'][0]['t']) + ')', not bad,
                 f'{f["id"]}: the reserved spelling(s) {[b[1] for b in bad]} get a dynamic look-alike Identifier (path {[b[0][:100] for b in bad]}): '
                 'the built-in type / constant they name is no longer reached through them', loc=f['loc'], fn=f['id'])
    # a documented spelling reaches its constant only if the search of the reserved-word table finds it: the table is strictly
    # increasing in the order its search uses, and the search compares the word itself (no byte beyond its extent)
    import borrow as _borrow
    _borrow.borrow(ck, F, 'C03', 'C13', {'reserved-words'})
