#!/bin/bash
# run every quick check in parallel, print the exit codes (maintainer convenience)
cd "$(dirname "$0")/.."
tier=${1:-quick}
./check C06 --tier quick >/dev/null 2>&1   # populate the fact cache
for i in $(seq -w 1 20); do echo C$i; done | xargs -P 10 -I{} sh -c "./check {} --tier $tier > /tmp/runall-{}.log 2>&1; echo {} rc=\$?" | sort | tr '\n' ' '; echo
