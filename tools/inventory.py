#!/usr/bin/env python3
"""Regenerate the as-built rule inventory of DESIGN.md (between the INVENTORY markers) from evidence/*.json."""
import json, os, re, glob
V = os.path.dirname(os.path.dirname(os.path.abspath(__file__)))
out = []
for p in sorted(glob.glob(os.path.join(V, 'evidence', 'C*.json'))):
    d = json.load(open(p))
    cov = d['coverage']
    out.append(f"**{d['property_id']}** (level `{d['level']}`, {cov['evaluations']} rule instances on the current tree)")
    out.append('')
    for rid, r in cov['rules'].items():
        out.append(f"* `{rid}` [{r['instances']} instances, floor {r['floor']}] – {r['description']}")
    out.append('')
text = '\n'.join(out)
path = os.path.join(V, 'DESIGN.md')
s = open(path).read()
a, b = '<!-- INVENTORY:BEGIN -->', '<!-- INVENTORY:END -->'
if a in s:
    s = s[:s.index(a) + len(a)] + '\n' + text + s[s.index(b):]
    open(path, 'w').write(s)
    print('inventory updated:', len(out), 'lines')
else:
    print(text)
