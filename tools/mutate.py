#!/usr/bin/env python3
"""Maintainer tool (not a check): mutation sampling.  Random single-token mutants of the library sources are built in
persistent scratch copies under /tmp (one per worker), the 17 tests are run, and for mutants that compile and pass the
tests every check is run against the mutated copy.  Output: one JSON line per mutant in <out> (killed-by-tests /
detected by which checks / survivor).  Survivors are to be triaged by hand: equivalent, outside every property, or a gap.
usage: tools/mutate.py <n mutants> <out.jsonl> [seed] [workers]"""
import json, os, random, re, shutil, subprocess, sys, tempfile
from concurrent.futures import ThreadPoolExecutor
V = os.path.dirname(os.path.dirname(os.path.abspath(__file__)))
FILES = ['src/impl.cxx', 'src/io.cxx', 'src/utility.cxx', 'src/traversal.cxx', 'include/ipr/impl', 'include/ipr/interface',
         'include/ipr/utility', 'include/ipr/traversal', 'include/ipr/ancillary']
OPS = [
    (r'==', '!='), (r'!=', '=='), (r'<=', '<'), (r'>=', '>'), (r'(?<![<\-=!>])<(?![<=])', '<='), (r'(?<![>\-=])>(?![>=])', '>='),
    (r'&&', '||'), (r'\|\|', '&&'), (r'\band\b', 'or'), (r'\bor\b', 'and'), (r'\bnot\b ', ''),
    (r'\+ 1\b', ''), (r'- 1\b', ''), (r'\b0\b', '1'), (r'\b1\b', '0'), (r'\b3\b', '2'),
    (r'\bfirst\b', 'second'), (r'\bsecond\b', 'first'), (r'\bleft\b', 'right'), (r'\bright\b', 'left'),
    (r'\btrue\b', 'false'), (r'\bfalse\b', 'true'), (r'\bbegin\b', 'end'), (r'\.front\(\)', '.back()'),
    (r'\bRed\b', 'Black'), (r'\bBlack\b', 'Red'), (r'\bnullptr\b', 'this'), (r'\+=', '-='), (r'\+\+', '--'),
    (r'\bpush_back\b', 'push_front'), (r'\|', '&'), (r'\bconst_qualifier\b', 'volatile_qualifier'),
]
SWAP_ARGS = re.compile(r'\((\s*[A-Za-z_][A-Za-z_0-9\.\->\*&]*\s*),(\s*[A-Za-z_][A-Za-z_0-9\.\->\*&]*\s*)\)')


def sh(cmd, cwd=None, timeout=1800):
    p = subprocess.run(cmd, shell=True, cwd=cwd, stdout=subprocess.PIPE, stderr=subprocess.STDOUT, text=True, timeout=timeout)
    return p.returncode, p.stdout


def candidates(rng, n):
    out = []
    texts = {f: open(os.path.join('/repo', f), encoding='utf-8', errors='replace').read().split('\n') for f in FILES}
    tries = 0
    while len(out) < n and tries < n * 50:
        tries += 1
        f = rng.choice(FILES)
        lines = texts[f]
        i = rng.randrange(len(lines))
        line = lines[i]
        code = line.split('//')[0]
        if not code.strip() or code.strip().startswith(('#', '*', '/*')) or 'static_assert' in code:
            continue
        kind = rng.random()
        new = None
        if kind < 0.12:
            m = list(SWAP_ARGS.finditer(code))
            if m:
                mm = rng.choice(m)
                new = code[:mm.start()] + '(' + mm.group(2) + ',' + mm.group(1) + ')' + code[mm.end():]
                what = 'swap-args'
        elif kind < 0.22:
            s = code.strip()
            if s.endswith(';') and not s.startswith(('return', 'using', 'typedef', 'template', 'struct', 'class', 'friend', 'virtual', 'case', 'default', 'break', 'throw', 'const ', 'auto ', 'constexpr', 'static', 'public', 'private', 'protected', '}')) and '=' in s or ('(' in s and s.endswith(');') and not any(s.startswith(k) for k in ('return', 'throw', 'if', 'for', 'while'))):
                if not re.match(r'^[A-Za-z_:<>\*& ]+ [A-Za-z_][A-Za-z_0-9]*(\(|;| =)', s) or s.count('(') >= 1 and re.match(r'^[a-z_][A-Za-z_0-9\.\->]*(\(|\s*[+\-|&]?=)', s):
                    new = code.replace(s, '')
                    what = 'delete-stmt'
        if new is None:
            pat, rep = rng.choice(OPS)
            ms = list(re.finditer(pat, code))
            if not ms:
                continue
            mm = rng.choice(ms)
            new = code[:mm.start()] + rep + code[mm.end():]
            what = f'{pat} -> {rep}'
        if new == code:
            continue
        out.append({'file': f, 'line': i + 1, 'old': line, 'new': new + (line[len(code):] if len(line) > len(code) else ''), 'op': what})
    return out


class Worker:
    def __init__(self, k):
        self.dir = tempfile.mkdtemp(prefix=f'mutw{k}-')
        sh(f'git -C /repo archive HEAD | tar -x -C {self.dir}')
        rc, out = sh('cmake -G Ninja -S . -B _build >/dev/null && cmake --build _build 2>&1 | tail -2', cwd=self.dir)
        self.ok = rc == 0

    def run(self, mut):
        path = os.path.join(self.dir, mut['file'])
        lines = open(path, encoding='utf-8', errors='replace').read().split('\n')
        orig = lines[mut['line'] - 1]
        res = dict(mut)
        try:
            lines[mut['line'] - 1] = mut['new']
            open(path, 'w', encoding='utf-8').write('\n'.join(lines))
            rc, out = sh('cmake --build _build 2>&1 | tail -3', cwd=self.dir, timeout=900)
            if rc != 0:
                res['verdict'] = 'does-not-compile'
                return res
            rc, out = sh('timeout 120 ./_build/tests/unit-tests/unittests 2>&1 | tail -3', cwd=self.dir)
            if '17 passed' not in out:
                res['verdict'] = 'killed-by-tests'
                return res
            scratch = tempfile.mkdtemp(prefix='mutev-')
            try:
                env = f'IPR_REPO={self.dir} VERIF_EVIDENCE_DIR={scratch}/ev VERIF_CACHE_DIR={scratch}/cache VERIF_CONTROL=1'
                det, broken = [], []
                pids = [c['property_id'] for c in json.load(open(os.path.join(V, 'MANIFEST.json')))['checks']]
                first = True
                for p in pids:
                    rc, out = sh(f'{env} ./check {p} --tier quick', cwd=V, timeout=1800)
                    if rc == 1:
                        det.append({'property': p, 'rules': sorted({l.split('rule=')[1].split(' ')[0] for l in out.splitlines() if 'violated: rule=' in l})})
                    elif rc == 2:
                        broken.append({'property': p, 'why': (out.strip().splitlines() or [''])[-1][:200]})
                res['detected_by'] = det
                res['analysis_broken'] = broken
                res['verdict'] = 'detected' if det else ('analysis-broken' if broken else 'survivor')
            finally:
                shutil.rmtree(scratch, ignore_errors=True)
            return res
        finally:
            lines[mut['line'] - 1] = orig
            open(path, 'w', encoding='utf-8').write('\n'.join(lines))

    def close(self):
        shutil.rmtree(self.dir, ignore_errors=True)


def main():
    n, outp = int(sys.argv[1]), sys.argv[2]
    seed = int(sys.argv[3]) if len(sys.argv) > 3 else 1
    nw = int(sys.argv[4]) if len(sys.argv) > 4 else 6
    rng = random.Random(seed)
    muts = candidates(rng, n)
    workers = [Worker(k) for k in range(nw)]
    if not all(w.ok for w in workers):
        print('baseline build failed'); return 2
    import queue
    q = queue.Queue()
    for w in workers:
        q.put(w)
    fh = open(outp, 'a')

    def job(m):
        w = q.get()
        try:
            r = w.run(m)
        except Exception as e:
            r = dict(m, verdict='error', error=str(e)[:200])
        finally:
            q.put(w)
        fh.write(json.dumps(r) + '\n'); fh.flush()
        return r['verdict']
    with ThreadPoolExecutor(nw) as ex:
        vs = list(ex.map(job, muts))
    for w in workers:
        w.close()
    from collections import Counter
    print(Counter(vs))


if __name__ == '__main__':
    sys.exit(main())
