#!/bin/sh
# usage: tools/mut.sh <check-id> <file-relative-to-repo> <sed-expression>   (maintainer tool, not part of any check)
# applies one edit to /repo, verifies it still compiles, runs the check, restores the tree.
set -u
id=$1; file=$2; expr=$3
cd /repo || exit 2
sed -i "$expr" "$file"
if git diff --quiet; then echo "MUTATION DID NOT APPLY"; exit 3; fi
if ! g++ -std=c++20 -fsyntax-only -DNDEBUG -I/repo/include src/impl.cxx src/io.cxx src/traversal.cxx src/utility.cxx src/interface.cxx 2>/tmp/mut.err; then
  echo "MUTANT DOES NOT COMPILE"; head -5 /tmp/mut.err; git checkout -- . ; exit 4; fi
cd /verif && ./check "$id" > /tmp/mut.out 2>&1; rc=$?
echo "check $id exit=$rc"; grep -E "violated|BROKEN" /tmp/mut.out | cut -c1-260 | head -5
git -C /repo checkout -- .
