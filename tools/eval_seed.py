#!/usr/bin/env python3
"""Maintainer tool (not a check): confirm an independently written regression and record which checks catch it.
usage: tools/eval_seed.py <dir with patch.diff, demo.cxx, README.txt> <property id> <seed name>
 1. fresh scratch worktree of /repo under /tmp: demo must exit 0 on the clean tree;
 2. patch applied there: library + tests build, 17 tests pass, demo exits non-zero;
 3. every check is run against the patched worktree (IPR_REPO=<worktree>), verdicts recorded; worktree removed;
 4. on success the regression is stored as /verif/seeded/<name>/ (patch.diff, demo.cxx, meta.json)."""
import json, os, shutil, subprocess, sys, tempfile

VERIF = os.path.dirname(os.path.dirname(os.path.abspath(__file__)))

def sh(cmd, cwd=None, timeout=900):
    p = subprocess.run(cmd, shell=True, cwd=cwd, stdout=subprocess.PIPE, stderr=subprocess.STDOUT, text=True, timeout=timeout)
    return p.returncode, p.stdout

def main():
    src, pid, name = sys.argv[1], sys.argv[2], sys.argv[3]
    patch = os.path.join(src, 'patch.diff')
    demo = os.path.join(src, 'demo.cxx')
    wt = tempfile.mkdtemp(prefix='seedwt-')
    os.rmdir(wt)
    result = {'property': pid, 'name': name}
    try:
        rc, out = sh(f'git -C /repo worktree add -q --detach {wt} HEAD')
        if rc: print(out); return 2
        extra = ' -fsanitize=address' if 'sanitize=address' in open(os.path.join(src, 'README.txt')).read() else ''
        rc, out = sh(f'g++ -std=c++20{extra} -I include {demo} src/*.cxx -o demo_clean && (ulimit -s 8192; timeout 120 ./demo_clean >/dev/null 2>&1; echo EXIT=$?)', cwd=wt)
        result['demo_clean'] = out.strip().splitlines()[-1] if out.strip() else 'no output'
        rc, out = sh(f'git apply {patch}', cwd=wt)
        if rc: print('patch does not apply', out); result['error'] = 'patch does not apply'; print(json.dumps(result)); return 1
        rc, out = sh('cmake -G Ninja -S . -B _build >/dev/null && cmake --build _build 2>&1 | tail -3 && ./_build/tests/unit-tests/unittests | tail -3', cwd=wt)
        result['tests'] = 'pass' if 'test cases: 17 | 17 passed' in out.replace('  ', ' ') or '17 passed' in out else 'FAIL: ' + out[-300:]
        rc, out = sh(f'g++ -std=c++20{extra} -I include {demo} src/*.cxx -o demo_patched && (ulimit -s 8192; timeout 120 ./demo_patched >/dev/null 2>&1; echo EXIT=$?)', cwd=wt)
        result['demo_patched'] = out.strip().splitlines()[-1] if out.strip() else 'no output'
    except Exception:
        sh(f'git -C /repo worktree remove --force {wt}')
        raise
    ok = result.get('demo_clean') == 'EXIT=0' and result.get('tests') == 'pass' and result.get('demo_patched', 'EXIT=0') != 'EXIT=0'
    result['confirmed'] = ok
    if not ok:
        sh(f'git -C /repo worktree remove --force {wt}')
        print(json.dumps(result, indent=1)); return 1
    # run the checks against /repo with the patch applied
    sh('rm -rf _build demo_clean demo_patched', cwd=wt)
    detected = []
    verdicts = {}
    scratch = tempfile.mkdtemp(prefix='seedev-')
    env = f'IPR_REPO={wt} VERIF_EVIDENCE_DIR={scratch}/ev VERIF_CACHE_DIR={scratch}/cache VERIF_CONTROL=1'
    try:
        m = json.load(open(os.path.join(VERIF, 'MANIFEST.json')))
        pids = [c['property_id'] for c in m['checks']]
        # first check populates the fact cache; the rest run in parallel on it
        from concurrent.futures import ThreadPoolExecutor
        def one(p):
            return p, sh(f'{env} ./check {p} --tier quick', cwd=VERIF, timeout=3600)
        results = [one(pid)] + list(ThreadPoolExecutor(8).map(one, [p for p in pids if p != pid]))
        for p, (rc, out) in results:
            verdicts[p] = rc
            if rc == 1:
                rules = sorted({l.split('rule=')[1].split(' ')[0] for l in out.splitlines() if 'violated: rule=' in l})
                first = [l.strip()[:300] for l in out.splitlines() if 'violated: rule=' in l][:2]
                detected.append({'property': p, 'rules': rules, 'rule': rules[0] if rules else p, 'reports': first})
            elif rc == 2:
                last = out.strip().splitlines()[-1][:300] if out.strip() else ''
                detected.append({'property': p, 'rules': [], 'rule': None, 'exit2': last})
    finally:
        sh(f'git -C /repo worktree remove --force {wt}')
        shutil.rmtree(scratch, ignore_errors=True)
    result['verdicts'] = verdicts
    result['detected_by'] = [d for d in detected if d.get('rule')]
    result['analysis_broken'] = [d for d in detected if d.get('exit2')]
    dst = os.path.join(VERIF, 'seeded', name)
    os.makedirs(dst, exist_ok=True)
    if os.path.realpath(src) != os.path.realpath(dst):
        shutil.copy(patch, os.path.join(dst, 'patch.diff'))
        shutil.copy(demo, os.path.join(dst, 'demo.cxx'))
        shutil.copy(os.path.join(src, 'README.txt'), os.path.join(dst, 'README.txt'))
    readme = open(os.path.join(src, 'README.txt')).read()
    meta = {'breaks_property': pid, 'written_by': 'independent sub-agent given only the property text and a scratch worktree',
            'what_it_needs_to_manifest': readme.strip(),
            'confirmed': {'demo_on_clean_tree': result['demo_clean'], 'tests_with_patch': result['tests'], 'demo_with_patch': result['demo_patched'],
                          'how': 'tools/eval_seed.py: fresh git worktree of /repo under /tmp, cmake+ninja build, doctest binary, demo compiled with g++ -std=c++20 against src/*.cxx'},
            'detected_by': result['detected_by'], 'analysis_broken': result['analysis_broken'],
            'caught_by_target_check': any(d['property'] == pid for d in result['detected_by'])}
    json.dump(meta, open(os.path.join(dst, 'meta.json'), 'w'), indent=1)
    brief = {k: v for k, v in result.items() if k != 'verdicts'}
    brief['detected_by'] = [{'property': d['property'], 'rules': d['rules']} for d in result['detected_by']]
    brief['analysis_broken'] = [{'property': d['property'], 'exit2': d['exit2'][:200]} for d in result['analysis_broken']]
    print(json.dumps(brief, indent=1))
    return 0

sys.exit(main())
